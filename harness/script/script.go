// Package script provides a scripted source node and an output collector for driving real execution nodes
// one message at a time.
package script

import (
	"context"
	"errors"
	"fmt"

	"github.com/cube2222/octosql/execution"

	"verifharness/vals"
)

// Msg is an abstract message (see vals.ToRecord).
type Msg = map[string]interface{}

// Source replays a fixed list of abstract messages.  OnStep (optional) is called before each message with its
// index, and after the last one with len(msgs) (end of stream is the return from Run).
type Source struct {
	Msgs   []Msg
	OnStep func(i int)
}

func (s *Source) Run(ctx execution.ExecutionContext, produce execution.ProduceFn, metaSend execution.MetaSendFn) error {
	pctx := execution.ProduceFromExecutionContext(ctx)
	for i, m := range s.Msgs {
		if s.OnStep != nil {
			s.OnStep(i)
		}
		switch m["m"] {
		case "rec":
			if err := produce(pctx, vals.ToRecord(m)); err != nil {
				return err
			}
		case "wm":
			if err := metaSend(pctx, execution.MetadataMessage{Type: execution.MetadataMessageTypeWatermark, Watermark: vals.TimeOf(vals.Int(m["w"]))}); err != nil {
				return err
			}
		case "err":
			return errors.New(fmt.Sprint(m["e"]))
		case "eos":
			if s.OnStep != nil {
				s.OnStep(len(s.Msgs))
			}
			return nil
		default:
			panic(fmt.Sprintf("bad scripted message %v", m))
		}
	}
	if s.OnStep != nil {
		s.OnStep(len(s.Msgs))
	}
	return nil
}

// Collector gathers what a node emits, grouped by the input step that caused it.
type Collector struct {
	Step int            // current input step (set by Source.OnStep)
	Out  [][]vals.V     // Out[i] = messages emitted while input step i was being processed
}

func (c *Collector) at() int {
	for len(c.Out) <= c.Step {
		c.Out = append(c.Out, []vals.V{})
	}
	return c.Step
}

func (c *Collector) Produce(ctx execution.ProduceContext, r execution.Record) error {
	i := c.at()
	// copy values: nodes may reuse slices
	c.Out[i] = append(c.Out[i], vals.FromRecord(r))
	return nil
}

func (c *Collector) Meta(ctx execution.ProduceContext, m execution.MetadataMessage) error {
	i := c.at()
	c.Out[i] = append(c.Out[i], vals.Wm(m.Watermark))
	return nil
}

// RunNode runs node with a collector wired to src's step counter; panics are converted to errors.
func RunNode(node execution.Node, src *Source, n int) (out [][]vals.V, err error) {
	return RunNodeCtx(node, src, n, nil)
}

// RunNodeCtx is RunNode with an outer variable context (correlated arguments).
func RunNodeCtx(node execution.Node, src *Source, n int, varCtx *execution.VariableContext) (out [][]vals.V, err error) {
	c := &Collector{}
	src.OnStep = func(i int) { c.Step = i }
	defer func() {
		if p := recover(); p != nil {
			err = fmt.Errorf("PANIC: %v", p)
		}
		c.Step = n
		c.at()
		out = c.Out
	}()
	err = node.Run(execution.ExecutionContext{Context: context.Background(), VariableContext: varCtx}, c.Produce, c.Meta)
	return
}
