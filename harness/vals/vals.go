// Package vals maps the abstract JSON vocabulary shared with the TLA+ specifications to octosql values,
// types and records, and back.  It contains no property logic: only encoding.
package vals

import (
	"encoding/base64"
	"encoding/json"
	"fmt"
	"math"
	"strconv"
	"time"

	"github.com/cube2222/octosql/execution"
	"github.com/cube2222/octosql/octosql"
)

// V is one abstract value as exported by TLC (ToJson of a record with a "t" tag).
type V = map[string]interface{}

// Base is the instant abstract time 1 maps to minus one second; abstract 0 is the Go zero time.
var Base = time.Date(2020, 1, 1, 0, 0, 0, 0, time.UTC)

const MaxT = 1 << 20 // abstract times above this stand for WatermarkMaxValue

// farTimes: abstract times standing for instants outside the range of a 64-bit nanosecond count (1677-09-21 .. 2262-04-11).
var farTimes = map[int]time.Time{
	-3:      time.Date(1066, 10, 14, 9, 0, 0, 0, time.UTC),
	-2:      time.Date(1500, 6, 15, 12, 30, 45, 123456789, time.UTC),
	-1:      time.Date(1677, 9, 21, 0, 12, 43, 0, time.UTC),
	1000001: time.Date(2262, 4, 12, 0, 0, 0, 0, time.UTC),
	1000002: time.Date(2300, 1, 1, 0, 0, 0, 1, time.UTC),
	1000003: time.Date(9999, 12, 31, 23, 59, 59, 0, time.UTC),
}

func TimeOf(t int) time.Time {
	if t == 0 {
		return time.Time{}
	}
	if ft, ok := farTimes[t]; ok {
		return ft
	}
	if t >= MaxT {
		return execution.WatermarkMaxValue
	}
	return Base.Add(time.Duration(t) * time.Second)
}

func AbsTime(t time.Time) int {
	if t.IsZero() {
		return 0
	}
	if t.Equal(execution.WatermarkMaxValue) {
		return MaxT
	}
	for k, ft := range farTimes {
		if t.Equal(ft) {
			return k
		}
	}
	if t.Year() < 1700 || t.Year() > 2250 {
		return -int(t.Unix()%1000000007) - 1000 // Sub would saturate: a marker distinct from every catalogue entry
	}
	d := t.Sub(Base)
	if d%time.Second != 0 {
		return -int(d) // not representable: negative marker keeps it distinct
	}
	return int(d / time.Second)
}

func num(x interface{}) float64 {
	switch n := x.(type) {
	case float64:
		return n
	case json.Number:
		f, _ := n.Float64()
		return f
	case int:
		return float64(n)
	case int64:
		return float64(n)
	}
	panic(fmt.Sprintf("not a number: %#v", x))
}

func Int(x interface{}) int { return int(num(x)) }

var Strings = map[string]string{}

// Str maps an abstract string token to concrete bytes (identity unless a catalogue entry exists).
func Str(tok string) string {
	if s, ok := Strings[tok]; ok {
		return s
	}
	return tok
}

// ToValue decodes an abstract value.
func ToValue(x interface{}) octosql.Value {
	m, ok := x.(map[string]interface{})
	if !ok {
		panic(fmt.Sprintf("abstract value is not an object: %#v", x))
	}
	switch m["t"] {
	case "null":
		return octosql.NewNull()
	case "int":
		if b, ok := m["big"]; ok {
			if b == "min64" {
				return octosql.NewInt(math.MinInt64)
			}
			return octosql.NewInt(math.MaxInt64)
		}
		if hi, ok := m["hi"]; ok { // two-limb: hi*2^32 + lo
			return octosql.NewInt(int64(num(hi))*(1<<32) + int64(num(m["lo"])))
		}
		return octosql.NewInt(int64(num(m["i"])))
	case "float":
		if lit, ok := m["lit"].(string); ok { // a decimal literal (C25)
			f, err := strconv.ParseFloat(lit, 64)
			if err != nil {
				panic(err)
			}
			return octosql.NewFloat(f)
		}
		return octosql.NewFloat(num(m["n"]) / num(m["d"]))
	case "fsp":
		switch m["s"] {
		case "nan":
			return octosql.NewFloat(math.NaN())
		case "+inf":
			return octosql.NewFloat(math.Inf(1))
		case "-inf":
			return octosql.NewFloat(math.Inf(-1))
		case "-0":
			return octosql.NewFloat(math.Copysign(0, -1))
		case "+0":
			return octosql.NewFloat(0)
		}
	case "bool":
		return octosql.NewBoolean(m["b"].(bool))
	case "str":
		if b, ok := m["b64"].(string); ok { // raw bytes (C25)
			raw, err := base64.StdEncoding.DecodeString(b)
			if err != nil {
				panic(err)
			}
			return octosql.NewString(string(raw))
		}
		return octosql.NewString(Str(m["s"].(string)))
	case "time":
		if z, ok := m["z"]; ok { // same instant, another zone
			return octosql.NewTime(TimeOf(Int(m["ts"])).In(time.FixedZone("z", Int(z)*3600)))
		}
		return octosql.NewTime(TimeOf(Int(m["ts"])))
	case "dur":
		return octosql.NewDuration(time.Duration(int64(num(m["du"]))))
	case "list":
		return octosql.NewList(ToValues(m["l"]))
	case "obj":
		return octosql.NewStruct(ToValues(m["o"]))
	case "tuple":
		return octosql.NewTuple(ToValues(m["tu"]))
	}
	panic(fmt.Sprintf("unknown abstract value: %#v", x))
}

func ToValues(x interface{}) []octosql.Value {
	l, _ := x.([]interface{})
	out := make([]octosql.Value, len(l))
	for i := range l {
		out[i] = ToValue(l[i])
	}
	return out
}

var revStrings map[string]string

func absStr(s string) string {
	if len(Strings) > 0 {
		if revStrings == nil || len(revStrings) != len(Strings) {
			revStrings = map[string]string{}
			for k, v := range Strings {
				revStrings[v] = k
			}
		}
		if t, ok := revStrings[s]; ok {
			return t
		}
	}
	return s
}

// FromValue encodes a concrete value.  Finite floats are encoded as a dyadic fraction n/d when that is exact
// with small n, d (the universe the specifications use), otherwise as {"t":"float","x":<float64>}.
func FromValue(v octosql.Value) V {
	switch v.TypeID {
	case octosql.TypeIDNull:
		return V{"t": "null"}
	case octosql.TypeIDInt:
		if v.Int == math.MinInt64 {
			return V{"t": "int", "big": "min64"}
		}
		if v.Int == math.MaxInt64 {
			return V{"t": "int", "big": "max64"}
		}
		if v.Int > math.MaxInt32 || v.Int < math.MinInt32 {
			hi := v.Int >> 32
			lo := v.Int - hi*(1<<32)
			return V{"t": "int", "hi": hi, "lo": lo}
		}
		return V{"t": "int", "i": v.Int}
	case octosql.TypeIDFloat:
		f := v.Float
		switch {
		case math.IsNaN(f):
			return V{"t": "fsp", "s": "nan"}
		case math.IsInf(f, 1):
			return V{"t": "fsp", "s": "+inf"}
		case math.IsInf(f, -1):
			return V{"t": "fsp", "s": "-inf"}
		case f == 0 && math.Signbit(f):
			return V{"t": "fsp", "s": "-0"}
		}
		for _, d := range []float64{1, 2, 4, 8, 16, 32, 64} {
			n := f * d
			if n == math.Trunc(n) && math.Abs(n) < 1e9 {
				return V{"t": "float", "n": int64(n), "d": int64(d)}
			}
		}
		return V{"t": "float", "x": f}
	case octosql.TypeIDBoolean:
		return V{"t": "bool", "b": v.Boolean}
	case octosql.TypeIDString:
		return V{"t": "str", "s": absStr(v.Str)}
	case octosql.TypeIDTime:
		return V{"t": "time", "ts": AbsTime(v.Time)}
	case octosql.TypeIDDuration:
		return V{"t": "dur", "du": int64(v.Duration)}
	case octosql.TypeIDList:
		return V{"t": "list", "l": FromValues(v.List)}
	case octosql.TypeIDStruct:
		return V{"t": "obj", "o": FromValues(v.Struct)}
	case octosql.TypeIDTuple:
		return V{"t": "tuple", "tu": FromValues(v.Tuple)}
	}
	return V{"t": "invalid", "id": int(v.TypeID)}
}

func FromValues(vs []octosql.Value) []interface{} {
	out := make([]interface{}, len(vs))
	for i := range vs {
		out[i] = FromValue(vs[i])
	}
	return out
}

// Rec is an abstract record / message.
//
//	{"m":"rec","v":[values],"r":false,"t":2} | {"m":"wm","w":3} | {"m":"eos"} | {"m":"err","e":"..."}
func ToRecord(m map[string]interface{}) execution.Record {
	r, _ := m["r"].(bool)
	t := 0
	if x, ok := m["t"]; ok {
		t = Int(x)
	}
	return execution.NewRecord(ToValues(m["v"]), r, TimeOf(t))
}

func FromRecord(r execution.Record) V {
	return V{"m": "rec", "v": FromValues(r.Values), "r": r.Retraction, "t": AbsTime(r.EventTime)}
}

func Wm(t time.Time) V { return V{"m": "wm", "w": AbsTime(t)} }

// ToType decodes an abstract type: {"k":"prim","n":"Int"} {"k":"any"} {"k":"list","e":T|"none"} {"k":"obj","f":[[name,T]..]}
// {"k":"tuple","e":[..]} {"k":"union","a":[..]}
func ToType(x interface{}) octosql.Type {
	m := x.(map[string]interface{})
	switch m["k"] {
	case "prim":
		switch m["n"] {
		case "Null":
			return octosql.Null
		case "Int":
			return octosql.Int
		case "Float":
			return octosql.Float
		case "Boolean":
			return octosql.Boolean
		case "String":
			return octosql.String
		case "Time":
			return octosql.Time
		case "Duration":
			return octosql.Duration
		}
	case "any":
		return octosql.Any
	case "listnone":
		return octosql.Type{TypeID: octosql.TypeIDList}
	case "list":
		e := ToType(m["le"])
		return octosql.Type{TypeID: octosql.TypeIDList, List: struct{ Element *octosql.Type }{Element: &e}}
	case "obj":
		fs, _ := m["f"].([]interface{})
		fields := make([]octosql.StructField, len(fs))
		for i := range fs {
			p := fs[i].([]interface{})
			fields[i] = octosql.StructField{Name: p[0].(string), Type: ToType(p[1])}
		}
		return octosql.Type{TypeID: octosql.TypeIDStruct, Struct: struct{ Fields []octosql.StructField }{Fields: fields}}
	case "tuple":
		es, _ := m["te"].([]interface{})
		el := make([]octosql.Type, len(es))
		for i := range es {
			el[i] = ToType(es[i])
		}
		return octosql.Type{TypeID: octosql.TypeIDTuple, Tuple: struct{ Elements []octosql.Type }{Elements: el}}
	case "union":
		as, _ := m["a"].([]interface{})
		al := make([]octosql.Type, len(as))
		for i := range as {
			al[i] = ToType(as[i])
		}
		return octosql.Type{TypeID: octosql.TypeIDUnion, Union: struct{ Alternatives []octosql.Type }{Alternatives: al}}
	}
	panic(fmt.Sprintf("unknown abstract type %#v", x))
}

func FromType(t octosql.Type) V {
	switch t.TypeID {
	case octosql.TypeIDNull, octosql.TypeIDInt, octosql.TypeIDFloat, octosql.TypeIDBoolean, octosql.TypeIDString,
		octosql.TypeIDTime, octosql.TypeIDDuration:
		return V{"k": "prim", "n": t.TypeID.String()}
	case octosql.TypeIDAny:
		return V{"k": "any"}
	case octosql.TypeIDList:
		if t.List.Element == nil {
			return V{"k": "listnone"}
		}
		return V{"k": "list", "le": FromType(*t.List.Element)}
	case octosql.TypeIDStruct:
		fs := make([]interface{}, len(t.Struct.Fields))
		for i, f := range t.Struct.Fields {
			fs[i] = []interface{}{f.Name, FromType(f.Type)}
		}
		return V{"k": "obj", "f": fs}
	case octosql.TypeIDTuple:
		es := make([]interface{}, len(t.Tuple.Elements))
		for i, e := range t.Tuple.Elements {
			es[i] = FromType(e)
		}
		return V{"k": "tuple", "te": es}
	case octosql.TypeIDUnion:
		as := make([]interface{}, len(t.Union.Alternatives))
		for i, a := range t.Union.Alternatives {
			as[i] = FromType(a)
		}
		return V{"k": "union", "a": as}
	}
	return V{"k": "invalid", "id": int(t.TypeID)}
}

// Canon renders any JSON-able value canonically (sorted keys) for equality comparison.
func Canon(x interface{}) string {
	b, err := json.Marshal(x)
	if err != nil {
		panic(err)
	}
	var y interface{}
	if err := json.Unmarshal(b, &y); err != nil {
		panic(err)
	}
	b, _ = json.Marshal(y)
	return string(b)
}
