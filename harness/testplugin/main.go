// testplugin is an OctoSQL plugin (built on the real plugins.Run) serving in-memory tables read from a JSON file, used to
// observe the plugin boundary: it accepts pushed-down predicates and evaluates them itself, and it can replay a scripted
// stream of records, watermarks and a failure.  It contains no property logic.
package main

import (
	"context"
	"encoding/json"
	"errors"
	"fmt"
	"os"

	"github.com/cube2222/octosql/execution"
	"github.com/cube2222/octosql/octosql"
	"github.com/cube2222/octosql/physical"
	"github.com/cube2222/octosql/plugins"

	"verifharness/script"
	"verifharness/vals"
)

type config struct {
	Path string `yaml:"path"`
}

type tableDef struct {
	Fields    []physical.SchemaField
	TimeField int
	Rows      [][]octosql.Value
	Script    []script.Msg
	Push      string // "all" (default): accept every predicate; "none": reject every predicate
}

type db struct{ tables map[string]*tableDef }

func (d *db) ListTables(ctx context.Context) ([]string, error) {
	var out []string
	for k := range d.tables {
		out = append(out, k)
	}
	return out, nil
}

func (d *db) GetTable(ctx context.Context, name string, options map[string]string) (physical.DatasourceImplementation, physical.Schema, error) {
	t, ok := d.tables[name]
	if !ok {
		return nil, physical.Schema{}, fmt.Errorf("no such table: %s", name)
	}
	return &impl{t: t}, physical.NewSchema(t.Fields, t.TimeField, physical.WithNoRetractions(t.Script == nil)), nil
}

type impl struct{ t *tableDef }

func (m *impl) PushDownPredicates(newPredicates, pushedDownPredicates []physical.Expression) (rejected, pushedDown []physical.Expression, changed bool) {
	if m.t.Push == "none" {
		return newPredicates, pushedDownPredicates, false
	}
	return []physical.Expression{}, append(append([]physical.Expression{}, pushedDownPredicates...), newPredicates...), len(newPredicates) > 0
}

func (m *impl) Materialize(ctx context.Context, env physical.Environment, schema physical.Schema, pushedDownPredicates []physical.Expression) (execution.Node, error) {
	full := physical.NewSchema(m.t.Fields, m.t.TimeField)
	preds := make([]execution.Expression, len(pushedDownPredicates))
	for i := range pushedDownPredicates {
		e, err := pushedDownPredicates[i].Materialize(ctx, env.WithRecordSchema(full))
		if err != nil {
			return nil, err
		}
		preds[i] = e
	}
	cols := make([]int, len(schema.Fields))
	for i, f := range schema.Fields {
		cols[i] = -1
		for j, tf := range m.t.Fields {
			if tf.Name == f.Name {
				cols[i] = j
			}
		}
		if cols[i] == -1 {
			return nil, fmt.Errorf("table has no field %q", f.Name)
		}
	}
	return &node{t: m.t, preds: preds, cols: cols}, nil
}

type node struct {
	t     *tableDef
	preds []execution.Expression
	cols  []int
}

func (n *node) keep(ctx execution.ExecutionContext, rec execution.Record) (bool, error) {
	for _, p := range n.preds {
		v, err := p.Evaluate(ctx.WithRecord(rec))
		if err != nil {
			return false, err
		}
		if v.TypeID != octosql.TypeIDBoolean || !v.Boolean {
			return false, nil
		}
	}
	return true, nil
}

func (n *node) project(rec execution.Record) execution.Record {
	vs := make([]octosql.Value, len(n.cols))
	for i, c := range n.cols {
		vs[i] = rec.Values[c]
	}
	return execution.NewRecord(vs, rec.Retraction, rec.EventTime)
}

func (n *node) Run(ctx execution.ExecutionContext, produce execution.ProduceFn, metaSend execution.MetaSendFn) error {
	pctx := execution.ProduceFromExecutionContext(ctx)
	emit := func(rec execution.Record) error {
		ok, err := n.keep(ctx, rec)
		if err != nil || !ok {
			return err
		}
		return produce(pctx, n.project(rec))
	}
	if n.t.Script != nil {
		for _, m := range n.t.Script {
			switch m["m"] {
			case "rec":
				if err := emit(vals.ToRecord(m)); err != nil {
					return err
				}
			case "wm":
				if err := metaSend(pctx, execution.MetadataMessage{Type: execution.MetadataMessageTypeWatermark, Watermark: vals.TimeOf(vals.Int(m["w"]))}); err != nil {
					return err
				}
			case "err":
				return errors.New(fmt.Sprint(m["e"]))
			}
		}
		return nil
	}
	for _, r := range n.t.Rows {
		if err := emit(execution.NewRecord(r, false, execution.Record{}.EventTime)); err != nil {
			return err
		}
	}
	return nil
}

func main() {
	plugins.Run(func(ctx context.Context, configDecoder plugins.ConfigDecoder) (physical.Database, error) {
		var cfg config
		if err := configDecoder.Decode(&cfg); err != nil {
			return nil, err
		}
		if cfg.Path == "" {
			cfg.Path = os.Getenv("VERIF_PLUGIN_TABLES")
		}
		data, err := os.ReadFile(cfg.Path)
		if err != nil {
			return nil, err
		}
		var raw struct {
			Tables map[string]struct {
				Fields    []interface{}            `json:"fields"`
				TimeField *int                     `json:"time_field"`
				Rows      []interface{}            `json:"rows"`
				Script    []map[string]interface{} `json:"script"`
				Push      string                   `json:"push"`
			} `json:"tables"`
		}
		if err := json.Unmarshal(data, &raw); err != nil {
			return nil, err
		}
		out := &db{tables: map[string]*tableDef{}}
		for name, t := range raw.Tables {
			td := &tableDef{TimeField: -1, Push: t.Push}
			if t.TimeField != nil {
				td.TimeField = *t.TimeField
			}
			for _, f := range t.Fields {
				p := f.([]interface{})
				td.Fields = append(td.Fields, physical.SchemaField{Name: p[0].(string), Type: vals.ToType(p[1])})
			}
			for _, r := range t.Rows {
				td.Rows = append(td.Rows, vals.ToValues(r))
			}
			if t.Script != nil {
				td.Script = t.Script
			}
			out.tables[name] = td
		}
		return out, nil
	})
}
