// Package nd reads and writes newline-delimited JSON.
package nd

import (
	"bufio"
	"encoding/json"
	"os"
)

func Read(path string, each func(m map[string]interface{}) error) error {
	f, err := os.Open(path)
	if err != nil {
		return err
	}
	defer f.Close()
	sc := bufio.NewScanner(f)
	sc.Buffer(make([]byte, 1<<20), 1<<28)
	for sc.Scan() {
		if len(sc.Bytes()) == 0 {
			continue
		}
		var m map[string]interface{}
		if err := json.Unmarshal(sc.Bytes(), &m); err != nil {
			return err
		}
		if err := each(m); err != nil {
			return err
		}
	}
	return sc.Err()
}

type Writer struct {
	f *os.File
	w *bufio.Writer
	N int
}

func Create(path string) (*Writer, error) {
	f, err := os.Create(path)
	if err != nil {
		return nil, err
	}
	return &Writer{f: f, w: bufio.NewWriterSize(f, 1<<20)}, nil
}

func (w *Writer) Write(x interface{}) {
	b, err := json.Marshal(x)
	if err != nil {
		panic(err)
	}
	w.w.Write(b)
	w.w.WriteByte('\n')
	w.N++
}

// Flush makes everything written so far durable in the file (used by commands whose process may be killed by the code under test).
func (w *Writer) Flush() { w.w.Flush() }

func (w *Writer) Close() error {
	if err := w.w.Flush(); err != nil {
		return err
	}
	return w.f.Close()
}
