package main

import (
	"context"
	"flag"
	"fmt"
	"regexp"
	"sort"

	"github.com/cube2222/octosql/execution"
	"github.com/cube2222/octosql/functions"
	"github.com/cube2222/octosql/logical"
	"github.com/cube2222/octosql/octosql"
	"github.com/cube2222/octosql/physical"
	"github.com/cube2222/octosql/plugins"

	"verifharness/engine"
	"verifharness/nd"
	"verifharness/vals"
)

func init() {
	cmds["fn-eval"] = fnEval
	cmds["fn-catalogue"] = fnCatalogue
}

// evalCall typechecks, materialises and evaluates fn(c0..cn) where ci is a record variable of static type types[i]
// holding args[i] - the same path a function call in a query takes.
func evalCall(fn string, args []octosql.Value, types []octosql.Type) (stage, errText string, typ octosql.Type, val octosql.Value) {
	return evalCallT(fn, args, types, false)
}

// evalCallT: with transport, the typechecked expression first crosses the plugin boundary (JSON + re-resolution of the functions), as a pushed-down
// predicate does, and is materialised and evaluated on the other side.
func evalCallT(fn string, args []octosql.Value, types []octosql.Type, transport bool) (stage, errText string, typ octosql.Type, val octosql.Value) {
	defer func() {
		if p := recover(); p != nil {
			if stage == "" {
				stage = "panic"
			}
			errText = fmt.Sprint(p)
		}
	}()
	fields := make([]physical.SchemaField, len(args))
	mapping := map[string]string{}
	vars := make([]logical.Expression, len(args))
	for i := range args {
		name := fmt.Sprintf("c%d", i)
		fields[i] = physical.SchemaField{Name: name, Type: types[i]}
		mapping[name] = name
		vars[i] = logical.NewVariable(name)
	}
	env := engine.Env(nil).WithRecordSchema(physical.NewSchema(fields, -1))
	lenv := logical.Environment{CommonTableExpressions: map[string]logical.CommonTableExpression{}, UniqueVariableNames: &logical.VariableMapping{Mapping: mapping},
		UniqueNameGenerator: map[string]int{}}
	var le logical.Expression
	switch fn {
	case "coalesce":
		le = logical.NewCoalesce(vars)
	case "and":
		le = logical.NewAnd(vars[0], vars[1])
	case "or":
		le = logical.NewOr(vars[0], vars[1])
	default:
		le = logical.NewFunctionExpression(fn, vars)
	}
	stage = "typecheck"
	pe := le.Typecheck(context.Background(), env, lenv)
	typ = pe.Type
	if transport {
		stage = "transport"
		te, ok, err := plugins.VerifTransportExpression(pe)
		if err != nil {
			return "transport", err.Error(), typ, val
		}
		if !ok {
			return "rejected", "the receiving side does not know the function", typ, val
		}
		pe = te
		typ = pe.Type
	}
	stage = "materialize"
	ee, err := pe.Materialize(context.Background(), env)
	if err != nil {
		return "materialize", err.Error(), typ, val
	}
	stage = "panic" // a panic from here on is a runtime panic of the evaluation
	v, err := ee.Evaluate(execution.ExecutionContext{Context: context.Background(), VariableContext: &execution.VariableContext{Values: args}})
	if err != nil {
		return "run", err.Error(), typ, val
	}
	return "", "", typ, v
}

// fn-eval -in cases.ndjson -out results.ndjson : {"id","fn","args":[values],"types":[types]} -> {"id","stage","err","type","value"}
func fnEval(args []string) error {
	fs := flag.NewFlagSet("fn-eval", flag.ExitOnError)
	in := fs.String("in", "", "")
	out := fs.String("out", "", "")
	transport := fs.Bool("transport", false, "also evaluate the expression after the plugin predicate transport")
	fs.Parse(args)
	w, err := nd.Create(*out)
	if err != nil {
		return err
	}
	defer w.Close()
	return nd.Read(*in, func(c map[string]interface{}) error {
		av := vals.ToValues(c["args"])
		tl, _ := c["types"].([]interface{})
		ts := make([]octosql.Type, len(av))
		for i := range av {
			if i < len(tl) {
				ts[i] = vals.ToType(tl[i])
			} else {
				ts[i] = av[i].Type()
			}
		}
		stage, e, typ, v := evalCall(c["fn"].(string), av, ts)
		res := map[string]interface{}{"id": c["id"], "stage": stage, "err": e, "type": vals.FromType(typ), "value": vals.FromValue(v)}
		if *transport {
			tstage, te, ttyp, tv := evalCallT(c["fn"].(string), av, ts, true)
			res["t_stage"], res["t_err"], res["t_type"], res["t_value"] = tstage, te, vals.FromType(ttyp), vals.FromValue(tv)
		}
		if fn := c["fn"].(string); (fn == "~" || fn == "~*") && len(av) == 2 && av[0].TypeID == octosql.TypeIDString && av[1].TypeID == octosql.TypeIDString {
			// the reference the statement names: Go's regexp on the pattern, and on the pattern with the (?i) flag
			pat := av[1].Str
			if fn == "~*" {
				pat = "(?i)" + pat
			}
			if re, err := regexp.Compile(pat); err != nil {
				res["go"] = "compile error"
			} else {
				res["go"] = re.MatchString(av[0].Str)
			}
		}
		if v.TypeID == octosql.TypeIDFloat {
			res["f64"] = fmt.Sprintf("%v", v.Float)
		}
		w.Write(res)
		return nil
	})
}

// fn-catalogue -out cat.ndjson : every descriptor of functions.FunctionMap() with fixed argument types
func fnCatalogue(args []string) error {
	fs := flag.NewFlagSet("fn-catalogue", flag.ExitOnError)
	out := fs.String("out", "", "")
	fs.Parse(args)
	w, err := nd.Create(*out)
	if err != nil {
		return err
	}
	defer w.Close()
	fm := functions.FunctionMap()
	names := make([]string, 0, len(fm))
	for k := range fm {
		names = append(names, k)
	}
	sort.Strings(names)
	for _, name := range names {
		for i, d := range fm[name].Descriptors {
			ats := make([]interface{}, len(d.ArgumentTypes))
			for j, t := range d.ArgumentTypes {
				ats[j] = vals.FromType(t)
			}
			w.Write(map[string]interface{}{"fn": name, "idx": i, "strict": d.Strict, "typefn": d.TypeFn != nil, "args": ats, "out": vals.FromType(d.OutputType)})
		}
	}
	return nil
}
