package main

import (
	"flag"
	"fmt"
	"math"
	"math/big"
	"math/rand"
	"time"

	"github.com/cube2222/octosql/aggregates"
	"github.com/cube2222/octosql/execution/nodes"
	"github.com/cube2222/octosql/octosql"

	"verifharness/nd"
	"verifharness/vals"
)

func init() {
	cmds["agg-replay"] = aggReplay
	cmds["agg-trace"] = aggTrace
}

var aggKinds = []string{"count", "sum", "avg", "min", "max", "array_agg", "count_distinct", "sum_distinct", "avg_distinct", "array_agg_distinct"}
var aggVKs = []string{"int", "float", "dur"}

// value kinds of the replay only: the atoms scaled by bigK = 2^53+1, so that sums and averages lie outside the integers a float64
// represents exactly.  Every aggregate commutes with the scaling (K > 0): Agg(K*M) = K*Agg(M), AVG truncating K*n/d.
var aggReplayVKs = []string{"int", "float", "dur", "intbig", "durbig"}

const bigK = int64(1)<<53 + 1

func vkType(vk string) octosql.Type {
	switch vk {
	case "int", "intbig":
		return octosql.Int
	case "float":
		return octosql.Float
	}
	return octosql.Duration
}

// atom -> concrete value of the value kind: Int a, Float a/4, Duration a ns.
func atomValue(vk string, a int) octosql.Value {
	switch vk {
	case "int":
		return octosql.NewInt(int64(a))
	case "intbig":
		return octosql.NewInt(int64(a) * bigK)
	case "durbig":
		return octosql.NewDuration(time.Duration(int64(a) * bigK))
	case "float":
		return octosql.NewFloat(float64(a) / 4)
	}
	return octosql.NewDuration(time.Duration(a))
}

// newAggregate instantiates the real aggregate through the same descriptor table the typechecker uses.
func newAggregate(kind, vk string) (nodes.Aggregate, bool) {
	det, ok := aggregates.Aggregates[kind]
	if !ok {
		return nil, false
	}
	t := vkType(vk)
	for _, d := range det.Descriptors {
		if d.TypeFn != nil {
			if _, ok := d.TypeFn(t); ok {
				return d.Prototype(), true
			}
			continue
		}
		if t.Is(d.ArgumentType) == octosql.TypeRelationIs {
			return d.Prototype(), true
		}
	}
	return nil, false
}

func safeAdd(a nodes.Aggregate, r bool, v octosql.Value) (p interface{}) {
	defer func() { p = recover() }()
	a.Add(r, v)
	return nil
}

func safeTrigger(a nodes.Aggregate) (v octosql.Value, p interface{}) {
	defer func() { p = recover() }()
	return a.Trigger(), nil
}

func floatClose(a, b float64) bool {
	if a == b {
		return true
	}
	return math.Abs(a-b) <= 1e-9*math.Max(1, math.Max(math.Abs(a), math.Abs(b)))
}

// matchesExpected compares the observed value with the exported expectation {n,d,tr} / {l}.
func aggMatches(kind, vk string, got octosql.Value, exp map[string]interface{}) bool {
	if l, ok := exp["l"]; ok {
		if got.TypeID != octosql.TypeIDList {
			return false
		}
		el := l.([]interface{})
		if len(el) != len(got.List) {
			return false
		}
		for i := range el {
			want := atomValue(vk, vals.Int(el[i]))
			if got.List[i].TypeID != want.TypeID || got.List[i].Compare(want) != 0 {
				return false
			}
		}
		return true
	}
	n, d, tr := vals.Int(exp["n"]), vals.Int(exp["d"]), vals.Int(exp["tr"])
	base := kind
	if len(kind) > 9 && kind[len(kind)-9:] == "_distinct" {
		base = kind[:len(kind)-9]
	}
	if base == "count" {
		return got.TypeID == octosql.TypeIDInt && got.Int == int64(n)
	}
	switch vk {
	case "intbig", "durbig":
		// exact: trunc(K * n / d) with the rational n/d exported by TLC
		q := new(big.Int).Quo(new(big.Int).Mul(big.NewInt(bigK), big.NewInt(int64(n))), big.NewInt(int64(d)))
		if !q.IsInt64() {
			return true // outside int64: wrap-around is not specified here
		}
		if vk == "intbig" {
			return got.TypeID == octosql.TypeIDInt && got.Int == q.Int64()
		}
		return got.TypeID == octosql.TypeIDDuration && int64(got.Duration) == q.Int64()
	case "int":
		return got.TypeID == octosql.TypeIDInt && got.Int == int64(tr)
	case "dur":
		return got.TypeID == octosql.TypeIDDuration && int64(got.Duration) == int64(tr)
	default:
		return got.TypeID == octosql.TypeIDFloat && floatClose(got.Float, float64(n)/(4*float64(d)))
	}
}

// agg-replay -in cases.ndjson -out results.ndjson : steps every exported history through every real aggregate.
func aggReplay(args []string) error {
	fs := flag.NewFlagSet("agg-replay", flag.ExitOnError)
	in := fs.String("in", "", "")
	out := fs.String("out", "", "")
	fs.Parse(args)
	w, err := nd.Create(*out)
	if err != nil {
		return err
	}
	defer w.Close()
	ncase, nsteps, ncombos, nmis := 0, 0, 0, 0
	missing := map[string]bool{}
	err = nd.Read(*in, func(c map[string]interface{}) error {
		ncase++
		h := c["h"].([]interface{})
		exp := c["exp"].(map[string]interface{})
		for _, kind := range aggKinds {
			e := exp[kind].([]interface{})
			for _, vk := range aggReplayVKs {
				a, ok := newAggregate(kind, vk)
				if !ok {
					missing[kind+"/"+vk] = true
					continue
				}
				ncombos++
				for i := range h {
					op := h[i].(map[string]interface{})
					r, v := op["r"].(bool), vals.Int(op["v"])
					nsteps++
					if p := safeAdd(a, r, atomValue(vk, v)); p != nil {
						nmis++
						w.Write(map[string]interface{}{"mis": true, "kind": kind, "vk": vk, "h": h, "step": i + 1, "expected": e[i], "observed": fmt.Sprintf("PANIC in Add: %v", p)})
						break
					}
					ei := e[i].(map[string]interface{})
					if _, none := ei["none"]; none {
						continue
					}
					got, p := safeTrigger(a)
					if p != nil {
						nmis++
						w.Write(map[string]interface{}{"mis": true, "kind": kind, "vk": vk, "h": h, "step": i + 1, "expected": ei, "observed": fmt.Sprintf("PANIC in Trigger: %v", p)})
						break
					}
					if !aggMatches(kind, vk, got, ei) {
						nmis++
						w.Write(map[string]interface{}{"mis": true, "kind": kind, "vk": vk, "h": h, "step": i + 1, "expected": ei, "observed": vals.FromValue(got)})
						break
					}
				}
			}
		}
		return nil
	})
	if err != nil {
		return err
	}
	ms := []string{}
	for k := range missing {
		ms = append(ms, k)
	}
	w.Write(map[string]interface{}{"summary": true, "cases": ncase, "steps": nsteps, "runs": ncombos, "mismatches": nmis, "no_overload": ms})
	return nil
}

// traceOut projects an observed aggregate value into the integer vocabulary of AggregatesTrace.tla.
func traceOut(kind, vk string, got octosql.Value) map[string]interface{} {
	atom := func(v octosql.Value) (int64, bool) {
		switch v.TypeID {
		case octosql.TypeIDInt:
			return v.Int, true
		case octosql.TypeIDDuration:
			return int64(v.Duration), true
		case octosql.TypeIDFloat:
			x := v.Float * 4
			if x == math.Trunc(x) && math.Abs(x) < 1e9 {
				return int64(x), true
			}
		}
		return 0, false
	}
	switch got.TypeID {
	case octosql.TypeIDList:
		l := make([]interface{}, len(got.List))
		for i := range got.List {
			a, ok := atom(got.List[i])
			if !ok {
				return map[string]interface{}{"bad": got.String()}
			}
			l[i] = a
		}
		return map[string]interface{}{"l": l}
	case octosql.TypeIDInt:
		return map[string]interface{}{"i": got.Int}
	case octosql.TypeIDDuration:
		return map[string]interface{}{"i": int64(got.Duration)}
	case octosql.TypeIDFloat:
		x := got.Float * 10000
		if math.IsNaN(x) || math.Abs(x) > 2e9 {
			return map[string]interface{}{"bad": got.String()}
		}
		return map[string]interface{}{"fx": int64(math.Round(x))}
	}
	return map[string]interface{}{"bad": got.String()}
}

// agg-trace -out trace.ndjson -n <histories> -len <maxlen> -dom <k> : random valid histories over atoms -k..k.
func aggTrace(args []string) error {
	fs := flag.NewFlagSet("agg-trace", flag.ExitOnError)
	out := fs.String("out", "", "")
	n := fs.Int("n", 100, "")
	maxLen := fs.Int("len", 60, "")
	dom := fs.Int("dom", 20, "")
	seed := fs.Int64("seed", 1, "")
	fs.Parse(args)
	rng := rand.New(rand.NewSource(*seed))
	w, err := nd.Create(*out)
	if err != nil {
		return err
	}
	defer w.Close()
	for t := 0; t < *n; t++ {
		kind := aggKinds[rng.Intn(len(aggKinds))]
		vk := aggVKs[rng.Intn(len(aggVKs))]
		a, ok := newAggregate(kind, vk)
		if !ok {
			continue
		}
		w.Write(map[string]interface{}{"ev": "new", "kind": kind, "vk": vk})
		// a small pool of atoms makes duplicates and retractions to zero frequent
		pool := make([]int, 1+rng.Intn(5))
		for i := range pool {
			pool[i] = rng.Intn(2**dom+1) - *dom
		}
		bag := map[int]int{}
		size := 0
		L := 1 + rng.Intn(*maxLen)
		pRetract := []float64{0.2, 0.45, 0.6}[rng.Intn(3)]
		for i := 0; i < L; i++ {
			var r bool
			var v int
			if size > 0 && rng.Float64() < pRetract {
				r = true
				k := rng.Intn(size) // pick a present element uniformly over the multiset
				for _, a := range pool {
					if bag[a] > 0 {
						if k < bag[a] {
							v = a
							break
						}
						k -= bag[a]
					}
				}
				bag[v]--
				size--
			} else {
				v = pool[rng.Intn(len(pool))]
				bag[v]++
				size++
			}
			ev := map[string]interface{}{"ev": "add", "r": r, "v": v}
			if p := safeAdd(a, r, atomValue(vk, v)); p != nil {
				ev["out"] = map[string]interface{}{"bad": fmt.Sprintf("PANIC in Add: %v", p)}
				w.Write(ev)
				break
			}
			if size == 0 {
				ev["out"] = map[string]interface{}{"none": true}
			} else {
				got, p := safeTrigger(a)
				if p != nil {
					ev["out"] = map[string]interface{}{"bad": fmt.Sprintf("PANIC in Trigger: %v", p)}
					w.Write(ev)
					break
				}
				ev["out"] = traceOut(kind, vk, got)
			}
			w.Write(ev)
		}
	}
	return nil
}
