package main

import (
	"flag"
	"strconv"
	"time"

	"github.com/cube2222/octosql/octosql"

	"verifharness/engine"
	"verifharness/nd"
	"verifharness/vals"
)

func init() { cmds["schema-obs"] = schemaObs }

// canonValue renders a produced value in the canonical vocabulary of Schema.tla: {"k":kind,"v":text} for scalars
// (Int decimal, Float shortest scientific notation, Boolean true/false, Time RFC 3339 nano in UTC), {"k":"List"|"Struct","l":[..]}.
func canonValue(v octosql.Value) map[string]interface{} {
	switch v.TypeID {
	case octosql.TypeIDNull:
		return map[string]interface{}{"k": "Null", "v": ""}
	case octosql.TypeIDInt:
		return map[string]interface{}{"k": "Int", "v": strconv.FormatInt(int64(v.Int), 10)}
	case octosql.TypeIDFloat:
		return map[string]interface{}{"k": "Float", "v": strconv.FormatFloat(v.Float, 'e', -1, 64)}
	case octosql.TypeIDBoolean:
		return map[string]interface{}{"k": "Boolean", "v": strconv.FormatBool(v.Boolean)}
	case octosql.TypeIDString:
		return map[string]interface{}{"k": "String", "v": v.Str}
	case octosql.TypeIDTime:
		return map[string]interface{}{"k": "Time", "v": v.Time.UTC().Format(time.RFC3339Nano)}
	case octosql.TypeIDDuration:
		return map[string]interface{}{"k": "Duration", "v": v.Duration.String()}
	case octosql.TypeIDList, octosql.TypeIDStruct, octosql.TypeIDTuple:
		src, k := v.List, "List"
		if v.TypeID == octosql.TypeIDStruct {
			src, k = v.Struct, "Struct"
		} else if v.TypeID == octosql.TypeIDTuple {
			src, k = v.Tuple, "Tuple"
		}
		l := make([]interface{}, len(src))
		for i := range src {
			l[i] = canonValue(src[i])
		}
		return map[string]interface{}{"k": k, "l": l}
	}
	return map[string]interface{}{"k": "Invalid", "v": strconv.Itoa(int(v.TypeID))}
}

// schema-obs -in cases.ndjson -out obs.ndjson : runs SELECT * FROM <path> through the in-process engine (real file datasources) and
// reports the schema the datasource announced, the rows it produced (canonical values) and whether the run failed.
func schemaObs(args []string) error {
	fs := flag.NewFlagSet("schema-obs", flag.ExitOnError)
	in := fs.String("in", "", "")
	out := fs.String("out", "", "")
	fs.Parse(args)
	w, err := nd.Create(*out)
	if err != nil {
		return err
	}
	defer w.Close()
	return nd.Read(*in, func(c map[string]interface{}) error {
		r := engine.Run("SELECT * FROM "+c["path"].(string)+" t", nil, true)
		names := []interface{}{}
		types := []interface{}{}
		typestr := []interface{}{}
		for _, f := range r.Fields {
			names = append(names, f.Name)
			types = append(types, vals.FromType(f.Type))
			typestr = append(typestr, f.Type.String())
		}
		rows := []interface{}{}
		for _, rec := range r.Records {
			row := make([]interface{}, len(rec.Values))
			for i := range rec.Values {
				row[i] = canonValue(rec.Values[i])
			}
			rows = append(rows, row)
		}
		w.Write(map[string]interface{}{"id": c["id"], "stage": r.Stage, "err": r.Err, "names": names, "types": types, "typestr": typestr, "rows": rows})
		w.Flush()
		return nil
	})
}
