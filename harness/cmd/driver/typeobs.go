package main

import (
	"flag"
	"fmt"

	"github.com/cube2222/octosql/octosql"

	"verifharness/nd"
	"verifharness/vals"
)

func init() { cmds["type-obs"] = typeObs }

func guard(f func()) (p interface{}) {
	defer func() { p = recover() }()
	f()
	return nil
}

// type-obs -types types.ndjson -values values.ndjson -out obs.ndjson : calls the real type algebra on every pair.
func typeObs(args []string) error {
	fs := flag.NewFlagSet("type-obs", flag.ExitOnError)
	tin := fs.String("types", "", "")
	vin := fs.String("values", "", "")
	out := fs.String("out", "", "")
	fs.Parse(args)
	var ts []octosql.Type
	if err := nd.Read(*tin, func(m map[string]interface{}) error {
		if vals.Int(m["id"]) != len(ts)+1 {
			return fmt.Errorf("type ids must be 1..N in order")
		}
		ts = append(ts, vals.ToType(m["t"]))
		return nil
	}); err != nil {
		return err
	}
	w, err := nd.Create(*out)
	if err != nil {
		return err
	}
	defer w.Close()
	for i, a := range ts {
		ev := map[string]interface{}{"k": "type", "a": i + 1}
		if p := guard(func() {
			ev["refl"] = int(a.Is(a))
			ev["idem"] = octosql.TypeSum(a, a).Equals(a)
			ev["nn"] = vals.FromType(octosql.NonNullable(a))
		}); p != nil {
			ev["panic"] = fmt.Sprint(p)
			ev["refl"], ev["idem"], ev["nn"] = 0, false, vals.FromType(a)
		}
		w.Write(ev)
		for j, b := range ts {
			pe := map[string]interface{}{"k": "pair", "a": i + 1, "b": j + 1}
			if p := guard(func() {
				pe["is"] = int(a.Is(b))
				sum := octosql.TypeSum(a, b)
				pe["sum"] = vals.FromType(sum)
				pe["a_is_sum"] = int(a.Is(sum))
				pe["b_is_sum"] = int(b.Is(sum))
				pe["sum_comm"] = sum.Equals(octosql.TypeSum(b, a))
				inter := octosql.TypeIntersection(a, b)
				pe["inter_nil"] = inter == nil
				if inter != nil {
					pe["inter"] = vals.FromType(*inter)
					pe["inter_is_a"] = int(inter.Is(a))
					pe["inter_is_b"] = int(inter.Is(b))
				} else {
					pe["inter"] = vals.FromType(octosql.Null)
					pe["inter_is_a"], pe["inter_is_b"] = 2, 2
				}
			}); p != nil {
				pe["panic"] = fmt.Sprint(p)
				for _, k := range []string{"is", "a_is_sum", "b_is_sum", "inter_is_a", "inter_is_b"} {
					if _, ok := pe[k]; !ok {
						pe[k] = 0
					}
				}
				for _, k := range []string{"sum", "inter"} {
					if _, ok := pe[k]; !ok {
						pe[k] = vals.FromType(octosql.Null)
					}
				}
				for _, k := range []string{"sum_comm", "inter_nil"} {
					if _, ok := pe[k]; !ok {
						pe[k] = false
					}
				}
			}
			w.Write(pe)
		}
	}
	return nd.Read(*vin, func(m map[string]interface{}) error {
		v := vals.ToValue(m["v"])
		ev := map[string]interface{}{"k": "value", "v": vals.Int(m["id"])}
		if p := guard(func() {
			t := v.Type()
			ev["type"] = vals.FromType(t)
			ev["self_is"] = int(t.Is(t))
		}); p != nil {
			ev["panic"] = fmt.Sprint(p)
			ev["type"], ev["self_is"] = vals.FromType(octosql.Null), 0
		}
		w.Write(ev)
		return nil
	})
}
