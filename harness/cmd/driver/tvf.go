package main

import (
	"context"
	"errors"
	"fmt"
	"time"

	"github.com/cube2222/octosql/execution"
	"github.com/cube2222/octosql/octosql"
	"github.com/cube2222/octosql/outputs/stream"
	"github.com/cube2222/octosql/physical"
	tvf "github.com/cube2222/octosql/table_valued_functions"

	"verifharness/script"
	"verifharness/vals"
)

// srcImpl is a physical datasource whose materialisation is a given execution node (the scripted source).
type srcImpl struct{ node execution.Node }

func (s *srcImpl) Materialize(ctx context.Context, env physical.Environment, schema physical.Schema, pushedDownPredicates []physical.Expression) (execution.Node, error) {
	return s.node, nil
}
func (s *srcImpl) PushDownPredicates(newPredicates, pushedDownPredicates []physical.Expression) (rejected, pushedDown []physical.Expression, changed bool) {
	return newPredicates, nil, false
}

// tableArg wraps src as a TABLE(...) argument with the schema (t Time, n String, x Int), time field 0.
func tableArg(src execution.Node) physical.TableValuedFunctionArgument {
	fields := []physical.SchemaField{{Name: "t", Type: octosql.Time}, {Name: "n", Type: octosql.String}, {Name: "x", Type: octosql.TypeSum(octosql.Int, octosql.Null)}}
	node := physical.Node{
		Schema:   physical.NewSchema(fields, 0),
		NodeType: physical.NodeTypeDatasource,
		Datasource: &physical.Datasource{Name: "src", Alias: "src", DatasourceImplementation: &srcImpl{node: src},
			VariableMapping: map[string]string{"src.t": "t", "src.n": "n", "src.x": "x"}},
	}
	return physical.TableValuedFunctionArgument{TableValuedFunctionArgumentType: physical.TableValuedFunctionArgumentTypeTable,
		Table: &physical.TableValuedFunctionArgumentTable{Table: node}}
}

func constArg(v octosql.Value) physical.TableValuedFunctionArgument {
	return physical.TableValuedFunctionArgument{TableValuedFunctionArgumentType: physical.TableValuedFunctionArgumentTypeExpression,
		Expression: &physical.TableValuedFunctionArgumentExpression{Expression: physical.Expression{
			Type: v.Type(), ExpressionType: physical.ExpressionTypeConstant, Constant: &physical.Constant{Value: v}}}}
}

func varArg(name string) physical.TableValuedFunctionArgument {
	return physical.TableValuedFunctionArgument{TableValuedFunctionArgumentType: physical.TableValuedFunctionArgumentTypeExpression,
		Expression: &physical.TableValuedFunctionArgumentExpression{Expression: physical.Expression{
			Type: octosql.Int, ExpressionType: physical.ExpressionTypeVariable, Variable: &physical.Variable{Name: name, IsLevel0: true}}}}
}

func descArg(name string) physical.TableValuedFunctionArgument {
	return physical.TableValuedFunctionArgument{TableValuedFunctionArgumentType: physical.TableValuedFunctionArgumentTypeDescriptor,
		Descriptor: &physical.TableValuedFunctionArgumentDescriptor{Descriptor: name}}
}

var colNames = []string{"t", "n", "x"}

func secs(x interface{}) octosql.Value {
	return octosql.NewDuration(time.Duration(vals.Int(x)) * time.Second)
}

func init() {
	buildNode2 = func(cfg map[string]interface{}, src execution.Node) execution.Node {
		env := physical.Environment{VariableContext: nil}
		var node execution.Node
		var err error
		switch cfg["op"] {
		case "cout":
			return &stream.InternallyConsistentOutputStreamWrapper{Source: src}
		case "mdw":
			args := map[string]physical.TableValuedFunctionArgument{"source": tableArg(src), "max_diff": constArg(secs(cfg["maxdiff"])),
				"time_field": descArg(colNames[vals.Int(cfg["col"])-1]), "resolution": constArg(secs(cfg["res"]))}
			node, err = tvf.MaxDiffWatermark.Descriptors[0].Materialize(context.Background(), env, args)
		case "tumble":
			args := map[string]physical.TableValuedFunctionArgument{"source": tableArg(src), "window_length": constArg(secs(cfg["len"])),
				"time_field": descArg(colNames[vals.Int(cfg["col"])-1]), "offset": constArg(secs(cfg["off"]))}
			node, err = tvf.Tumble.Descriptors[0].Materialize(context.Background(), env, args)
		case "range":
			args := map[string]physical.TableValuedFunctionArgument{"start": constArg(octosql.NewInt(int64(vals.Int(cfg["start"])))),
				"end": constArg(octosql.NewInt(int64(vals.Int(cfg["end"]))))}
			if viavar, _ := cfg["viavar"].(bool); viavar {
				// range(a, b) with a, b taken from the outer record, as on the joined side of a LOOKUP JOIN
				env.VariableContext = &physical.VariableContext{Fields: []physical.SchemaField{{Name: "a", Type: octosql.Int}, {Name: "b", Type: octosql.Int}}}
				args = map[string]physical.TableValuedFunctionArgument{"start": varArg("a"), "end": varArg("b")}
			}
			node, err = tvf.Range.Descriptors[0].Materialize(context.Background(), env, args)
		default:
			return nil
		}
		if err != nil {
			panic(fmt.Sprintf("cannot materialize %v: %v", cfg["op"], err))
		}
		return node
	}
}

// roundsSource returns snapshot k on its k-th Run and an error after the last one (poll never stops by itself).
type roundsSource struct {
	rounds [][]script.Msg
	k      int
}

var errStopPoll = errors.New("verif: stop poll")

func (r *roundsSource) Run(ctx execution.ExecutionContext, produce execution.ProduceFn, metaSend execution.MetaSendFn) error {
	if r.k >= len(r.rounds) {
		return errStopPoll
	}
	rows := r.rounds[r.k]
	r.k++
	for _, m := range rows {
		if err := produce(execution.ProduceFromExecutionContext(ctx), vals.ToRecord(m)); err != nil {
			return err
		}
	}
	return nil
}

// runPoll runs the real poll node over scripted snapshots; wall-clock instants are renamed 1, 2, ... in order of
// first appearance (the statement talks about rounds, not about clock values).
func runPoll(cfg map[string]interface{}) (out []vals.V, errText string) {
	rl := cfg["rounds"].([]interface{})
	rs := &roundsSource{}
	for _, r := range rl {
		var rows []script.Msg
		for _, row := range r.([]interface{}) {
			rows = append(rows, script.Msg{"m": "rec", "v": row, "r": false, "t": 0})
		}
		rs.rounds = append(rs.rounds, rows)
	}
	args := map[string]physical.TableValuedFunctionArgument{"source": tableArg(rs), "poll_interval": constArg(octosql.NewDuration(time.Microsecond))}
	node, err := tvf.Poll.Descriptors[0].Materialize(context.Background(), physical.Environment{}, args)
	if err != nil {
		return nil, "materialize: " + err.Error()
	}
	ids := map[int64]int{}
	id := func(t time.Time) int {
		if t.IsZero() {
			return 0
		}
		k := t.UnixNano()
		if _, ok := ids[k]; !ok {
			ids[k] = len(ids) + 1
		}
		return ids[k]
	}
	func() {
		defer func() {
			if p := recover(); p != nil {
				errText = fmt.Sprintf("PANIC: %v", p)
			}
		}()
		err = node.Run(execution.ExecutionContext{Context: context.Background()}, func(ctx execution.ProduceContext, r execution.Record) error {
			vs := make([]interface{}, len(r.Values))
			for i, v := range r.Values {
				if v.TypeID == octosql.TypeIDTime {
					vs[i] = vals.V{"t": "time", "ts": id(v.Time)}
				} else {
					vs[i] = vals.FromValue(v)
				}
			}
			out = append(out, vals.V{"m": "rec", "v": vs, "r": r.Retraction, "t": id(r.EventTime)})
			return nil
		}, func(ctx execution.ProduceContext, m execution.MetadataMessage) error {
			out = append(out, vals.V{"m": "wm", "w": id(m.Watermark)})
			return nil
		})
	}()
	if err != nil && !errors.Is(err, errStopPoll) && errText == "" {
		if !containsStop(err) {
			errText = err.Error()
		}
	}
	return out, errText
}

func containsStop(err error) bool {
	for e := err; e != nil; e = errors.Unwrap(e) {
		if e == errStopPoll {
			return true
		}
	}
	return false
}
