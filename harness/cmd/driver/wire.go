package main

import (
	"flag"
	"fmt"

	"github.com/cube2222/octosql/execution"
	"github.com/cube2222/octosql/octosql"
	"github.com/cube2222/octosql/physical"
	"github.com/cube2222/octosql/plugins"

	"verifharness/nd"
	"verifharness/vals"
)

func init() { cmds["wire-roundtrip"] = wireRoundTrip }

func toFields(x interface{}) []physical.SchemaField {
	l, _ := x.([]interface{})
	out := make([]physical.SchemaField, len(l))
	for i := range l {
		p := l[i].([]interface{})
		out[i] = physical.SchemaField{Name: p[0].(string), Type: vals.ToType(p[1])}
	}
	return out
}

func fromFields(fs []physical.SchemaField) []interface{} {
	out := make([]interface{}, len(fs))
	for i, f := range fs {
		out[i] = []interface{}{f.Name, vals.FromType(f.Type)}
	}
	return out
}

// wire-roundtrip -in cases.ndjson -out results.ndjson : {"kind","x"} is encoded with the real plugin wire encoding (protobuf bytes), decoded again with
// the real decoder and returned in the same abstract vocabulary as "y".
func wireRoundTrip(args []string) error {
	fs := flag.NewFlagSet("wire-roundtrip", flag.ExitOnError)
	in := fs.String("in", "", "")
	out := fs.String("out", "", "")
	fs.Parse(args)
	w, err := nd.Create(*out)
	if err != nil {
		return err
	}
	defer w.Close()
	return nd.Read(*in, func(c map[string]interface{}) error {
		res := map[string]interface{}{"kind": c["kind"], "err": ""}
		x := c["x"].(map[string]interface{})
		func() {
			defer func() {
				if p := recover(); p != nil {
					res["err"] = "panic: " + fmt.Sprint(p)
				}
			}()
			var err error
			switch c["kind"] {
			case "value":
				var v octosql.Value
				v, err = plugins.VerifWireValue(vals.ToValue(x["v"]))
				res["y"] = map[string]interface{}{"v": vals.FromValue(v)}
			case "type":
				var t octosql.Type
				t, err = plugins.VerifWireType(vals.ToType(x["ty"]))
				res["y"] = map[string]interface{}{"ty": vals.FromType(t)}
			case "schema":
				var s physical.Schema
				s, err = plugins.VerifWireSchema(physical.Schema{Fields: toFields(x["fields"]), TimeField: vals.Int(x["time_field"]), NoRetractions: x["no_retractions"].(bool)})
				res["y"] = map[string]interface{}{"fields": fromFields(s.Fields), "time_field": s.TimeField, "no_retractions": s.NoRetractions}
			case "record":
				var r execution.Record
				r, err = plugins.VerifWireRecord(execution.Record{Values: vals.ToValues(x["values"]), Retraction: x["retraction"].(bool), EventTime: vals.TimeOf(vals.Int(x["time"]))})
				res["y"] = map[string]interface{}{"values": vals.FromValues(r.Values), "retraction": r.Retraction, "time": vals.AbsTime(r.EventTime)}
			case "watermark":
				var m execution.MetadataMessage
				m, err = plugins.VerifWireMetadataMessage(execution.MetadataMessage{Type: execution.MetadataMessageTypeWatermark, Watermark: vals.TimeOf(vals.Int(x["time"]))})
				res["y"] = map[string]interface{}{"time": vals.AbsTime(m.Watermark)}
				if m.Type != execution.MetadataMessageTypeWatermark {
					res["y"] = map[string]interface{}{"time": vals.AbsTime(m.Watermark), "type": int(m.Type)}
				}
			case "physctx":
				var ctx *physical.VariableContext
				frames := x["frames"].([]interface{})
				for i := len(frames) - 1; i >= 0; i-- {
					ctx = &physical.VariableContext{Fields: toFields(frames[i]), Parent: ctx}
				}
				ctx, err = plugins.VerifWirePhysicalVariableContext(ctx)
				got := []interface{}{}
				for ; ctx != nil; ctx = ctx.Parent {
					got = append(got, fromFields(ctx.Fields))
				}
				res["y"] = map[string]interface{}{"frames": got}
			case "execctx":
				var ctx *execution.VariableContext
				frames := x["frames"].([]interface{})
				for i := len(frames) - 1; i >= 0; i-- {
					ctx = &execution.VariableContext{Values: vals.ToValues(frames[i]), Parent: ctx}
				}
				ctx, err = plugins.VerifWireExecutionVariableContext(ctx)
				got := []interface{}{}
				for ; ctx != nil; ctx = ctx.Parent {
					got = append(got, vals.FromValues(ctx.Values))
				}
				res["y"] = map[string]interface{}{"frames": got}
			default:
				err = fmt.Errorf("unknown kind %v", c["kind"])
			}
			if err != nil {
				res["err"] = err.Error()
			}
		}()
		w.Write(res)
		return nil
	})
}
