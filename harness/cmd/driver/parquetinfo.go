package main

import (
	"fmt"
	"os"

	"github.com/segmentio/parquet-go"
)

func init() {
	cmds["parquet-info"] = func(args []string) error {
		f, err := os.Open(args[0])
		if err != nil {
			return err
		}
		st, _ := f.Stat()
		pf, err := parquet.OpenFile(f, st.Size())
		if err != nil {
			return err
		}
		fmt.Println("rows", pf.NumRows())
		fmt.Println(pf.Schema())
		return nil
	}
}
