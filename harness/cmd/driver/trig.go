package main

import (
	"flag"
	"fmt"
	"math/rand"

	"github.com/cube2222/octosql/execution"

	"verifharness/nd"
	"verifharness/vals"
)

func init() { cmds["trig-run"] = trigRun }

// newTrigger builds the real trigger objects for an abstract configuration [{"k":"count","n":2},{"k":"wm"},...].
func newTriggerPrototype(cfg []interface{}, timeIdx int) func() execution.Trigger {
	protos := make([]func() execution.Trigger, len(cfg))
	for i := range cfg {
		c := cfg[i].(map[string]interface{})
		switch c["k"] {
		case "count":
			protos[i] = execution.NewCountingTriggerPrototype(uint(vals.Int(c["n"])))
		case "wm":
			protos[i] = execution.NewWatermarkTriggerPrototype(timeIdx)
		case "eos":
			protos[i] = execution.NewEndOfStreamTriggerPrototype()
		default:
			panic(fmt.Sprintf("bad trigger cfg %v", c))
		}
	}
	if len(protos) == 1 {
		return protos[0]
	}
	return execution.NewMultiTriggerPrototype(protos)
}

func polledOf(t execution.Trigger) (out []interface{}, p interface{}) {
	defer func() { p = recover() }()
	keys := t.Poll()
	out = make([]interface{}, len(keys))
	for i := range keys {
		out[i] = vals.FromValues(keys[i])
	}
	return out, nil
}

func runTriggerHistory(w *nd.Writer, cfg []interface{}, h []interface{}) {
	w.Write(map[string]interface{}{"ev": "new", "cfg": cfg})
	t := newTriggerPrototype(cfg, 0)()
	for _, x := range h {
		e := x.(map[string]interface{})
		ev := map[string]interface{}{}
		func() {
			defer func() {
				if p := recover(); p != nil {
					ev["panic"] = fmt.Sprint(p)
				}
			}()
			switch e["e"] {
			case "key":
				t.KeyReceived(execution.GroupKey(vals.ToValues(e["key"])))
				ev["ev"], ev["key"] = "key", e["key"]
			case "wm":
				t.WatermarkReceived(vals.TimeOf(vals.Int(e["w"])))
				ev["ev"], ev["w"] = "wm", e["w"]
			case "eos":
				t.EndOfStreamReached()
				ev["ev"] = "eos"
			}
		}()
		polled, p := polledOf(t)
		if p != nil {
			ev["panic"] = fmt.Sprint(p)
			polled = []interface{}{}
		}
		ev["polled"] = polled
		w.Write(ev)
	}
}

// trig-run -in hists.ndjson -out trace.ndjson [-random N -len L -seed S]
func trigRun(args []string) error {
	fs := flag.NewFlagSet("trig-run", flag.ExitOnError)
	in := fs.String("in", "", "")
	out := fs.String("out", "", "")
	random := fs.Int("random", 0, "")
	maxLen := fs.Int("len", 40, "")
	seed := fs.Int64("seed", 1, "")
	fs.Parse(args)
	w, err := nd.Create(*out)
	if err != nil {
		return err
	}
	defer w.Close()
	if *in != "" {
		if err := nd.Read(*in, func(c map[string]interface{}) error {
			runTriggerHistory(w, c["cfg"].([]interface{}), c["h"].([]interface{}))
			return nil
		}); err != nil {
			return err
		}
	}
	rng := rand.New(rand.NewSource(*seed))
	for i := 0; i < *random; i++ {
		// random configuration and history: keys over times 1..4 x names a..c, monotone watermarks
		var cfg []interface{}
		kinds := rng.Perm(3)[:1+rng.Intn(3)]
		for _, k := range kinds {
			switch k {
			case 0:
				cfg = append(cfg, map[string]interface{}{"k": "count", "n": 1 + rng.Intn(4)})
			case 1:
				cfg = append(cfg, map[string]interface{}{"k": "wm"})
			case 2:
				cfg = append(cfg, map[string]interface{}{"k": "eos"})
			}
		}
		L := 1 + rng.Intn(*maxLen)
		wm := 0
		var h []interface{}
		for j := 0; j < L; j++ {
			if rng.Intn(5) == 0 && wm < 4 {
				wm += 1 + rng.Intn(4-wm)
				h = append(h, map[string]interface{}{"e": "wm", "w": wm})
			} else {
				key := []interface{}{map[string]interface{}{"t": "time", "ts": 1 + rng.Intn(4)}, map[string]interface{}{"t": "str", "s": string(rune('a' + rng.Intn(3)))}}
				h = append(h, map[string]interface{}{"e": "key", "key": key})
			}
		}
		if rng.Intn(4) != 0 {
			h = append(h, map[string]interface{}{"e": "eos"})
		}
		runTriggerHistory(w, cfg, h)
	}
	return nil
}
