package main

import (
	"context"
	"flag"
	"fmt"
	"math/rand"
	"sync"
	"time"

	"github.com/cube2222/octosql/execution"
	"github.com/cube2222/octosql/execution/nodes"
	"github.com/cube2222/octosql/verifhook"

	"verifharness/nd"
	"verifharness/script"
	"verifharness/vals"
)

func init() { cmds["join-run"] = joinRun }

// joinObs is the single-goroutine log of one join run: the hook (consumption) and the produce/metaSend callbacks
// (emission) are all called in the join goroutine, so this is the join's own program order.
type joinObs struct {
	mu     sync.Mutex
	events []map[string]interface{}
	cur    map[string]interface{}
	next   [2]int // next unconsumed script index per side
	script [2][]script.Msg
	ack    chan struct{}
}

var sideName = []string{"L", "R"}

func (o *joinObs) hook(side int, ok, metadata, isErr bool) {
	o.mu.Lock()
	ev := map[string]interface{}{"side": sideName[side], "out": []vals.V{}}
	if !ok {
		ev["ev"] = "close"
	} else if isErr {
		ev["ev"] = "err"
	} else {
		ev["ev"] = "recv"
		i := o.next[side]
		if i < len(o.script[side]) {
			ev["msg"] = o.script[side][i]
		} else {
			ev["msg"] = map[string]interface{}{"m": "unknown"}
		}
		o.next[side]++
	}
	o.events = append(o.events, ev)
	o.cur = ev
	o.mu.Unlock()
	if o.ack != nil {
		o.ack <- struct{}{}
	}
}

func (o *joinObs) emit(m vals.V) {
	o.mu.Lock()
	if o.cur == nil {
		o.cur = map[string]interface{}{"ev": "pre", "out": []vals.V{}}
		o.events = append(o.events, o.cur)
	}
	o.cur["out"] = append(o.cur["out"].([]vals.V), m)
	o.mu.Unlock()
}

// gatedSource delivers its messages one at a time, each after a token from the scheduler; gate == nil: free running.
type gatedSource struct {
	msgs []script.Msg
	gate chan struct{}
}

func (g *gatedSource) Run(ctx execution.ExecutionContext, produce execution.ProduceFn, metaSend execution.MetaSendFn) error {
	src := &script.Source{Msgs: g.msgs}
	if g.gate != nil {
		src.OnStep = func(i int) { <-g.gate } // i = len(msgs): the token that lets the source return (channel close)
	}
	return src.Run(ctx, produce, metaSend)
}

func buildJoin(cfg map[string]interface{}, l, r execution.Node) execution.Node {
	lk, rk := varExprs(cols(cfg["lkey"])), varExprs(cols(cfg["rkey"]))
	kind, _ := cfg["kind"].(string)
	if kind == "inner" {
		return nodes.NewStreamJoin(l, r, lk, rk)
	}
	return nodes.NewOuterJoin(l, r, vals.Int(cfg["lw"]), vals.Int(cfg["rw"]), lk, rk, kind == "left" || kind == "full", kind == "right" || kind == "full")
}

var hookMu sync.Mutex
var hookTargets = map[interface{}]*joinObs{}

func init() {
	verifhook.JoinRecvFn = func(join interface{}, side int, ok, metadata, isErr bool) {
		hookMu.Lock()
		o := hookTargets[join]
		hookMu.Unlock()
		if o != nil {
			o.hook(side, ok, metadata, isErr)
		}
	}
}

// runJoin runs one join over the two scripts. sched == nil: free scheduling; otherwise a sequence of "L"/"R", one
// entry per action (message or close), enforced with the gates.  Returns the events and a diagnostic.
func runJoin(cfg map[string]interface{}, L, R []script.Msg, sched []string) ([]map[string]interface{}, string) {
	o := &joinObs{}
	o.script[0], o.script[1] = L, R
	ls, rs := &gatedSource{msgs: L}, &gatedSource{msgs: R}
	if sched != nil {
		ls.gate, rs.gate = make(chan struct{}, 1), make(chan struct{}, 1)
		o.ack = make(chan struct{}, 4)
	}
	join := buildJoin(cfg, ls, rs)
	hookMu.Lock()
	hookTargets[join] = o
	hookMu.Unlock()
	defer func() {
		hookMu.Lock()
		delete(hookTargets, join)
		hookMu.Unlock()
	}()
	done := make(chan error, 1)
	go func() {
		var err error
		defer func() {
			if p := recover(); p != nil {
				err = fmt.Errorf("PANIC: %v", p)
			}
			done <- err
		}()
		err = join.Run(execution.ExecutionContext{Context: context.Background()},
			func(ctx execution.ProduceContext, r execution.Record) error { o.emit(vals.FromRecord(r)); return nil },
			func(ctx execution.ProduceContext, m execution.MetadataMessage) error { o.emit(vals.Wm(m.Watermark)); return nil })
	}()
	diag := ""
	if sched != nil {
		for i, s := range sched {
			g := ls.gate
			if s == "R" {
				g = rs.gate
			}
			g <- struct{}{}
			select {
			case <-o.ack:
			case err := <-done:
				done <- err
				select {
				case <-o.ack: // the acknowledgement of this step raced with the join's return: fine
				default:
					diag = fmt.Sprintf("join returned before schedule step %d", i)
				}
			case <-time.After(10 * time.Second):
				return o.events, fmt.Sprintf("DEAD: no consumption acknowledged for schedule step %d (%s)", i, s)
			}
			if diag != "" {
				break
			}
		}
	}
	select {
	case err := <-done:
		if err != nil {
			diag = "ERR: " + err.Error()
		}
	case <-time.After(20 * time.Second):
		return o.events, "DEAD: join did not terminate"
	}
	return o.events, diag
}

func allSchedules(n, m int) [][]string {
	// all interleavings of n+1 L-actions and m+1 R-actions (messages then close per side)
	var out [][]string
	var rec func(a, b int, cur []string)
	rec = func(a, b int, cur []string) {
		if a == 0 && b == 0 {
			out = append(out, append([]string{}, cur...))
			return
		}
		if a > 0 {
			rec(a-1, b, append(cur, "L"))
		}
		if b > 0 {
			rec(a, b-1, append(cur, "R"))
		}
	}
	rec(n+1, m+1, nil)
	return out
}

// join-run -in pairs.ndjson -out trace.ndjson -mode all|sample|free [-k schedules per pair] [-reps free runs per pair]
func joinRun(args []string) error {
	fs := flag.NewFlagSet("join-run", flag.ExitOnError)
	in := fs.String("in", "", "")
	out := fs.String("out", "", "")
	mode := fs.String("mode", "all", "")
	k := fs.Int("k", 4, "")
	reps := fs.Int("reps", 3, "")
	seed := fs.Int64("seed", 1, "")
	fs.Parse(args)
	rng := rand.New(rand.NewSource(*seed))
	w, err := nd.Create(*out)
	if err != nil {
		return err
	}
	defer w.Close()
	nruns, ndead := 0, 0
	emit := func(cfg map[string]interface{}, evs []map[string]interface{}, diag string, sched []string) {
		hdr := map[string]interface{}{"ev": "new", "cfg": cfg}
		if sched != nil {
			hdr["sched"] = sched
		}
		if diag != "" {
			hdr["diag"] = diag
		}
		w.Write(hdr)
		for _, e := range evs {
			w.Write(e)
		}
		nruns++
		if len(diag) > 4 && diag[:4] == "DEAD" {
			ndead++
		}
	}
	err = nd.Read(*in, func(c map[string]interface{}) error {
		cfg := c["cfg"].(map[string]interface{})
		L, R := toMsgs(c["L"]), toMsgs(c["R"])
		switch *mode {
		case "free":
			for i := 0; i < *reps; i++ {
				evs, diag := runJoin(cfg, L, R, nil)
				emit(cfg, evs, diag, nil)
			}
		default:
			scheds := allSchedules(len(L), len(R))
			if *mode == "sample" && len(scheds) > *k {
				rng.Shuffle(len(scheds), func(i, j int) { scheds[i], scheds[j] = scheds[j], scheds[i] })
				scheds = scheds[:*k]
			}
			for _, s := range scheds {
				evs, diag := runJoin(cfg, L, R, s)
				emit(cfg, evs, diag, s)
			}
		}
		return nil
	})
	if err != nil {
		return err
	}
	w.Write(map[string]interface{}{"ev": "summary", "runs": nruns, "dead": ndead})
	return nil
}
