package main

import (
	"bytes"
	"encoding/json"
	"flag"
	"fmt"
	"os"
	"os/exec"
	"runtime"
	"strings"
	"sync"

	"github.com/cube2222/octosql/execution"

	"github.com/cube2222/octosql/octosql"
	"github.com/cube2222/octosql/physical"

	"verifharness/engine"
	"verifharness/nd"
	"verifharness/vals"
)

func init() { cmds["sql-run"] = sqlRun }

func toTables(x interface{}) map[string]*engine.Table {
	out := map[string]*engine.Table{}
	m, _ := x.(map[string]interface{})
	for name, tx := range m {
		t := tx.(map[string]interface{})
		tab := &engine.Table{TimeField: -1}
		for _, f := range t["fields"].([]interface{}) {
			p := f.([]interface{})
			tab.Fields = append(tab.Fields, physical.SchemaField{Name: p[0].(string), Type: vals.ToType(p[1])})
		}
		if rows, ok := t["rows"].([]interface{}); ok {
			for _, r := range rows {
				tab.Rows = append(tab.Rows, vals.ToValues(r))
			}
		}
		if rp, ok := t["repeat"]; ok {
			// the listed rows repeated k times (long inputs: faults beyond the engine's internal buffers)
			base := tab.Rows
			for k := 1; k < vals.Int(rp); k++ {
				tab.Rows = append(tab.Rows, base...)
			}
		}
		if ps, ok := t["push"].(string); ok {
			tab.Push = ps
		}
		if fa, ok := t["fail_at"]; ok {
			// the source produces rows 1..fail_at-1 and then returns an error (a read error / malformed row in a real datasource)
			p := vals.Int(fa)
			rows := tab.Rows
			tab.Source = func(cols []int) execution.Node { return &failingNode{rows: rows, cols: cols, failAt: p} }
		}
		out[name] = tab
	}
	return out
}

func resultJSON(id interface{}, r engine.Result) map[string]interface{} {
	fields := make([]interface{}, len(r.Fields))
	for i, f := range r.Fields {
		fields[i] = []interface{}{f.Name, vals.FromType(f.Type)}
	}
	rows := make([]interface{}, len(r.Records))
	for i, rec := range r.Records {
		rows[i] = map[string]interface{}{"v": vals.FromValues(rec.Values), "r": rec.Retraction}
	}
	return map[string]interface{}{"id": id, "stage": r.Stage, "err": r.Err, "fields": fields, "rows": rows, "schema_diff": r.SchemaDiff}
}

var _ = octosql.Null

type failingNode struct {
	rows   [][]octosql.Value
	cols   []int
	failAt int
}

func (n *failingNode) Run(ctx execution.ExecutionContext, produce execution.ProduceFn, metaSend execution.MetaSendFn) error {
	for i, r := range n.rows {
		if i+1 == n.failAt {
			return fmt.Errorf("verif: injected read error at row %d", n.failAt)
		}
		vs := make([]octosql.Value, len(n.cols))
		for j, c := range n.cols {
			vs[j] = r[c]
		}
		if err := produce(execution.ProduceFromExecutionContext(ctx), execution.NewRecord(vs, false, execution.Record{}.EventTime)); err != nil {
			return err
		}
	}
	if n.failAt > len(n.rows) && n.failAt <= len(n.rows)+1 {
		return nil // fail_at beyond the input: no fault
	}
	return nil
}

// sql-run -in cases.ndjson -out results.ndjson : {"id","tables":{name:{"fields":[[n,T]],"rows":[[v]]}},"sql","optimize"}
func sqlRun(args []string) error {
	fs := flag.NewFlagSet("sql-run", flag.ExitOnError)
	in := fs.String("in", "", "")
	out := fs.String("out", "", "")
	isolate := fs.Bool("isolate", false, "run every case in its own process (a panic in a goroutine of the engine kills the process)")
	one := fs.Bool("one", false, "read one case from stdin, write its result to stdout")
	fs.Parse(args)
	if *one {
		var c map[string]interface{}
		if err := json.NewDecoder(os.Stdin).Decode(&c); err != nil {
			return err
		}
		opt := true
		if o, ok := c["optimize"].(bool); ok {
			opt = o
		}
		return json.NewEncoder(os.Stdout).Encode(resultJSON(c["id"], engine.Run(c["sql"].(string), toTables(c["tables"]), opt)))
	}
	var cases []map[string]interface{}
	if err := nd.Read(*in, func(m map[string]interface{}) error { cases = append(cases, m); return nil }); err != nil {
		return err
	}
	results := make([]map[string]interface{}, len(cases))
	var wg sync.WaitGroup
	sem := make(chan struct{}, runtime.NumCPU())
	var shared map[string]*engine.Table
	var lastTablesJSON interface{}
	for i, c := range cases {
		if c["tables"] != nil {
			shared = toTables(c["tables"]) // a case without "tables" reuses the previous case's tables
		}
		tabs := shared
		wg.Add(1)
		sem <- struct{}{}
		if *isolate {
			if c["tables"] == nil {
				c["tables"] = lastTablesJSON
			} else {
				lastTablesJSON = c["tables"]
			}
			go func(i int, c map[string]interface{}) {
				defer wg.Done()
				defer func() { <-sem }()
				b, _ := json.Marshal(c)
				cmd := exec.Command(os.Args[0], "sql-run", "-one")
				cmd.Stdin = bytes.NewReader(b)
				var so, se bytes.Buffer
				cmd.Stdout, cmd.Stderr = &so, &se
				err := cmd.Run()
				var r map[string]interface{}
				if err == nil && json.Unmarshal(so.Bytes(), &r) == nil {
					results[i] = r
					return
				}
				msg := se.String()
				if k := strings.Index(msg, "panic:"); k >= 0 {
					msg = msg[k:]
				}
				if len(msg) > 600 {
					msg = msg[:600]
				}
				results[i] = map[string]interface{}{"id": c["id"], "stage": "panic", "err": "process died: " + msg, "fields": []interface{}{}, "rows": []interface{}{}}
			}(i, c)
			continue
		}
		go func(i int, c map[string]interface{}, tabs map[string]*engine.Table) {
			defer wg.Done()
			defer func() { <-sem }()
			opt := true
			if o, ok := c["optimize"].(bool); ok {
				opt = o
			}
			r := engine.Run(c["sql"].(string), tabs, opt)
			n := len(r.Records)
			if cnt, ok := c["count_only"].(bool); ok && cnt {
				r.Records = nil // long inputs: report the number of rows only
			}
			var bag []interface{}
			if b, ok := c["bag"].(bool); ok && b {
				// long inputs: report every distinct row once with its net multiplicity (additions minus retractions)
				counts := map[string]int{}
				reps := map[string]interface{}{}
				var order []string
				for _, rec := range r.Records {
					v := vals.FromValues(rec.Values)
					kb, _ := json.Marshal(v)
					k := string(kb)
					if _, seen := counts[k]; !seen {
						order = append(order, k)
						reps[k] = v
					}
					if rec.Retraction {
						counts[k]--
					} else {
						counts[k]++
					}
				}
				for _, k := range order {
					bag = append(bag, map[string]interface{}{"v": reps[k], "n": counts[k]})
				}
				r.Records = nil
			}
			results[i] = resultJSON(c["id"], r)
			results[i]["nrows"] = n
			if bag != nil {
				results[i]["bag"] = bag
			}
		}(i, c, tabs)
	}
	wg.Wait()
	w, err := nd.Create(*out)
	if err != nil {
		return err
	}
	defer w.Close()
	for _, r := range results {
		w.Write(r)
	}
	return nil
}
