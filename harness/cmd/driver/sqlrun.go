package main

import (
	"flag"
	"runtime"
	"sync"

	"github.com/cube2222/octosql/octosql"
	"github.com/cube2222/octosql/physical"

	"verifharness/engine"
	"verifharness/nd"
	"verifharness/vals"
)

func init() { cmds["sql-run"] = sqlRun }

func toTables(x interface{}) map[string]*engine.Table {
	out := map[string]*engine.Table{}
	m, _ := x.(map[string]interface{})
	for name, tx := range m {
		t := tx.(map[string]interface{})
		tab := &engine.Table{TimeField: -1}
		for _, f := range t["fields"].([]interface{}) {
			p := f.([]interface{})
			tab.Fields = append(tab.Fields, physical.SchemaField{Name: p[0].(string), Type: vals.ToType(p[1])})
		}
		if rows, ok := t["rows"].([]interface{}); ok {
			for _, r := range rows {
				tab.Rows = append(tab.Rows, vals.ToValues(r))
			}
		}
		out[name] = tab
	}
	return out
}

func resultJSON(id interface{}, r engine.Result) map[string]interface{} {
	fields := make([]interface{}, len(r.Fields))
	for i, f := range r.Fields {
		fields[i] = []interface{}{f.Name, vals.FromType(f.Type)}
	}
	rows := make([]interface{}, len(r.Records))
	for i, rec := range r.Records {
		rows[i] = map[string]interface{}{"v": vals.FromValues(rec.Values), "r": rec.Retraction}
	}
	return map[string]interface{}{"id": id, "stage": r.Stage, "err": r.Err, "fields": fields, "rows": rows}
}

var _ = octosql.Null

// sql-run -in cases.ndjson -out results.ndjson : {"id","tables":{name:{"fields":[[n,T]],"rows":[[v]]}},"sql","optimize"}
func sqlRun(args []string) error {
	fs := flag.NewFlagSet("sql-run", flag.ExitOnError)
	in := fs.String("in", "", "")
	out := fs.String("out", "", "")
	fs.Parse(args)
	var cases []map[string]interface{}
	if err := nd.Read(*in, func(m map[string]interface{}) error { cases = append(cases, m); return nil }); err != nil {
		return err
	}
	results := make([]map[string]interface{}, len(cases))
	var wg sync.WaitGroup
	sem := make(chan struct{}, runtime.NumCPU())
	var shared map[string]*engine.Table
	for i, c := range cases {
		if c["tables"] != nil {
			shared = toTables(c["tables"]) // a case without "tables" reuses the previous case's tables
		}
		tabs := shared
		wg.Add(1)
		sem <- struct{}{}
		go func(i int, c map[string]interface{}, tabs map[string]*engine.Table) {
			defer wg.Done()
			defer func() { <-sem }()
			opt := true
			if o, ok := c["optimize"].(bool); ok {
				opt = o
			}
			results[i] = resultJSON(c["id"], engine.Run(c["sql"].(string), tabs, opt))
		}(i, c, tabs)
	}
	wg.Wait()
	w, err := nd.Create(*out)
	if err != nil {
		return err
	}
	defer w.Close()
	for _, r := range results {
		w.Write(r)
	}
	return nil
}
