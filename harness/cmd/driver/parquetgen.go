package main

import (
	"flag"
	"fmt"
	"math/rand"
	"os"
	"path/filepath"

	"github.com/segmentio/parquet-go"

	"github.com/cube2222/octosql/octosql"

	"verifharness/nd"
	"verifharness/vals"
)

func init() { cmds["parquet-gen"] = parquetGen }

// The shapes written: required / optional scalars of every kind octosql maps, repeated scalars, a required and an optional nested group, a repeated group.
type pqInner struct {
	X int64   `parquet:"x"`
	Y *string `parquet:"y,optional"`
}

type pqFlat struct {
	A   int64    `parquet:"a"`
	B   *int64   `parquet:"b,optional"`
	S   string   `parquet:"s"`
	T   *string  `parquet:"t,optional"`
	F   float64  `parquet:"f"`
	G   *float64 `parquet:"g,optional"`
	Ok  bool     `parquet:"ok"`
	I32 int32    `parquet:"i32"`
}

type pqNested struct {
	ID int64     `parquet:"id"`
	L  []int64   `parquet:"l"`
	Ls []string  `parquet:"ls"`
	O  pqInner   `parquet:"o"`
	P  *pqInner  `parquet:"p,optional"`
	Lo []pqInner `parquet:"lo"`
	Z  string    `parquet:"z"`
}

func vInt(n int64) vals.V  { return vals.FromValue(octosql.NewInt(n)) }
func vStr(s string) vals.V { return vals.V{"t": "str", "s": s} }
func vNull() vals.V        { return vals.V{"t": "null"} }
func vList(l []interface{}) vals.V {
	if l == nil {
		l = []interface{}{}
	}
	return vals.V{"t": "list", "l": l}
}
func vObj(l []interface{}) vals.V { return vals.V{"t": "obj", "o": l} }

func innerV(in pqInner) vals.V {
	y := vNull()
	if in.Y != nil {
		y = vStr(*in.Y)
	}
	return vObj([]interface{}{vInt(in.X), y})
}

var pqStrings = []string{"", "a", "b c", "é", "x\ny", "long string long string long string"}

func randInner(r *rand.Rand) pqInner {
	in := pqInner{X: int64(r.Intn(5))}
	if r.Intn(2) == 0 {
		s := pqStrings[r.Intn(len(pqStrings))]
		in.Y = &s
	}
	return in
}

// The struct-based writer of the vendored parquet fork decomposes no values (Schema.Deconstruct returns an empty row), so rows are written column value by
// column value with explicit repetition / definition levels (Dremel encoding) - which also makes the written levels independent of the code under test.
// parquet-gen -dir DIR -out cases.ndjson -n N -rows R -seed S : writes N parquet files (alternating a flat and a nested shape) of up to R random rows and
// lists, per file, the column names and the rows that were written, in the abstract value vocabulary.
func parquetGen(args []string) error {
	fs := flag.NewFlagSet("parquet-gen", flag.ExitOnError)
	dir := fs.String("dir", "", "")
	out := fs.String("out", "", "")
	n := fs.Int("n", 10, "")
	maxRows := fs.Int("rows", 50, "")
	seed := fs.Int64("seed", 1, "")
	fs.Parse(args)
	w, err := nd.Create(*out)
	if err != nil {
		return err
	}
	defer w.Close()
	r := rand.New(rand.NewSource(*seed))
	fl := func(x float64) vals.V {
		return vals.FromValue(vals.ToValue(vals.V{"t": "float", "lit": fmt.Sprint(x)}))
	}
	for k := 0; k < *n; k++ {
		path := filepath.Join(*dir, fmt.Sprintf("p%d.parquet", k))
		f, err := os.Create(path)
		if err != nil {
			return err
		}
		nrows := 1 + r.Intn(*maxRows)
		if k < 2 {
			nrows = 1
		}
		rows := []interface{}{}
		var cols []string
		// column order of a row = depth-first order of the leaves of the schema
		write := func(pw *parquet.Writer, leaves []parquet.Value) error {
			row := make(parquet.Row, len(leaves))
			for i, v := range leaves {
				row[i] = v.Level(v.RepetitionLevel(), v.DefinitionLevel(), i)
			}
			return pw.WriteRow(row)
		}
		null := func(rep, def int) parquet.Value { return parquet.Value{}.Level(rep, def, 0) }
		val := func(v interface{}, rep, def int) parquet.Value { return parquet.ValueOf(v).Level(rep, def, 0) }
		if k%2 == 0 {
			cols = []string{"a", "b", "s", "t", "f", "g", "ok", "i32"}
			pw := parquet.NewWriter(f, parquet.SchemaOf(pqFlat{}))
			for i := 0; i < nrows; i++ {
				a, s, fv, ok, i32 := r.Int63()-r.Int63(), pqStrings[r.Intn(len(pqStrings))], float64(r.Intn(1000))/8, r.Intn(2) == 0, int32(r.Intn(1000)-500)
				leaves := []parquet.Value{val(a, 0, 0)}
				b, t, g := vNull(), vNull(), vNull()
				if r.Intn(3) > 0 {
					x := int64(r.Intn(100))
					leaves = append(leaves, val(x, 0, 1))
					b = vInt(x)
				} else {
					leaves = append(leaves, null(0, 0))
				}
				leaves = append(leaves, val(s, 0, 0))
				if r.Intn(3) > 0 {
					x := pqStrings[r.Intn(len(pqStrings))]
					leaves = append(leaves, val(x, 0, 1))
					t = vStr(x)
				} else {
					leaves = append(leaves, null(0, 0))
				}
				leaves = append(leaves, val(fv, 0, 0))
				if r.Intn(3) > 0 {
					x := float64(r.Intn(64)) / 4
					leaves = append(leaves, val(x, 0, 1))
					g = fl(x)
				} else {
					leaves = append(leaves, null(0, 0))
				}
				leaves = append(leaves, val(ok, 0, 0), val(i32, 0, 0))
				if err := write(pw, leaves); err != nil {
					return err
				}
				rows = append(rows, []interface{}{vInt(a), b, vStr(s), t, fl(fv), g, vals.V{"t": "bool", "b": ok}, vInt(int64(i32))})
			}
			if err := pw.Close(); err != nil {
				return err
			}
		} else {
			// id | l (repeated) | ls (repeated) | o.x o.y | p.x p.y (p optional) | lo.x lo.y (lo repeated) | z
			cols = []string{"id", "l", "ls", "o", "p", "lo", "z"}
			pw := parquet.NewWriter(f, parquet.SchemaOf(pqNested{}))
			for i := 0; i < nrows; i++ {
				var lvals, lsvals, lox, loy []parquet.Value
				l, ls, lo := []interface{}{}, []interface{}{}, []interface{}{}
				for j, m := 0, r.Intn(4); j < m; j++ {
					x := int64(r.Intn(9))
					rep := 1
					if j == 0 {
						rep = 0
					}
					lvals = append(lvals, val(x, rep, 1))
					l = append(l, vInt(x))
				}
				if len(lvals) == 0 {
					lvals = []parquet.Value{null(0, 0)}
				}
				for j, m := 0, r.Intn(3); j < m; j++ {
					x := pqStrings[r.Intn(len(pqStrings))]
					rep := 1
					if j == 0 {
						rep = 0
					}
					lsvals = append(lsvals, val(x, rep, 1))
					ls = append(ls, vStr(x))
				}
				if len(lsvals) == 0 {
					lsvals = []parquet.Value{null(0, 0)}
				}
				o := randInner(r)
				oy := null(0, 0)
				if o.Y != nil {
					oy = val(*o.Y, 0, 1)
				}
				p := vNull()
				px, py := null(0, 0), null(0, 0)
				if r.Intn(2) == 0 {
					in := randInner(r)
					p = innerV(in)
					px, py = val(in.X, 0, 1), null(0, 1)
					if in.Y != nil {
						py = val(*in.Y, 0, 2)
					}
				}
				for j, m := 0, r.Intn(3); j < m; j++ {
					in := randInner(r)
					rep := 1
					if j == 0 {
						rep = 0
					}
					lox = append(lox, val(in.X, rep, 1))
					if in.Y != nil {
						loy = append(loy, val(*in.Y, rep, 2))
					} else {
						loy = append(loy, null(rep, 1))
					}
					lo = append(lo, innerV(in))
				}
				if len(lox) == 0 {
					lox, loy = []parquet.Value{null(0, 0)}, []parquet.Value{null(0, 0)}
				}
				z := pqStrings[r.Intn(len(pqStrings))]
				// one parquet row = for every leaf column its values (several for repeated ones), columns in schema order
				row := parquet.Row{}
				colsVals := [][]parquet.Value{{val(int64(i), 0, 0)}, lvals, lsvals, {val(o.X, 0, 0)}, {oy}, {px}, {py}, lox, loy, {val(z, 0, 0)}}
				for c, vs := range colsVals {
					for _, v := range vs {
						row = append(row, v.Level(v.RepetitionLevel(), v.DefinitionLevel(), c))
					}
				}
				if err := pw.WriteRow(row); err != nil {
					return err
				}
				rows = append(rows, []interface{}{vInt(int64(i)), vList(l), vList(ls), innerV(o), p, vList(lo), vStr(z)})
			}
			if err := pw.Close(); err != nil {
				return err
			}
		}
		if err := f.Close(); err != nil {
			return err
		}
		w.Write(map[string]interface{}{"id": k, "path": path, "cols": cols, "rows": rows, "shape": map[bool]string{true: "flat", false: "nested"}[k%2 == 0]})
	}
	return nil
}
