package main

import (
	"context"
	"errors"
	"flag"
	"fmt"
	"os"
	"time"

	"github.com/Masterminds/semver"
	"gopkg.in/yaml.v3"

	"github.com/cube2222/octosql/config"
	"github.com/cube2222/octosql/execution"
	"github.com/cube2222/octosql/logs"
	"github.com/cube2222/octosql/physical"
	"github.com/cube2222/octosql/plugins/executor"
	"github.com/cube2222/octosql/plugins/manager"

	"verifharness/nd"
	"verifharness/vals"
)

func init() { cmds["plugin-stream"] = pluginStream }

var errStop = errors.New("verif: client stops here")

// plugin-stream -in cases.ndjson -out results.ndjson -plugindir DIR : for each {"id","tables":path,"table":name,"take":k} starts the test plugin through the
// real executor.PluginExecutor (a separate process, gRPC over unix sockets), materialises the table and runs it, recording what the client-side
// callbacks received, in order, and how the run ended.  take >= 0: the client's produce callback fails after k records (an early stop such as LIMIT).
func pluginStream(args []string) error {
	fs := flag.NewFlagSet("plugin-stream", flag.ExitOnError)
	in := fs.String("in", "", "")
	out := fs.String("out", "", "")
	dir := fs.String("plugindir", "", "")
	fs.Parse(args)
	os.Setenv("OCTOSQL_PLUGIN_DIR", *dir)
	if logs.Output == nil { // cmd/root.go opens the log file the plugin's output is copied to
		f, err := os.CreateTemp("", "verif-plugin-log-")
		if err != nil {
			return err
		}
		defer os.Remove(f.Name())
		logs.Output = f
	}
	w, err := nd.Create(*out)
	if err != nil {
		return err
	}
	defer w.Close()
	return nd.Read(*in, func(c map[string]interface{}) error {
		res := map[string]interface{}{"id": c["id"], "stage": "", "err": ""}
		got := []interface{}{}
		func() {
			defer func() {
				if p := recover(); p != nil {
					res["stage"], res["err"] = "panic", fmt.Sprint(p)
				}
			}()
			ctx, cancel := context.WithTimeout(context.Background(), 60*time.Second)
			defer cancel()
			var cfg struct {
				Config yaml.Node `yaml:"config"`
			}
			if err := yaml.Unmarshal([]byte(fmt.Sprintf("config:\n  path: %q\n", c["tables"].(string))), &cfg); err != nil {
				panic(err)
			}
			pe := &executor.PluginExecutor{Manager: &manager.PluginManager{}}
			defer pe.Close()
			db, err := pe.RunPlugin(ctx, config.PluginReference{Name: "memplugin", Repository: "core"}, "mem", semver.MustParse("0.1.0"), cfg.Config)
			if err != nil {
				res["stage"], res["err"] = "start", err.Error()
				return
			}
			impl, schema, err := db.GetTable(ctx, c["table"].(string), map[string]string{})
			if err != nil {
				res["stage"], res["err"] = "gettable", err.Error()
				return
			}
			res["schema"] = map[string]interface{}{"fields": fromFields(schema.Fields), "time_field": schema.TimeField, "no_retractions": schema.NoRetractions}
			node, err := impl.Materialize(ctx, physical.Environment{}, schema, nil)
			if err != nil {
				res["stage"], res["err"] = "materialize", err.Error()
				return
			}
			take := -1
			if t, ok := c["take"]; ok {
				take = vals.Int(t)
			}
			n := 0
			err = node.Run(execution.ExecutionContext{Context: ctx}, func(pctx execution.ProduceContext, r execution.Record) error {
				if take >= 0 && n == take {
					return errStop
				}
				n++
				got = append(got, vals.FromRecord(r))
				return nil
			}, func(pctx execution.ProduceContext, m execution.MetadataMessage) error {
				got = append(got, vals.Wm(m.Watermark))
				return nil
			})
			if err != nil {
				res["stage"], res["err"] = "run", err.Error()
				if errors.Is(err, errStop) {
					res["stage"] = "stopped"
				}
			}
		}()
		res["got"] = got
		w.Write(res)
		w.Flush()
		return nil
	})
}
