package main

import (
	"bytes"
	"encoding/base64"
	"flag"
	"fmt"

	"github.com/cube2222/octosql/octosql"
	"github.com/cube2222/octosql/outputs/eager"
	"github.com/cube2222/octosql/outputs/formats"
	"github.com/cube2222/octosql/physical"

	"verifharness/nd"
	"verifharness/vals"
)

func init() { cmds["fmt-run"] = fmtRun }

// fmt-run -in cases.ndjson -out results.ndjson : pushes each {"cols":[{"name","ty"}],"rows":[[values]],"csv":bool} through the real
// formats.JSONFormatter and formats.CSVFormatter (SetSchema, Write per row, Close) and returns the bytes each wrote.
func fmtRun(args []string) error {
	fs := flag.NewFlagSet("fmt-run", flag.ExitOnError)
	in := fs.String("in", "", "")
	out := fs.String("out", "", "")
	fs.Parse(args)
	w, err := nd.Create(*out)
	if err != nil {
		return err
	}
	defer w.Close()
	return nd.Read(*in, func(c map[string]interface{}) error {
		cols := c["cols"].([]interface{})
		fields := make([]physical.SchemaField, len(cols))
		for i := range cols {
			m := cols[i].(map[string]interface{})
			fields[i] = physical.SchemaField{Name: m["name"].(string), Type: vals.ToType(m["ty"])}
		}
		var rows [][]octosql.Value
		for _, r := range c["rows"].([]interface{}) {
			rows = append(rows, vals.ToValues(r))
		}
		run := func(mk func(*bytes.Buffer) eager.Format) (res string, perr string) {
			var buf bytes.Buffer
			defer func() {
				if p := recover(); p != nil {
					perr = fmt.Sprint(p)
				}
			}()
			f := mk(&buf)
			f.SetSchema(physical.NewSchema(fields, -1))
			for _, r := range rows {
				if err := f.Write(r); err != nil {
					return "", "error: " + err.Error()
				}
			}
			if err := f.Close(); err != nil {
				return "", "error: " + err.Error()
			}
			return base64.StdEncoding.EncodeToString(buf.Bytes()), ""
		}
		res := map[string]interface{}{"id": c["id"]}
		res["json"], res["json_err"] = run(func(b *bytes.Buffer) eager.Format { return formats.NewJSONFormatter(b) })
		if ok, _ := c["csv"].(bool); ok {
			res["csv"], res["csv_err"] = run(func(b *bytes.Buffer) eager.Format { return formats.NewCSVFormatter(b) })
		}
		w.Write(res)
		return nil
	})
}
