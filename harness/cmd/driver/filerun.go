package main

import (
	"flag"
	"fmt"
	"math/rand"
	"sync"
	"sync/atomic"
	"time"

	"github.com/cube2222/octosql/execution"
	"github.com/cube2222/octosql/octosql"
	"github.com/cube2222/octosql/verifhook"

	"verifharness/engine"
	"verifharness/nd"
	"verifharness/vals"
)

// The hook variables are written once, before any query runs (the JSON worker pool lives for the whole process and reads them);
// the per-case behaviour is swapped through atomics so that the harness itself adds no data race.
var curWorker, curReader, curConsumer atomic.Value // of hookFn

type hookFn struct{ f func(first, n int) }

func init() {
	cmds["file-run"] = fileRun
	curWorker.Store(hookFn{})
	curReader.Store(hookFn{})
	curConsumer.Store(hookFn{})
	verifhook.JSONConsumerFn = func(first, n int) {
		if h := curConsumer.Load().(hookFn); h.f != nil {
			h.f(first, n)
		}
	}
	verifhook.JSONWorkerFn = func(first, n int) {
		if h := curWorker.Load().(hookFn); h.f != nil {
			h.f(first, n)
		}
	}
	verifhook.JSONReaderFn = func(first, n int) {
		if h := curReader.Load().(hookFn); h.f != nil {
			h.f(first, n)
		}
	}
}

// file-run -in cases.ndjson -out results.ndjson : sequentially runs {"id","sql","hook":{"kind":"delay","seed":s} | {"kind":"order","order":[b0,b1..],"batch":64}}
// through the in-process engine (real file datasources) with the JSON hooks installed; the result lists, per produced row,
// the value of the first column (the generated row id), in production order.
func fileRun(args []string) error {
	fs := flag.NewFlagSet("file-run", flag.ExitOnError)
	in := fs.String("in", "", "")
	out := fs.String("out", "", "")
	fs.Parse(args)
	w, err := nd.Create(*out)
	if err != nil {
		return err
	}
	defer w.Close()
	return nd.Read(*in, func(c map[string]interface{}) error {
		hook, _ := c["hook"].(map[string]interface{})
		var mu sync.Mutex
		released := map[int]chan struct{}{}
		gate := func(first int) chan struct{} {
			mu.Lock()
			defer mu.Unlock()
			ch, ok := released[first]
			if !ok {
				ch = make(chan struct{})
				released[first] = ch
			}
			return ch
		}
		curWorker.Store(hookFn{})
		curReader.Store(hookFn{})
		curConsumer.Store(hookFn{})
		engine.OnRecord = nil
		var trace []interface{}
		stop := make(chan struct{})
		switch kind, _ := hook["kind"].(string); kind {
		case "delay":
			seed := int64(vals.Int(hook["seed"]))
			curWorker.Store(hookFn{func(first, n int) {
				r := rand.New(rand.NewSource(seed*1000003 + int64(first)))
				time.Sleep(time.Duration(r.Intn(300)) * time.Microsecond)
			}})
			curReader.Store(hookFn{func(first, n int) {
				r := rand.New(rand.NewSource(seed*7919 + int64(first)))
				if r.Intn(4) == 0 {
					time.Sleep(time.Duration(r.Intn(200)) * time.Microsecond)
				}
			}})
		case "trace":
			// every observation point appends an event under one lock: the sequence is a linearisation consistent with each goroutine's
			// program order and with the channel hand-overs (an event is logged before the send that publishes its effect)
			seed := int64(vals.Int(hook["seed"]))
			var tmu sync.Mutex
			log := func(e map[string]interface{}) {
				tmu.Lock()
				trace = append(trace, e)
				tmu.Unlock()
			}
			curReader.Store(hookFn{func(first, n int) { log(map[string]interface{}{"e": "read", "first": first, "n": n}) }})
			curWorker.Store(hookFn{func(first, n int) {
				if seed != 0 {
					r := rand.New(rand.NewSource(seed*1000003 + int64(first)))
					time.Sleep(time.Duration(r.Intn(200)) * time.Microsecond)
				}
				log(map[string]interface{}{"e": "parsed", "first": first, "n": n})
			}})
			curConsumer.Store(hookFn{func(first, n int) { log(map[string]interface{}{"e": "take", "first": first, "n": n}) }})
			slow := vals.Int(hook["slow_every"])
			engine.OnRecord = func(i int, rec execution.Record) {
				if slow > 0 && i%slow == 0 {
					time.Sleep(150 * time.Microsecond) // a slow consumer lets the reader run up to the token limit
				}
				id := int(rec.Values[0].Int)
				if rec.Values[0].TypeID == octosql.TypeIDFloat {
					id = int(rec.Values[0].Float)
				}
				log(map[string]interface{}{"e": "row", "i": id})
			}
		case "order":
			// batches are handed over in exactly this order (a worker blocks in the hook until its batch is released)
			batch := vals.Int(hook["batch"])
			order := hook["order"].([]interface{})
			curWorker.Store(hookFn{func(first, n int) {
				select {
				case <-gate(first):
				case <-stop:
				}
			}})
			go func() {
				for _, b := range order {
					ch := gate(vals.Int(b) * batch)
					time.Sleep(300 * time.Microsecond) // let the previously released batch reach the output channel first
					close(ch)
				}
			}()
		}
		t0 := time.Now()
		done := make(chan engine.Result, 1)
		go func() { done <- engine.Run(c["sql"].(string), nil, true) }()
		var r engine.Result
		select {
		case r = <-done:
		case <-time.After(60 * time.Second):
			r = engine.Result{Stage: "dead", Err: "query did not terminate within 60 s"}
		}
		close(stop)
		curWorker.Store(hookFn{})
		curReader.Store(hookFn{})
		curConsumer.Store(hookFn{})
		engine.OnRecord = nil
		ids := make([]interface{}, len(r.Records))
		for i, rec := range r.Records {
			if len(rec.Values) > 0 {
				ids[i] = vals.FromValue(rec.Values[0])
			}
		}
		rowsJSON := []interface{}{}
		if full, _ := c["full"].(bool); full {
			for _, rec := range r.Records {
				rowsJSON = append(rowsJSON, vals.FromValues(rec.Values))
			}
		}
		res := map[string]interface{}{"id": c["id"], "stage": r.Stage, "err": fmt.Sprint(r.Err), "first": ids, "rows": rowsJSON, "ms": time.Since(t0).Milliseconds()}
		if trace != nil {
			res["trace"] = trace
			res["first"] = []interface{}{} // the rows are in the trace
		}
		w.Write(res)
		return nil
	})
}
