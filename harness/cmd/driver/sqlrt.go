package main

import (
	"flag"
	"fmt"
	"reflect"
	"sort"
	"strings"

	"github.com/cube2222/octosql/parser/sqlparser"

	"verifharness/nd"
)

func init() { cmds["sql-roundtrip"] = sqlRoundTrip }



// dump renders a syntax tree canonically by reflection: type names and field values, with redundant parentheses
// (ParenExpr around an expression) removed.  It has no knowledge of SQL.
func dump(b *strings.Builder, v reflect.Value, depth int) {
	if depth > 200 {
		b.WriteString("<deep>")
		return
	}
	switch v.Kind() {
	case reflect.Interface, reflect.Ptr:
		if v.IsNil() {
			b.WriteString("nil")
			return
		}
		if p, ok := v.Interface().(*sqlparser.ParenExpr); ok && p != nil {
			dump(b, reflect.ValueOf(p.Expr), depth+1)
			return
		}
		dump(b, v.Elem(), depth+1)
	case reflect.Struct:
		t := v.Type()
		b.WriteString(t.Name())
		b.WriteString("{")
		for i := 0; i < v.NumField(); i++ {
			f := t.Field(i)
			b.WriteString(f.Name)
			b.WriteString(":")
			if f.PkgPath != "" { // unexported: read through fmt
				b.WriteString(fmt.Sprintf("%v", v.Field(i)))
			} else {
				dump(b, v.Field(i), depth+1)
			}
			b.WriteString(" ")
		}
		b.WriteString("}")
	case reflect.Slice, reflect.Array:
		if v.Kind() == reflect.Slice && v.IsNil() || v.Len() == 0 {
			b.WriteString("[]")
			return
		}
		if v.Type().Elem().Kind() == reflect.Uint8 {
			b.WriteString(fmt.Sprintf("%q", v.Bytes()))
			return
		}
		b.WriteString("[")
		for i := 0; i < v.Len(); i++ {
			dump(b, v.Index(i), depth+1)
			b.WriteString(",")
		}
		b.WriteString("]")
	case reflect.Map:
		keys := v.MapKeys()
		sort.Slice(keys, func(i, j int) bool { return fmt.Sprint(keys[i]) < fmt.Sprint(keys[j]) })
		b.WriteString("map[")
		for _, k := range keys {
			b.WriteString(fmt.Sprint(k))
			b.WriteString(":")
			dump(b, v.MapIndex(k), depth+1)
			b.WriteString(",")
		}
		b.WriteString("]")
	case reflect.String:
		b.WriteString(fmt.Sprintf("%q", v.String()))
	default:
		b.WriteString(fmt.Sprintf("%v", v))
	}
}

// needsQuotes reports whether a name is only valid SQL when back-quoted (a reserved word, or characters outside identifiers), as the printer itself decides.
func needsQuotes(name string) bool {
	return name != "" && strings.HasPrefix(sqlparser.String(sqlparser.NewColIdent(name)), "`")
}

// plainNames walks the tree by reflection and lists the names that need quotes but sit in nodes the vendored printer writes as plain text:
// generic function names, INTERVAL units, CAST / CONVERT type and charset names, COLLATE charsets, names assigned by SET.
func plainNames(v reflect.Value, depth int, out map[string]bool) {
	if depth > 200 {
		return
	}
	switch v.Kind() {
	case reflect.Interface, reflect.Ptr:
		if !v.IsNil() {
			plainNames(v.Elem(), depth+1, out)
		}
	case reflect.Struct:
		switch n := v.Interface().(type) {
		case sqlparser.FuncExpr:
			if needsQuotes(n.Name.String()) {
				out["function name"] = true
			}
		case sqlparser.IntervalExpr:
			if needsQuotes(n.Unit) {
				out["interval unit"] = true
			}
		case sqlparser.ConvertTypeSimple:
			if needsQuotes(n.Name) {
				out["type name"] = true
			}
		case sqlparser.CollateExpr:
			if needsQuotes(n.Charset) {
				out["charset name"] = true
			}
		case sqlparser.SetExpr:
			if needsQuotes(n.Name.String()) {
				out["set name"] = true
			}
		}
		for i := 0; i < v.NumField(); i++ {
			if v.Type().Field(i).PkgPath == "" {
				plainNames(v.Field(i), depth+1, out)
			}
		}
	case reflect.Slice, reflect.Array:
		if v.Type().Elem().Kind() != reflect.Uint8 {
			for i := 0; i < v.Len(); i++ {
				plainNames(v.Index(i), depth+1, out)
			}
		}
	}
}

func dumpStmt(s sqlparser.Statement) string {
	var b strings.Builder
	dump(&b, reflect.ValueOf(s), 0)
	return b.String()
}

// sql-roundtrip -in cases.ndjson -out results.ndjson : {"id","sql"} -> Parse, String, Parse again; canonical dumps of both trees.
func sqlRoundTrip(args []string) error {
	fs := flag.NewFlagSet("sql-roundtrip", flag.ExitOnError)
	in := fs.String("in", "", "")
	out := fs.String("out", "", "")
	fs.Parse(args)
	w, err := nd.Create(*out)
	if err != nil {
		return err
	}
	defer w.Close()
	return nd.Read(*in, func(c map[string]interface{}) (rerr error) {
		res := map[string]interface{}{"id": c["id"], "stage": "", "err": ""}
		defer func() {
			if p := recover(); p != nil {
				res["stage"], res["err"] = "panic", fmt.Sprint(p)
			}
			w.Write(res)
		}()
		s1, err := sqlparser.Parse(c["sql"].(string))
		if err != nil {
			res["stage"], res["err"] = "parse1", err.Error()
			return nil
		}
		printed := sqlparser.String(s1)
		res["printed"] = printed
		pn := map[string]bool{}
		plainNames(reflect.ValueOf(s1), 0, pn)
		names := []interface{}{}
		for k := range pn {
			names = append(names, k)
		}
		sort.Slice(names, func(i, j int) bool { return names[i].(string) < names[j].(string) })
		res["quoted_names_in_plain_text_nodes"] = names
		s2, err := sqlparser.Parse(printed)
		if err != nil {
			res["stage"], res["err"] = "parse2", err.Error()
			return nil
		}
		d1, d2 := dumpStmt(s1), dumpStmt(s2)
		res["equal"] = d1 == d2
		res["printed2"] = sqlparser.String(s2)
		if d1 != d2 {
			i := 0
			for i < len(d1) && i < len(d2) && d1[i] == d2[i] {
				i++
			}
			lo := i - 120
			if lo < 0 {
				lo = 0
			}
			hi1, hi2 := i+120, i+120
			if hi1 > len(d1) {
				hi1 = len(d1)
			}
			if hi2 > len(d2) {
				hi2 = len(d2)
			}
			res["diff1"], res["diff2"] = d1[lo:hi1], d2[lo:hi2]
		}
		res["kind"] = reflect.TypeOf(s1).String()
		return nil
	})
}
