package main

import (
	"flag"
	"fmt"
	"os"

	"github.com/cube2222/octosql/plugins/manager"

	"verifharness/nd"
)

func init() { cmds["plugin-list"] = pluginList }

// plugin-list -in cases.ndjson -out results.ndjson : {"id","dir"} -> the real PluginManager.ListInstalledPlugins over OCTOSQL_PLUGIN_DIR=dir.
func pluginList(args []string) error {
	fs := flag.NewFlagSet("plugin-list", flag.ExitOnError)
	in := fs.String("in", "", "")
	out := fs.String("out", "", "")
	fs.Parse(args)
	w, err := nd.Create(*out)
	if err != nil {
		return err
	}
	defer w.Close()
	return nd.Read(*in, func(c map[string]interface{}) error {
		os.Setenv("OCTOSQL_PLUGIN_DIR", c["dir"].(string))
		m := &manager.PluginManager{}
		res := map[string]interface{}{"id": c["id"], "err": ""}
		func() {
			defer func() {
				if p := recover(); p != nil {
					res["err"] = "panic: " + fmt.Sprint(p)
				}
			}()
			list, err := m.ListInstalledPlugins()
			if err != nil {
				res["err"] = err.Error()
				return
			}
			plugins := []interface{}{}
			for _, p := range list {
				vs := []interface{}{}
				for _, v := range p.Versions {
					vs = append(vs, v.Number.String())
				}
				plugins = append(plugins, map[string]interface{}{"repo": p.Reference.Repository, "name": p.Reference.Name, "versions": vs})
			}
			res["plugins"] = plugins
		}()
		w.Write(res)
		return nil
	})
}
