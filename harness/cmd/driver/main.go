// driver runs the real octosql code on cases / behaviours exported by TLC and records traces for TLC to
// validate.  It contains no property logic: it drives the code and reports what it observed; expectations are
// compared for equality only.
package main

import (
	"fmt"
	"os"
	"sort"
)

type cmd func(args []string) error

var cmds = map[string]cmd{}

func main() {
	if len(os.Args) < 2 {
		names := []string{}
		for k := range cmds {
			names = append(names, k)
		}
		sort.Strings(names)
		fmt.Fprintln(os.Stderr, "usage: driver <cmd> ...; cmds:", names)
		os.Exit(2)
	}
	c, ok := cmds[os.Args[1]]
	if !ok {
		fmt.Fprintln(os.Stderr, "unknown command", os.Args[1])
		os.Exit(2)
	}
	if err := c(os.Args[2:]); err != nil {
		fmt.Fprintln(os.Stderr, "driver error:", err)
		os.Exit(3)
	}
}
