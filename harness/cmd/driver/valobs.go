package main

import (
	"bytes"
	"flag"
	"fmt"
	"math/rand"

	"github.com/cube2222/octosql/aggregates"
	"github.com/cube2222/octosql/execution"
	"github.com/cube2222/octosql/execution/nodes"
	"github.com/cube2222/octosql/octosql"

	"verifharness/nd"
	"verifharness/script"
	"verifharness/vals"
)

func init() { cmds["val-obs"] = valObs }

func safeCompare(a, b octosql.Value) (c int, p interface{}) {
	defer func() { p = recover() }()
	return a.Compare(b), nil
}

// runCount runs node over rows (one single-column record per id) and returns the number of records it emitted.
func runCount(build func(src execution.Node) execution.Node, rows []octosql.Value) (n int, lastInt int64, err error) {
	msgs := make([]script.Msg, len(rows))
	for i, v := range rows {
		msgs[i] = script.Msg{"m": "rec", "v": []interface{}{vals.FromValue(v)}, "r": false, "t": 0}
	}
	src := &script.Source{Msgs: msgs}
	out, err := script.RunNode(build(src), src, len(msgs))
	for _, step := range out {
		for _, m := range step {
			if m["m"] == "rec" {
				n++
				vs := m["v"].([]interface{})
				if last, ok := vs[len(vs)-1].(vals.V); ok && last["t"] == "int" {
					if x, ok := last["i"].(int64); ok {
						lastInt = x
					}
				}
			}
		}
	}
	return
}

// val-obs -in universe.ndjson -out obs.ndjson -subsets N
func valObs(args []string) error {
	fs := flag.NewFlagSet("val-obs", flag.ExitOnError)
	in := fs.String("in", "", "")
	out := fs.String("out", "", "")
	subsets := fs.Int("subsets", 300, "")
	seed := fs.Int64("seed", 1, "")
	fs.Parse(args)
	var ids []int
	var vs []octosql.Value
	strs := map[int]string{}
	if err := nd.Read(*in, func(m map[string]interface{}) error {
		ids = append(ids, vals.Int(m["id"]))
		v := vals.ToValue(m["v"])
		vs = append(vs, v)
		if v.TypeID == octosql.TypeIDString {
			strs[vals.Int(m["rank"])] = v.Str
		}
		return nil
	}); err != nil {
		return err
	}
	w, err := nd.Create(*out)
	if err != nil {
		return err
	}
	defer w.Close()
	// sanity of the catalogue itself: scalar strings arrive in the spec's rank order, which must be bytewise order
	for i := 2; i <= len(strs); i++ {
		if bytes.Compare([]byte(strs[i-1]), []byte(strs[i])) >= 0 {
			return fmt.Errorf("string catalogue of Values.tla is not in bytewise order: %q %q", strs[i-1], strs[i])
		}
	}
	hashClass := map[uint64]int{}
	for i := range vs {
		if ids[i] != i+1 {
			return fmt.Errorf("universe ids must be 1..N in order")
		}
		h := vs[i].Hash()
		if _, ok := hashClass[h]; !ok {
			hashClass[h] = len(hashClass) + 1
		}
		cs := make([]int, len(vs))
		es := make([]bool, len(vs))
		for j := range vs {
			c, p := safeCompare(vs[i], vs[j])
			if p != nil {
				c = 77
			}
			cs[j] = c
			es[j] = vs[i].Equal(vs[j])
		}
		w.Write(map[string]interface{}{"k": "row", "a": ids[i], "c": cs, "e": es, "h": hashClass[h]})
	}
	// operators: how many distinct values does each of them see in a multiset of universe values?
	rng := rand.New(rand.NewSource(*seed))
	var sets [][]int
	for i := range vs {
		for j := i + 1; j < len(vs); j++ {
			sets = append(sets, []int{i, j})
		}
	}
	for k := 0; k < *subsets; k++ {
		n := 3 + rng.Intn(6)
		s := make([]int, n)
		for i := range s {
			s[i] = rng.Intn(len(vs))
		}
		sets = append(sets, s)
	}
	countProto := aggregates.Aggregates["count"].Descriptors[0].Prototype
	cdProto := aggregates.Aggregates["count_distinct"].Descriptors[0].Prototype
	key := []execution.Expression{execution.NewVariable(0, 0)}
	ops := map[string]func(src execution.Node) execution.Node{
		"distinct":             func(src execution.Node) execution.Node { return nodes.NewDistinct(src) },
		"group_by_hash":        func(src execution.Node) execution.Node { return nodes.NewSimpleGroupBy([]func() nodes.Aggregate{countProto}, key, key, src) },
		"group_by_btree":       func(src execution.Node) execution.Node { return nodes.NewCustomTriggerGroupBy([]func() nodes.Aggregate{countProto}, key, key, -1, src, execution.NewEndOfStreamTriggerPrototype()) },
		"count_distinct":       func(src execution.Node) execution.Node { return nodes.NewSimpleGroupBy([]func() nodes.Aggregate{cdProto}, key, nil, src) },
		"order_by_then_groups": nil,
	}
	for _, s := range sets {
		rows := make([]octosql.Value, len(s))
		sid := make([]int, len(s))
		for i, x := range s {
			rows[i] = vs[x]
			sid[i] = ids[x]
		}
		for name, build := range ops {
			if build == nil {
				continue
			}
			n, last, err := runCount(build, rows)
			classes := n
			if name == "count_distinct" {
				classes = int(last)
			}
			ev := map[string]interface{}{"k": "op", "op": name, "ids": sid, "classes": classes}
			if err != nil {
				ev["err"] = err.Error()
			}
			w.Write(ev)
		}
	}
	return nil
}
