package main

import (
	"flag"
	"fmt"
	"math/rand"
	"time"

	"github.com/cube2222/octosql/aggregates"
	"github.com/cube2222/octosql/execution"
	"github.com/cube2222/octosql/execution/nodes"
	"github.com/cube2222/octosql/octosql"

	"verifharness/nd"
	"verifharness/script"
	"verifharness/vals"
)

func init() { cmds["op-run"] = opRun }

// colEq is the harness predicate "row[col] = value" with SQL semantics (NULL when the column is NULL).
type colEq struct {
	col int
	val octosql.Value
}

func (c *colEq) Evaluate(ctx execution.ExecutionContext) (octosql.Value, error) {
	v := ctx.VariableContext.Values[c.col]
	if v.TypeID == octosql.TypeIDNull {
		return octosql.NewNull(), nil
	}
	return octosql.NewBoolean(v.TypeID == c.val.TypeID && v.Compare(c.val) == 0), nil
}

// outerEq is the harness predicate of the joined side of a lookup join: "joined row[inner] = source record[outer]" (NULL when either is NULL).
// The joined side runs with the source record one frame up in the variable context.
type outerEq struct{ outer, inner int }

func (c *outerEq) Evaluate(ctx execution.ExecutionContext) (octosql.Value, error) {
	in := ctx.VariableContext.Values[c.inner]
	out := ctx.VariableContext.Parent.Values[c.outer]
	if in.TypeID == octosql.TypeIDNull || out.TypeID == octosql.TypeIDNull {
		return octosql.NewNull(), nil
	}
	return octosql.NewBoolean(in.TypeID == out.TypeID && in.Compare(out) == 0), nil
}

func cols(x interface{}) []int {
	l, _ := x.([]interface{})
	out := make([]int, len(l))
	for i := range l {
		out[i] = vals.Int(l[i]) - 1
	}
	return out
}

func varExprs(cs []int) []execution.Expression {
	out := make([]execution.Expression, len(cs))
	for i, c := range cs {
		out[i] = execution.NewVariable(0, c)
	}
	return out
}

func aggPrototype(kind string, t octosql.Type) func() nodes.Aggregate {
	det := aggregates.Aggregates[kind]
	for _, d := range det.Descriptors {
		if d.TypeFn != nil {
			if _, ok := d.TypeFn(t); ok {
				return d.Prototype
			}
			continue
		}
		if t.Is(d.ArgumentType) == octosql.TypeRelationIs {
			return d.Prototype
		}
	}
	panic("no aggregate overload for " + kind)
}

// buildNode constructs the real execution node described by cfg on top of src.
func buildNode(cfg map[string]interface{}, src execution.Node) execution.Node {
	switch cfg["op"] {
	case "pipe":
		node := src
		for _, st := range cfg["stages"].([]interface{}) {
			node = buildNode(st.(map[string]interface{}), node)
		}
		return node
	case "filter":
		return nodes.NewFilter(src, &colEq{col: vals.Int(cfg["col"]) - 1, val: vals.ToValue(cfg["eq"])})
	case "map":
		return nodes.NewMap(src, varExprs(cols(cfg["cols"])))
	case "distinct":
		return nodes.NewDistinct(src)
	case "etbuf":
		return nodes.NewEventTimeBuffer(src)
	case "orderby":
		dl, _ := cfg["dirs"].([]interface{})
		dirs := make([]int, len(dl))
		for i := range dl {
			dirs[i] = vals.Int(dl[i])
		}
		var limit *execution.Expression
		if n := vals.Int(cfg["limit"]); n >= 0 {
			var e execution.Expression = execution.NewConstant(octosql.NewInt(int64(n)))
			limit = &e
		}
		return nodes.NewOrderSensitiveTransform(src, varExprs(cols(cfg["keys"])), dirs, limit, false)
	case "limit":
		return nodes.NewLimit(src, execution.NewConstant(octosql.NewInt(int64(vals.Int(cfg["n"])))))
	case "lookup":
		tl, _ := cfg["table"].([]interface{})
		recs := make([]execution.Record, len(tl))
		fl, _ := cfg["tflags"].([]interface{})
		for i := range tl {
			retraction := false
			if i < len(fl) {
				retraction, _ = fl[i].(bool)
			}
			recs[i] = execution.NewRecord(vals.ToValues(tl[i]), retraction, execution.Record{}.EventTime)
		}
		joined := nodes.NewFilter(nodes.NewInMemoryRecords(recs), &outerEq{outer: vals.Int(cfg["col"]) - 1, inner: vals.Int(cfg["jcol"]) - 1})
		return nodes.NewLookupJoin(src, joined)
	case "unnest":
		return nodes.NewUnnest(src, vals.Int(cfg["col"])-1)
	case "gb":
		keys := varExprs(cols(cfg["keys"]))
		al := cfg["aggs"].([]interface{})
		protos := make([]func() nodes.Aggregate, len(al))
		exprs := make([]execution.Expression, len(al))
		for i := range al {
			a := al[i].(map[string]interface{})
			protos[i] = aggPrototype(a["k"].(string), octosql.Int)
			exprs[i] = execution.NewVariable(0, vals.Int(a["c"])-1)
		}
		if s, _ := cfg["simple"].(bool); s {
			return nodes.NewSimpleGroupBy(protos, exprs, keys, src)
		}
		kt := vals.Int(cfg["ktidx"]) - 1
		return nodes.NewCustomTriggerGroupBy(protos, exprs, keys, kt, src, newTriggerPrototype(cfg["trig"].([]interface{}), kt))
	}
	if n := buildNode2(cfg, src); n != nil {
		return n
	}
	panic(fmt.Sprintf("unknown op %v", cfg["op"]))
}

type cachedNode struct {
	src  *script.Source
	node execution.Node
}

var nodeCache = map[string]*cachedNode{}

// cfgKey identifies the node object: run-time arguments passed through the variable context are not part of it.
func cfgKey(cfg map[string]interface{}) string {
	c := map[string]interface{}{}
	for k, v := range cfg {
		if viavar, _ := cfg["viavar"].(bool); viavar && (k == "start" || k == "end") {
			continue
		}
		c[k] = v
	}
	return vals.Canon(c) + "|" + vals.Base.String()
}

// varContext builds the outer variable context for configurations whose arguments are correlated variables.
func varContext(cfg map[string]interface{}) *execution.VariableContext {
	if viavar, _ := cfg["viavar"].(bool); viavar {
		return &execution.VariableContext{Values: []octosql.Value{octosql.NewInt(int64(vals.Int(cfg["start"]))), octosql.NewInt(int64(vals.Int(cfg["end"])))}}
	}
	return nil
}

var buildNode2 = func(cfg map[string]interface{}, src execution.Node) execution.Node { return nil }

func toMsgs(x interface{}) []script.Msg {
	l, _ := x.([]interface{})
	out := make([]script.Msg, len(l))
	for i := range l {
		out[i] = l[i].(map[string]interface{})
	}
	return out
}

// runScript drives the node and writes the trace events of one script.
func runScript(w *nd.Writer, cfg map[string]interface{}, in []script.Msg) {
	w.Write(map[string]interface{}{"ev": "new", "cfg": cfg})
	if cfg["op"] == "poll" {
		out, errText := runPoll(cfg)
		if out == nil {
			out = []vals.V{}
		}
		ev := map[string]interface{}{"ev": "eos", "out": out}
		if errText != "" {
			ev["err"] = errText
		}
		w.Write(ev)
		return
	}
	if b, _ := cfg["base"].(string); b == "pre" {
		// pre-epoch base instant: 1969-12-31T23:00:00Z (unix -3600, a multiple of every resolution used)
		old := vals.Base
		vals.Base = time.Unix(-3600, 0).UTC()
		defer func() { vals.Base = old }()
	}
	// The same node object is re-used for every script with the same configuration: nodes are re-run by design
	// (LookupJoin re-runs its joined side per record, subquery expressions re-run per row), so state must not
	// leak from one Run to the next.
	key := cfgKey(cfg)
	ent, ok := nodeCache[key]
	if !ok {
		src := &script.Source{}
		ent = &cachedNode{src: src, node: buildNode(cfg, src)}
		nodeCache[key] = ent
	}
	ent.src.Msgs = in
	out, err := script.RunNodeCtx(ent.node, ent.src, len(in), varContext(cfg))
	for i := range in {
		o := []vals.V{}
		if i < len(out) {
			o = out[i]
		}
		w.Write(map[string]interface{}{"ev": "in", "msg": in[i], "out": o})
	}
	last := []vals.V{}
	if len(out) > len(in) {
		last = out[len(in)]
	}
	ev := map[string]interface{}{"ev": "eos", "out": last}
	if err != nil {
		ev["err"] = err.Error()
	}
	w.Write(ev)
}

// op-run -in scripts.ndjson -out trace.ndjson
func opRun(args []string) error {
	fs := flag.NewFlagSet("op-run", flag.ExitOnError)
	in := fs.String("in", "", "")
	out := fs.String("out", "", "")
	sample := fs.Int("sample", 0, "keep at most this many scripts (seeded reservoir)")
	seed := fs.Int64("seed", 1, "")
	fs.Parse(args)
	w, err := nd.Create(*out)
	if err != nil {
		return err
	}
	defer w.Close()
	rng := rand.New(rand.NewSource(*seed))
	var all []map[string]interface{}
	if err := nd.Read(*in, func(c map[string]interface{}) error {
		all = append(all, c)
		return nil
	}); err != nil {
		return err
	}
	if *sample > 0 && len(all) > *sample {
		rng.Shuffle(len(all), func(i, j int) { all[i], all[j] = all[j], all[i] })
		all = all[:*sample]
	}
	for _, c := range all {
		runScript(w, c["cfg"].(map[string]interface{}), toMsgs(c["in"]))
	}
	return nil
}
