// Package engine runs a SQL query through the real OctoSQL pipeline in-process, the way cmd/root.go does for
// `-o json` (parse -> logical plan -> typecheck -> optimize -> materialize -> ORDER BY / LIMIT wrapping -> run),
// against in-memory tables served by a datasource that honours schema pruning.  No result logic lives here.
package engine

import (
	"context"
	"fmt"
	"strings"

	"github.com/cube2222/octosql/aggregates"
	"github.com/cube2222/octosql/execution"
	"github.com/cube2222/octosql/execution/nodes"
	"github.com/cube2222/octosql/functions"
	"github.com/cube2222/octosql/logical"
	"github.com/cube2222/octosql/octosql"
	"github.com/cube2222/octosql/optimizer"
	"github.com/cube2222/octosql/parser"
	"github.com/cube2222/octosql/parser/sqlparser"
	"github.com/cube2222/octosql/physical"
	tvf "github.com/cube2222/octosql/table_valued_functions"

	"github.com/cube2222/octosql/config"
	csvds "github.com/cube2222/octosql/datasources/csv"
	jsonds "github.com/cube2222/octosql/datasources/json"
	linesds "github.com/cube2222/octosql/datasources/lines"
	parquetds "github.com/cube2222/octosql/datasources/parquet"
)

// Ctx is the context cmd/root.go would pass: it carries the configuration with its defaults.
func Ctx() context.Context {
	cfg := &config.Config{}
	cfg.Files.BufferSizeBytes = 4096 * 1024
	cfg.Files.JSON.MaxLineSizeBytes = 1024 * 1024
	return config.ContextWithConfig(context.Background(), cfg)
}

type Table struct {
	Fields    []physical.SchemaField
	TimeField int
	Rows      [][]octosql.Value
	// Source, when set, replaces Rows (e.g. a scripted source or a node that fails half way).
	Source func(cols []int) execution.Node
	// Push is the table's predicate push-down policy (optimizer rule PushDownFilterPredicatesToDatasource): "" rejects every
	// predicate, "all" accepts every predicate, "alt" accepts every other new predicate (so filters are split between the
	// datasource and a remaining Filter node).  Accepted predicates are evaluated by the datasource on the full row, as a
	// real datasource (e.g. a plugin) does.
	Push string
}

type memDB struct{ tables map[string]*Table }

func (d *memDB) ListTables(ctx context.Context) ([]string, error) {
	var out []string
	for k := range d.tables {
		out = append(out, k)
	}
	return out, nil
}

func (d *memDB) GetTable(ctx context.Context, name string, options map[string]string) (physical.DatasourceImplementation, physical.Schema, error) {
	t, ok := d.tables[name]
	if !ok {
		return nil, physical.Schema{}, fmt.Errorf("no such table: %s", name)
	}
	return &memImpl{t: t}, physical.NewSchema(t.Fields, t.TimeField, physical.WithNoRetractions(true)), nil
}

type memImpl struct{ t *Table }

func (m *memImpl) Materialize(ctx context.Context, env physical.Environment, schema physical.Schema, pushedDownPredicates []physical.Expression) (execution.Node, error) {
	cols := make([]int, len(schema.Fields))
	for i, f := range schema.Fields {
		cols[i] = -1
		for j, tf := range m.t.Fields {
			if tf.Name == f.Name {
				cols[i] = j
			}
		}
		if cols[i] == -1 {
			return nil, fmt.Errorf("mem table has no field %q", f.Name)
		}
	}
	if m.t.Source != nil {
		return m.t.Source(cols), nil
	}
	full := physical.NewSchema(m.t.Fields, m.t.TimeField)
	preds := make([]execution.Expression, len(pushedDownPredicates))
	for i := range pushedDownPredicates {
		e, err := pushedDownPredicates[i].Materialize(ctx, env.WithRecordSchema(full))
		if err != nil {
			return nil, fmt.Errorf("mem table: pushed-down predicate does not materialise on the table's own schema: %w", err)
		}
		preds[i] = e
	}
	return &memNode{rows: m.t.Rows, cols: cols, preds: preds}, nil
}

func (m *memImpl) PushDownPredicates(newPredicates, pushedDownPredicates []physical.Expression) (rejected, pushedDown []physical.Expression, changed bool) {
	switch m.t.Push {
	case "all":
		return []physical.Expression{}, append(append([]physical.Expression{}, pushedDownPredicates...), newPredicates...), len(newPredicates) > 0
	case "alt":
		rejected = []physical.Expression{}
		pushedDown = append([]physical.Expression{}, pushedDownPredicates...)
		for i, p := range newPredicates {
			if i%2 == 0 {
				pushedDown = append(pushedDown, p)
				changed = true
			} else {
				rejected = append(rejected, p)
			}
		}
		return rejected, pushedDown, changed
	}
	return newPredicates, []physical.Expression{}, false
}

type memNode struct {
	rows  [][]octosql.Value
	cols  []int
	preds []execution.Expression
}

func (n *memNode) Run(ctx execution.ExecutionContext, produce execution.ProduceFn, metaSend execution.MetaSendFn) error {
rows:
	for _, r := range n.rows {
		for _, p := range n.preds {
			v, err := p.Evaluate(ctx.WithRecord(execution.NewRecord(r, false, execution.Record{}.EventTime)))
			if err != nil {
				return err
			}
			if v.TypeID != octosql.TypeIDBoolean || !v.Boolean {
				continue rows
			}
		}
		vs := make([]octosql.Value, len(n.cols))
		for i, c := range n.cols {
			vs[i] = r[c]
		}
		if err := produce(execution.ProduceFromExecutionContext(ctx), execution.NewRecord(vs, false, execution.Record{}.EventTime)); err != nil {
			return err
		}
	}
	return nil
}

type Result struct {
	Stage   string // "" ok | parse | typecheck | materialize | run | panic
	Err     string
	Fields  []physical.SchemaField
	Records []execution.Record // consolidated order of emission (retractions included as emitted)
	// SchemaDiff is non-empty when the optimised plan announces another schema than the plan it was made from.
	SchemaDiff string
}

func schemaDiff(a, b physical.Schema) string {
	if len(a.Fields) != len(b.Fields) {
		return fmt.Sprintf("%d fields before, %d after", len(a.Fields), len(b.Fields))
	}
	for i := range a.Fields {
		if a.Fields[i].Name != b.Fields[i].Name {
			return fmt.Sprintf("field %d is %s before, %s after", i, a.Fields[i].Name, b.Fields[i].Name)
		}
		if !a.Fields[i].Type.Equals(b.Fields[i].Type) {
			return fmt.Sprintf("field %s has type %s before, %s after", a.Fields[i].Name, a.Fields[i].Type, b.Fields[i].Type)
		}
	}
	if a.TimeField != b.TimeField {
		return fmt.Sprintf("time field %d before, %d after", a.TimeField, b.TimeField)
	}
	if a.NoRetractions != b.NoRetractions {
		return fmt.Sprintf("NoRetractions %v before, %v after", a.NoRetractions, b.NoRetractions)
	}
	return ""
}

var tvfs = map[string]logical.TableValuedFunctionDescription{
	"max_diff_watermark": tvf.MaxDiffWatermark,
	"tumble":             tvf.Tumble,
	"range":              tvf.Range,
	"poll":               tvf.Poll,
}

// Env builds the physical environment over the given in-memory tables (database name "mem").
// The function map (with its regexp caches) is built once per process, as cmd/root.go does.
var functionMap = functions.FunctionMap()

func Env(tables map[string]*Table) physical.Environment {
	return physical.Environment{
		Aggregates: aggregates.Aggregates,
		Functions:  functionMap,
		Datasources: &physical.DatasourceRepository{
			Databases: map[string]func() (physical.Database, error){
				"mem": func() (physical.Database, error) { return &memDB{tables: tables}, nil },
			},
			FileHandlers: map[string]func(ctx context.Context, name string, options map[string]string) (physical.DatasourceImplementation, physical.Schema, error){
				"csv": csvds.Creator(','), "json": jsonds.Creator, "lines": linesds.Creator, "parquet": parquetds.Creator, "tsv": csvds.Creator('\t'),
			},
		},
	}
}

// Plan parses and typechecks; it returns the physical plan before optimisation.
func Plan(sql string, env physical.Environment) (plan physical.Node, mapping map[string]string, opts *parser.OutputOptions, res Result) {
	stmt, err := sqlparser.Parse(sql)
	if err != nil {
		return plan, nil, nil, Result{Stage: "parse", Err: err.Error()}
	}
	sel, ok := stmt.(sqlparser.SelectStatement)
	if !ok {
		return plan, nil, nil, Result{Stage: "parse", Err: "only SELECT statements are supported"}
	}
	lp, oo, err := parser.ParseNode(sel) // a panic here is a crash of the CLI (no recover around it in cmd/root.go)
	if err != nil {
		return plan, nil, nil, Result{Stage: "parse", Err: err.Error()}
	}
	gen := map[string]int{}
	func() {
		defer func() {
			if p := recover(); p != nil {
				// cmd/root.go typecheckNode turns typecheck panics into "typecheck error: ..." the same way
				res = Result{Stage: "typecheck", Err: fmt.Sprint(p)}
			}
		}()
		plan, mapping = lp.Typecheck(Ctx(), env, logical.Environment{
			CommonTableExpressions: map[string]logical.CommonTableExpression{},
			TableValuedFunctions:   tvfs,
			UniqueNameGenerator:    gen,
		})
	}()
	return plan, mapping, oo, res
}

// OnRecord, when set, observes every record at the final produce callback (index in emission order) - used by trace recording.
var OnRecord func(i int, rec execution.Record)

// Run executes the query like `octosql -o json` would and returns the records in emission order.
func Run(sql string, tables map[string]*Table, optimize bool) (res Result) {
	defer func() {
		if p := recover(); p != nil {
			res.Stage, res.Err = "panic", fmt.Sprint(p)
		}
	}()
	ctx := Ctx()
	env := Env(tables)
	plan, mapping, oo, r := Plan(sql, env)
	if r.Stage != "" {
		return r
	}
	gen := map[string]int{}
	lenv := func() logical.Environment {
		return logical.Environment{CommonTableExpressions: map[string]logical.CommonTableExpression{}, TableValuedFunctions: tvfs,
			UniqueVariableNames: &logical.VariableMapping{Mapping: mapping}, UniqueNameGenerator: gen}
	}
	var tcErr string
	typecheckExpr := func(e logical.Expression) (out physical.Expression) {
		defer func() {
			if p := recover(); p != nil {
				tcErr = fmt.Sprint(p)
			}
		}()
		return e.Typecheck(ctx, env.WithRecordSchema(plan.Schema), lenv())
	}
	orderBy := make([]physical.Expression, len(oo.OrderByExpressions))
	for i := range oo.OrderByExpressions {
		orderBy[i] = typecheckExpr(oo.OrderByExpressions[i])
	}
	var limit *physical.Expression
	if oo.Limit != nil {
		l := typecheckExpr(*oo.Limit)
		if tcErr == "" && len(l.VariablesUsed()) > 0 {
			return Result{Stage: "typecheck", Err: "limit expression must not reference record fields"} // as cmd/root.go
		}
		limit = &l
	}
	if tcErr != "" {
		return Result{Stage: "typecheck", Err: tcErr}
	}
	reverse := logical.ReverseMapping(mapping)
	if optimize {
		before := plan.Schema
		plan = optimizer.Optimize(plan)
		// an observation, not a judgement: did the optimiser change the schema of the plan (names, order, types, time field, retraction flag)?
		if d := schemaDiff(before, plan.Schema); d != "" {
			res.SchemaDiff = d
		}
	}
	exec, err := plan.Materialize(ctx, env)
	if err != nil {
		return Result{Stage: "materialize", Err: err.Error()}
	}
	var orderExprs []execution.Expression
	for i := range orderBy {
		e, err := orderBy[i].Materialize(ctx, env.WithRecordSchema(plan.Schema))
		if err != nil {
			return Result{Stage: "materialize", Err: err.Error()}
		}
		orderExprs = append(orderExprs, e)
	}
	var limitExpr *execution.Expression
	if limit != nil {
		e, err := limit.Materialize(ctx, env.WithRecordSchema(plan.Schema))
		if err != nil {
			return Result{Stage: "materialize", Err: err.Error()}
		}
		limitExpr = &e
	}
	// the csv / json branch of cmd/root.go
	if len(orderExprs) > 0 || !plan.Schema.NoRetractions {
		exec = nodes.NewOrderSensitiveTransform(exec, orderExprs, logical.DirectionsToMultipliers(oo.OrderByDirections), limitExpr, plan.Schema.NoRetractions)
	} else if limitExpr != nil {
		exec = nodes.NewLimit(exec, *limitExpr)
	}
	fields := make([]physical.SchemaField, len(plan.Schema.Fields))
	copy(fields, plan.Schema.Fields)
	for i := range fields {
		name := reverse[fields[i].Name]
		if k := strings.LastIndex(name, "."); k != -1 {
			name = name[k+1:]
		}
		fields[i].Name = name
	}
	res.Fields = fields
	err = exec.Run(execution.ExecutionContext{Context: ctx}, func(pctx execution.ProduceContext, rec execution.Record) error {
		if OnRecord != nil {
			OnRecord(len(res.Records), rec)
		}
		vs := make([]octosql.Value, len(rec.Values))
		copy(vs, rec.Values)
		res.Records = append(res.Records, execution.NewRecord(vs, rec.Retraction, rec.EventTime))
		return nil
	}, func(pctx execution.ProduceContext, m execution.MetadataMessage) error { return nil })
	if err != nil {
		res.Stage, res.Err = "run", err.Error()
	}
	return res
}
