module verifharness

go 1.18

require github.com/cube2222/octosql v0.0.0

require (
	github.com/awalterschulze/gographviz v2.0.3+incompatible // indirect
	github.com/cespare/xxhash v1.1.0 // indirect
	github.com/dgraph-io/ristretto v0.0.3 // indirect
	github.com/golang/protobuf v1.5.3 // indirect
	github.com/google/btree v1.1.2 // indirect
	github.com/oklog/ulid/v2 v2.0.2 // indirect
	github.com/pkg/errors v0.9.1 // indirect
	github.com/segmentio/fasthash v1.0.3 // indirect
	github.com/tidwall/btree v1.3.1 // indirect
	github.com/zyedidia/generic v1.1.0 // indirect
	golang.org/x/exp v0.0.0-20220414153411-bcd21879b8fd // indirect
	google.golang.org/protobuf v1.30.0 // indirect
)

replace github.com/cube2222/octosql => /repo
