#!/usr/bin/env python3
"""Prints the CSV cell catalogue of spec/Schema.tla (run once; the output is pasted into the specification, which stays explicit).
A cell's readings are listed by hand (kind); this script only renders the canonical text of each reading:
Int -> decimal, Float -> shortest scientific notation (Go strconv 'e', -1), Boolean -> true/false, Time -> RFC 3339 (nano) in UTC."""
from decimal import Decimal
import math

def fl(x):
    f = float(x) if not isinstance(x, float) else x
    if math.isnan(f):
        return "NaN"
    if math.isinf(f):
        return "+Inf" if f > 0 else "-Inf"
    sign, digits, exp = Decimal(repr(f)).as_tuple()
    digits = list(digits)
    while len(digits) > 1 and digits[-1] == 0:
        digits.pop()
        exp += 1
    while len(digits) > 1 and digits[0] == 0:
        digits.pop(0)
    e = len(digits) - 1 + exp if digits != [0] else 0
    mant = str(digits[0]) + ("." + "".join(map(str, digits[1:])) if len(digits) > 1 else "")
    return "%s%se%s%02d" % ("-" if sign else "", mant, "-" if e < 0 else "+", abs(e))

def q(s):
    return '"' + s.replace("\\", "\\\\").replace('"', '\\"') + '"'

def rd(k, v):
    return '[k |-> %s, v |-> %s]' % (q(k), q(v))

cells = []
def cell(text, ints=None, flt=None, boolean=None, time=None, string=True, null=False):
    reads = []
    if null:
        reads.append(rd("Null", ""))
    if ints is not None:
        reads.append(rd("Int", str(ints)))
    if flt is not None:
        reads.append(rd("Float", fl(flt)))
    if boolean is not None:
        reads.append(rd("Boolean", "true" if boolean else "false"))
    if time is not None:
        reads.append(rd("Time", time))
    if string:
        reads.append(rd("String", text))
    cells.append('  [text |-> %s, reads |-> {%s}]' % (q(text), ", ".join(reads)))

cell("", null=True)      # the empty cell is NULL; in a column that is String and not nullable it may also stand for the empty string
for t, i in (("5", 5), ("-17", -17), ("007", 7), ("+3", 3), ("9223372036854775807", 2**63 - 1), ("-9223372036854775808", -2**63), ("9007199254740993", 2**53 + 1), ("1000000", 10**6)):
    cell(t, ints=i, flt=float(i))
cell("1", ints=1, flt=1.0, boolean=True)
cell("0", ints=0, flt=0.0, boolean=False)
for t in ("1.5", "-0.25", ".5", "5.", "1e3", "1E-2", "0.1", "1e-320", "123456789012345678901234567890", "0.30000000000000004", "9223372036854775808", "-0.0", "1e22", "4.35",
          "Inf", "-inf", "NaN", "nan", "Infinity", "+Inf"):
    cell(t, flt=float(t))
cell("0x1p-2", flt=0.25)
cell("1_000", flt=1000.0)   # strconv.ParseFloat accepts digit-separating underscores, ParseInt (base 10) does not
for t, b in (("true", True), ("false", False), ("t", True), ("T", True), ("TRUE", True), ("F", False), ("f", False), ("True", True), ("False", False)):
    cell(t, boolean=b)
cell("2020-01-02T03:04:05Z", time="2020-01-02T03:04:05Z")
cell("2020-01-02T03:04:05.123456789+02:00", time="2020-01-02T01:04:05.123456789Z")
cell("1969-12-31T23:59:59.5Z", time="1969-12-31T23:59:59.5Z")
for t in ("yes", "abc", "null", "a,b", " 5", "5 ", "tRUE", "2020-01-02", "2020-01-02 03:04:05", "0x10", "1,5", "é", "--1", "1e", "e5", "5.5.5", "TRue", "12a"):
    cell(t)
print("CsvCells == {\n" + ",\n".join(cells) + "}")
nums = ["5", "-1.5", "1e3", "1E-2", "0.1", "123456789012345678901234567890", "1e-320", "0", "-0", "9007199254740993", "1.0", "2.50"]
print("JNums == {\n" + ",\n".join('  [j |-> "num", text |-> %s, fl |-> %s]' % (q(t), q(fl(t))) for t in nums) + "}")
