#!/usr/bin/env python3
"""tools/seed.py <Cxx> <mN> "<what it needs to manifest>" [check ids...] [--tier quick|thorough]
Confirms a seeded change (tools/confirm_seed.sh), runs the named checks against it (tools/mutcheck.sh) and writes
/verif/seeded/<Cxx>-<mN>/meta.json."""
import json, os, subprocess, sys
a = [x for x in sys.argv[1:] if not x.startswith("--")]
tier = "quick"
if "--tier" in sys.argv:
    tier = sys.argv[sys.argv.index("--tier") + 1]
    a = [x for x in a if x != tier]
pid, m, needs = a[0], a[1], a[2]
checks = a[3:] or [pid]
d = "/verif/seeded/%s-%s" % (pid, m)
if not os.path.exists(d + "/patch.diff"):
    r = subprocess.run(["/verif/tools/confirm_seed.sh", pid, m], capture_output=True, text=True)
    print(r.stdout[-600:])
    if r.returncode != 0:
        sys.exit("not confirmed")
meta = {}
if os.path.exists(d + "/meta.json"):
    meta = json.load(open(d + "/meta.json"))
meta.update({"property": pid, "needs": needs,
             "confirmed": "tools/confirm_seed.sh %s %s: demo passes on the unchanged tree; with the patch `go build ./...` ok, full `go test -vet=off -count=1 ./...` ok, demo FAILS" % (pid, m)})
res = meta.setdefault("checks_run", {})
for c in checks:
    r = subprocess.run(["/verif/tools/mutcheck.sh", d + "/patch.diff", c, tier], capture_output=True, text=True)
    lines = [l for l in r.stdout.splitlines() if l.startswith("VIOLATION") or l.startswith("mutcheck rc")]
    rc = [l for l in lines if l.startswith("mutcheck rc")]
    res["%s %s" % (c, tier)] = {"exit": int(rc[-1].split("=")[1]) if rc else None, "detected": any(l.startswith("VIOLATION") for l in lines),
                                "violation_lines": [l for l in lines if l.startswith("VIOLATION")][:3]}
    print(c, tier, res["%s %s" % (c, tier)]["exit"], res["%s %s" % (c, tier)]["detected"])
meta["detected"] = any(v["detected"] for v in res.values())
json.dump(meta, open(d + "/meta.json", "w"), indent=1)
subprocess.run(["git", "-C", "/repo", "status", "--short"])
