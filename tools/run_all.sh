#!/bin/bash
# tools/run_all.sh [quick|thorough] [ids...] : runs the checks one after the other on /repo's current working tree; prints id, exit code, seconds.
TIER=${1:-quick}; shift
IDS=${@:-$(seq -f "C%02g" 1 30)}
cd /verif
mkdir -p /tmp/verif_runall
for id in $IDS; do
  s=$(date +%s)
  ./check $id $TIER > /tmp/verif_runall/${id}_$TIER.log 2>&1; rc=$?
  e=$(date +%s)
  echo "$id $TIER rc=$rc $((e-s))s known=$(grep -c '^KNOWN-FINDING' /tmp/verif_runall/${id}_$TIER.log) viol=$(grep -c '^VIOLATION' /tmp/verif_runall/${id}_$TIER.log)"
done
