#!/bin/sh
# Offline set-up after a fresh restore: nothing to download.  Pre-builds the harness and the CLI once so that the
# Go build cache is warm (every check rebuilds from /repo's current working tree anyway).
export GOFLAGS=-mod=mod GOPROXY=off GOSUMDB=off GOTOOLCHAIN=local
cd /verif/harness || exit 1
cat /repo/go.sum > go.sum
[ -f go.sum.extra ] && cat go.sum.extra >> go.sum
go build -tags verif -o /dev/null ./cmd/driver || exit 1
(cd /repo && go build -tags verif -o /dev/null .) || exit 1
java -cp /opt/veriftools/tla/tla2tools.jar:/opt/veriftools/tla/CommunityModules-deps.jar tlc2.TLC -h >/dev/null 2>&1
echo setup ok
