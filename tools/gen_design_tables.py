#!/usr/bin/env python3
"""Regenerates the generated tables of DESIGN.md section 11 (between the BEGIN/END GENERATED markers) from known_findings.jsonl and seeded/*/meta.json."""
import glob
import json
import os
import re
import subprocess

V = os.path.dirname(os.path.dirname(os.path.abspath(__file__)))
kf = [json.loads(l) for l in open(os.path.join(V, "known_findings.jsonl")) if l.strip() and not l.startswith("#")]
log = subprocess.run(["git", "-C", "/repo", "log", "--format=%h %s", "f54c532..HEAD"], capture_output=True, text=True).stdout.strip().splitlines()
fixes = [l for l in log if l.split(" ", 1)[1].startswith("fix:")]
hooks = [l for l in log if l.split(" ", 1)[1].startswith("verif:")]
out = []
out.append("#### Genuine defects repaired in /repo (%d `fix:` commits, oldest first)\n" % len(fixes))
out.append("| commit | subject |\n|---|---|")
for l in reversed(fixes):
    h, s = l.split(" ", 1)
    out.append("| `%s` | %s |" % (h, s[5:].replace("|", "\\|")))
out.append("\nEach is recorded in `known_findings.jsonl` as `fixed: property=<id> <commit> <what failed>` (%d entries); a fixed entry suppresses nothing.\n" % sum(1 for k in kf if k["status"] == "fixed"))
out.append("#### Hook commits (build tag `verif`, add-only)\n")
for l in reversed(hooks):
    out.append("- `%s` %s" % tuple(l.split(" ", 1)))
out.append("\n#### Known findings (genuine, recorded, not repaired)\n")
out.append("| id | property | what fails | matched by |\n|---|---|---|---|")
for k in kf:
    if k["status"] == "known":
        out.append("| %s | %s | %s | `%s` |" % (k["id"], k["property"], k["what"].replace("|", "\\|"), json.dumps(k["match"]).replace("|", "\\|")))
out.append("\n#### Seeded changes (written by sub-agents that saw only the property text) and the checks that catch them\n")
out.append("| seed | what it needs to manifest | checks run (tier) -> detected |\n|---|---|---|")
for d in sorted(glob.glob(os.path.join(V, "seeded", "*"))):
    mf = os.path.join(d, "meta.json")
    if not os.path.exists(mf):
        continue
    m = json.load(open(mf))
    runs = "; ".join("%s -> %s" % (k, "**detected**" if v.get("detected") else "not detected") for k, v in m.get("checks_run", {}).items())
    fr = m.get("final_run")
    if fr:
        runs += ("; " if runs else "") + "re-run on the final tree (%s, %s) -> %s" % (fr.get("repo_head"), fr.get("tier"), "**detected**" if fr.get("detected") else "not detected")
    if m.get("superseded"):
        runs += " (superseded: " + m["superseded"][:160] + "...)"
    out.append("| %s | %s | %s |" % (os.path.basename(d), m.get("needs", "").replace("|", "\\|"), runs))
text = "\n".join(out) + "\n"
p = os.path.join(V, "DESIGN.md")
s = open(p).read()
s = re.sub(r"<!-- BEGIN GENERATED -->.*<!-- END GENERATED -->", lambda m: "<!-- BEGIN GENERATED -->\n" + text + "<!-- END GENERATED -->", s, flags=re.S)
open(p, "w").write(s)
print("fixes", len(fixes), "hooks", len(hooks), "known", sum(1 for k in kf if k["status"] == "known"))
