#!/usr/bin/env python3
"""Regenerates /verif/MANIFEST.json from the table below: a property is claimed iff lib/props/<id>.py exists and
it has an entry in CLAIMS; everything else goes to not_applicable with its reason."""
import json
import os
import subprocess

V = os.path.dirname(os.path.dirname(os.path.abspath(__file__)))
props = [json.loads(l) for l in open(os.path.join(V, "properties.jsonl"))]

# id -> (category, text, level_note, technique, design_ref)
CLAIMS = {
    "C14": ("model_checking",
            "TLC checks Aggregates.tla: every aggregate's implementation-shaped state machine refines AggOf(net multiset) on every valid "
            "add/retract history up to MaxLen over 3 atoms (path-exhaustive). The same TLC run exports every maximal history with the expected "
            "value after each step; the real aggregates (every kind x Int/Float/Duration overload) are stepped through all of them. Random long "
            "histories recorded from the real aggregates are validated by TLC against AggregatesTrace.tla with the property as an invariant in "
            "every state; a corrupted trace must be rejected (negative control).",
            "Valid histories only; small integer atoms (no int64 overflow); float tolerance 1e-9 rel. Trusted: harness value mapping, TLC.",
            "TLA+ spec + TLC bounded-exhaustive history export replayed on real aggregates + TLC trace validation", "DESIGN.md 6/C14"),
    "C16": ("model_checking",
            "GroupBy.tla models CustomTriggerGroupBy (event-time buffer, per-key aggregates, previouslySent, Triggers.tla state machines) and "
            "SimpleGroupBy; TLC checks, for 10 trigger configurations and every valid watermarked input changelog up to MaxLen (late and zero-time "
            "records included), that the consolidated output at end of stream equals the batch GROUP BY (GbBatch). Every exported script and seeded "
            "random long scripts are run on the real nodes one message at a time; TLC validates the recorded traces against OpTrace.tla with the "
            "same Layer-P monitor (PFail) evaluated after every event; Layer-I drift is counted (0 on the pinned tree).",
            "Valid changelogs (never retract an absent row, also in event-time order). Aggregates count/sum over small ints. Trusted: scripted "
            "source, value mapping, TLC.", "TLA+ spec + TLC bounded-exhaustive script export replayed on real group-by nodes + TLC trace validation",
            "DESIGN.md 6/C16"),
    "C17": ("model_checking",
            "Triggers.tla: Layer-I state machines of Counting/Watermark/EndOfStream/Multi triggers stay within the Layer-P bounds Must <= polled <= May "
            "for every event history up to MaxLen x 9 configurations (TLC); every history is replayed on the real execution.Trigger objects and the "
            "recorded Poll results validated by TLC (TriggersTrace.tla), plus random long histories. Node level: GroupBy.tla clauses C17Watermark (a "
            "forwarded watermark W is backed by the current result of every key at or below W; no key beyond W without COUNTING) and C17Counting "
            "(emission exactly at every n-th record) are evaluated by TLC on traces of the real CustomTriggerGroupBy for exhaustive small and random scripts.",
            "Calling protocol of the group-by (one Poll per trigger event). Counting clause checked on zero-event-time streams (where the trigger sees "
            "records on arrival). Trusted: harness drivers, TLC.", "TLA+ spec + TLC history export replayed on real triggers/group-by + TLC trace validation",
            "DESIGN.md 6/C17"),
    "C15": ("model_checking",
            "Ops.tla gives every operator an implementation-shaped step function (Layer I) and a batch meaning on the consolidated input (Layer P). "
            "TLC checks for every valid input changelog up to MaxLen per operator configuration that the output never retracts an absent row in any "
            "prefix and that its consolidation equals the operator applied to the consolidated input; the exported scripts and random long "
            "changelogs are run on the real nodes (filter, map, distinct, event-time buffer, simple/custom group by, order by = OrderSensitiveTransform with and "
            "without LIMIT, limit, lookup join, unnest; eight small pipelines of these, e.g. group by with triggers feeding ORDER BY ... LIMIT; stream and outer joins via "
            "StreamJoin.tla under every schedule) and every trace is validated by TLC against the same monitor. One finding recorded (lookup join over a retracting joined side).",
            "Valid input changelogs (also in event-time order). Predicates/projections are harness expressions (column = constant, column lists). "
            "Trusted: scripted source, value mapping, TLC.", "TLA+ spec + TLC bounded-exhaustive script export replayed on real nodes + TLC trace validation",
            "DESIGN.md 6/C15"),
    "C18": ("model_checking",
            "The C18 clauses of the Layer-P monitor (non-decreasing forwarded watermarks; no output record with a non-zero event time at or below an "
            "already forwarded watermark given non-late input; event-time buffer releases every record unchanged, in event-time order, before the first "
            "watermark at or above it and the rest at end of stream) are model-checked on the Layer-I operator models and evaluated by TLC on traces of "
            "the real nodes for exhaustive small and random scripts.",
            "Inputs without late records, strictly increasing watermarks. Time-keyed group-bys get records with event time <= key time. One recorded "
            "finding (known_findings.jsonl).", "TLA+ spec + TLC bounded-exhaustive script export replayed on real nodes + TLC trace validation",
            "DESIGN.md 6/C18"),
    "C20": ("model_checking",
            "Tvf.tla specifies max_diff_watermark as a two-variable state machine (largest rounded time seen, current watermark). TLC explores every "
            "input sequence up to MaxLen over 6 time values x +/- plus a source watermark for 6 (max_diff, resolution, base instant) configurations and "
            "exports them; each sequence and seeded random longer ones are fed to the real node (built through the TVF descriptor's Materialize, the "
            "same node object re-run for every script) and TLC compares, after every record, the observed output with the specification.",
            "Whole-second times and resolutions. Trusted: scripted physical datasource stub, value mapping, TLC.",
            "TLA+ spec + TLC sequence export replayed on the real node + TLC trace validation", "DESIGN.md 6/C20"),
    "C21": ("model_checking",
            "Tvf.tla states the three tumble clauses on every emitted row (window_start <= time < window_end, length, offset alignment, pass-through of "
            "other fields/watermarks), range as the ascending sequence of [start,end), and poll as rounds (retract snapshot k-1, emit snapshot k, "
            "watermark). TLC enumerates input sequences / parameter grids / snapshot sequences, the real nodes are run on each (range also with "
            "correlated arguments on a re-used node), and TLC validates the traces.",
            "Window lengths 1..6 s (origin-independent). Poll observed by rounds (clock values renamed). Trusted: harness stubs, TLC.",
            "TLA+ spec + TLC enumeration replayed on the real nodes + TLC trace validation", "DESIGN.md 6/C21"),
    "C22": ("model_checking",
            "ConsistentOutput.tla: Layer I models the pending list and the retraction cancellation; Layer P says that at every forwarded watermark W the "
            "consolidated output equals the consolidated input at or below W, that nothing is emitted that was not received and that everything is out "
            "by end of stream. TLC model-checks Layer I against Layer P for every valid changelog up to MaxLen, exports the scripts, and validates the "
            "traces of the real wrapper for those and for random long changelogs. Two genuine defects found this way were repaired (fix: commits).",
            "Valid input changelogs. Trusted: scripted source, TLC.", "TLA+ spec + TLC bounded-exhaustive script export replayed on the real wrapper + TLC trace validation",
            "DESIGN.md 6/C22"),
    "C19": ("model_checking",
            "StreamJoin.tla models the join goroutine of StreamJoin and OuterJoin action by action (select arms, first close, one-stream phase, "
            "processRecordsUpTo, per-key trees with event-time lists, buffers, min-watermark, oneStreamRemains). TLC explores every pair of valid "
            "scripts up to 2 messages per side x 4 join kinds x every interleaving and close order, with deadlock checking and termination as a "
            "liveness property, against JFail/JRetroFail: at every forwarded watermark W the consolidated output equals the join of the received "
            "zero-time records and of all records of the complete inputs at or below W; at end of stream the join of the complete inputs. The "
            "exported pairs are run on the real nodes under every schedule (gated by the JoinRecv hook), random pairs under random gated schedules "
            "and under free Go scheduling; TLC validates every recorded run. The defect found (lost matches when one input ends first) was repaired.",
            "Non-late, valid inputs; non-NULL keys. Hook JoinRecv (build tag verif) reports consumption in the join goroutine. Trusted: gate "
            "scheduler, TLC.", "TLA+ spec + TLC interleaving model + schedule-enforced replay on real joins + TLC trace validation", "DESIGN.md 6/C19"),
    "C09": ("model_checking",
            "Values.tla defines a bounded value universe U (90 values incl. NaN, signed zeros, infinities, Min/MaxInt64, zoned times, nested and "
            "prefix-related composites) and the documented reference order; TLC first checks that the reference order is a total preorder. The harness "
            "records the real Value.Compare for every ordered pair, Value.Equal, hash classes, and how many distinct values Distinct / hash group by / "
            "btree group by / COUNT(DISTINCT) see in all pairs and seeded multisets; TLC evaluates reflexivity, antisymmetry, transitivity over all "
            "triples, equal => same hash, agreement with the reference order and operator agreement on those observations.",
            "NaN's position is not pinned. Universe is finite. Trusted: value mapping, TLC.", "TLA+ spec + TLC law evaluation over the observed comparison matrix of the real code",
            "DESIGN.md 6/C09"),
    "C10": ("model_checking",
            "Types.tla defines the type universe TU (about 45 types incl. element-less lists, objects of different layouts, tuples, normalised and "
            "hand-built unions) and an independent set-theoretic reading ValueInType over a value universe. The harness calls the real Is / Equals / "
            "TypeSum / TypeIntersection / NonNullable on every ordered pair and Value.Type on every value; TLC evaluates the laws of the statement and "
            "their set-theoretic reading on the observed results.",
            "Finite universes. One recorded finding (TypeSum of different layouts).", "TLA+ spec + TLC law evaluation over observed results of the real type algebra",
            "DESIGN.md 6/C10"),
    "C11": ("model_checking",
            "Logic.tla: TLC checks that the specified AND/OR/NOT are Kleene's strong three-valued logic (min/max/reversal on F<N<T, De Morgan, "
            "associativity, distributivity), then exports boolean expression trees of depth <= 2 (151 424; a seeded RandomSubset in quick) over two boolean "
            "columns, three strict integer comparisons and the constants TRUE/FALSE/NULL with their SQL text and expected value for all 81 (nullable "
            "typing) and 16 (non-nullable typing) assignments. Each tree runs through the real parser, typechecker, materialiser and evaluator as a "
            "projection and as a WHERE clause (in-process engine mirroring cmd/root.go) and is compared for equality; every strict overload of "
            "FunctionMap() is called through the same path with NULL in each argument position.",
            "Trees rejected by the typechecker are skipped (counted). Trusted: in-process engine glue (copy of cmd/root.go's csv/json branch), TLC.",
            "TLA+ spec + TLC-exported exhaustive expression cases replayed through the real typecheck/materialise/evaluate pipeline", "DESIGN.md 6/C11"),
    "C12": ("model_checking",
            "Strings.tla specifies upper/lower/reverse/replace/position/len/substr on rune sequences and LIKE as a recursive matcher (any, all, escape, "
            "literal); StringCases.tla exports an exhaustive LIKE core (7 distinguishing runes, strings <= 2 x patterns <= 3), seeded samples over a "
            "27-rune alphabet with every regexp metacharacter, newline and multibyte runes, and regular-expression inputs built from 27 fragments. "
            "Each case is evaluated through the real typecheck/materialise/evaluate path; ~ and ~* are compared with Go's regexp (and (?i)). Five "
            "defects found were repaired.",
            "Byte-vs-rune indexing on multibyte text, empty search strings and negative indices are Unpinned (no panic only).",
            "TLA+ spec + TLC-exported cases replayed on the real function descriptors", "DESIGN.md 6/C12"),
    "C13": ("model_checking",
            "Numeric.tla specifies int arithmetic with wrap-around laws on Min/MaxInt64, float arithmetic on exact fractions with the IEEE special-value "
            "algebra, ceil/floor/sqrt/log/pow on exactly representable cases, conversions (failed parse => NULL), duration/time arithmetic, IN/NOT IN, "
            "list indexing (out of range => NULL), COALESCE and the unix-time round trip (incl. 64-bit values). NumericCases.tla exports every overload "
            "x boundary catalogue; each case runs through the real pipeline and is compared (exact, or within 1e-9 where the result is not a dyadic).",
            "libm accuracy beyond exact cases is Unpinned; TLC's 32-bit integers limit operands to the catalogue.",
            "TLA+ spec + TLC-exported boundary cases replayed on the real function descriptors", "DESIGN.md 6/C13"),
    "C01": ("exploration",
            "Relational.tla gives the batch meaning of single-source SELECT (WHERE with three-valued logic, projections, DISTINCT, ORDER BY on output columns with "
            "NULL first and bytewise strings, LIMIT, subqueries in FROM, WITH) and renders the SQL text itself. TLC draws (query, table) pairs under its seed and "
            "computes the expected result as a sequence of tie groups; each query runs through the real parser, typechecker, optimiser, materialiser and "
            "execution nodes (in-process mirror of cmd/root.go's csv/json branch) and the rows are compared; a CLI sample covers what octosql prints "
            "(see C05/C25 for the output modes).",
            "Sampled, not exhaustive. Trusted: engine glue copied from cmd/root.go (kept in step with it), comparison of tie groups in Python.",
            "TLA+ relational spec as oracle + TLC-generated query/table cases replayed through the real pipeline", "DESIGN.md 6/C01"),
    "C02": ("model_checking",
            "Relational.tla join layer (inner / LEFT / RIGHT / OUTER / LOOKUP, Eq3 key matching, NULL padding) for TLC-generated queries and tables with NULL "
            "and duplicate keys, run through the real pipeline with the optimiser on and off; plus StreamJoin.tla at node level (JoinBag with NULL keys never "
            "matching) under every interleaving and close order for script pairs up to 2 messages per side, enforced on the real nodes with the JoinRecv hook. "
            "Three defects found were repaired.",
            "Sampled queries; exhaustive small schedules. Trusted: engine glue, gate scheduler.", "TLA+ relational spec + TLC interleaving model, replayed on the real pipeline and nodes",
            "DESIGN.md 6/C02"),
    "C03": ("exploration",
            "Relational.tla grouping layer (one row per present key incl. NULL, aggregates over non-NULL inputs, NULL when none, truncating AVG, ascending "
            "array_agg, DISTINCT variants) for TLC-generated grouping queries, also over retracting sources (grouping subqueries with COUNTING triggers), run "
            "through the real pipeline with both optimiser settings; the aggregates themselves are covered path-exhaustively by C14 and both group-by nodes by C16.",
            "Sampled. Int inputs only at this level.", "TLA+ relational spec as oracle + TLC-generated cases replayed through the real pipeline", "DESIGN.md 6/C03"),
    "C04": ("translation_validation",
            "Every generated (query, database) case - the C01-C03 families plus a family aimed at each rewrite rule - is executed with the optimiser on and off "
            "through the real pipeline; both outputs are compared with Sem(query, database) of Relational.tla and with each other, so every observed rewrite is "
            "validated on concrete databases and a disagreement is attributed to one side.",
            "The in-memory datasource honours schema pruning but pushes no predicates down (file datasources do not either). Sampled.",
            "TLC-generated programs executed optimised and unoptimised, both validated against the TLA+ relational semantics", "DESIGN.md 6/C04"),
    "C08": ("model_checking",
            "Types.tla ValueInType is an independent reading of type terms. (function, static argument types, reported result type, value) observations are "
            "recorded from the real typecheck/materialise/evaluate pipeline for every overload on the C12/C13 catalogues with exact, nullable and "
            "multi-alternative (NULL | T | String) argument typings and NULL in each position, and for every result column of TLC-generated queries (families group, "
            "join, single of RelCases.tla: aggregates over nullable inputs with all-NULL groups, outer-join padding, subqueries; optimiser on and off); TLC checks "
            "ValueInType(value, reported type) on every observation.",
            "File schemas are covered by C24.", "TLA+ type denotation + TLC check of observed (type, value) pairs from the real pipeline",
            "DESIGN.md 6/C08"),
    "C05": ("exploration",
            "Relational.tla family 'limit' enumerates every table of <= 4 rows over 3 distinct rows (duplicates) x LIMIT 0..4 x 4 ORDER BY shapes x {top level, "
            "subquery in FROM} with the expected tie groups; the in-process engine runs the family with both optimiser settings, a second family nests ORDER BY "
            "+ LIMIT over retracting sources (groupings with COUNTING triggers), and the real binary prints sampled cases in live_table, batch_table, csv, json "
            "and stream_native, whose output is decoded and compared. Two defects found were repaired.",
            "Table modes are decoded from the last printed frame. CLI part sampled in quick.", "TLA+ relational spec + exhaustive small family replayed through engine and the real CLI in five output modes",
            "DESIGN.md 6/C05"),
    "C06": ("fault_enumeration",
            "ErrorProp.tla enumerates operator chains (filter, map, distinct, order by, group by, either input of stream / outer / lookup joins, subquery "
            "expression, LIMIT) x fault position and decides MustFail (the fault is reached under every evaluation order; TLC also checks that the property "
            "depends on every operator forwarding errors). Two fault kinds run through the real pipeline: a source returning an error at row p, and a value "
            "failing a run-time type assertion in an expression above the chain; the real binary runs 7 query shapes over files with a malformed JSON row, a "
            "short CSV row, an over-long line and failing expressions, in two output modes. Whenever MustFail holds the run must end with an error (non-zero "
            "exit, message on stderr). Four swallowing sites found were repaired.",
            "Chains up to height 2 (3 in thorough). Input read errors are emulated by malformed content, not by failing syscalls.",
            "TLA+ fault/propagation model + exhaustive fault injection on the real pipeline and CLI", "DESIGN.md 6/C06"),
    "C07": ("exploration",
            "No Go panic may escape: the SQL text of TLC-generated queries (all Relational.tla families), seeded token mutations of them, an edge catalogue of "
            "80 expressions x 13 syntactic places (projection, WHERE, JOIN ON, GROUP BY key, ORDER BY, LIMIT, subquery) and input files whose later rows "
            "differ from the previewed schema run through the in-process engine (panics outside the typechecker's recover are crashes; a crash of the harness "
            "process itself is re-run per case in isolation) and through the real binary (exit status 0/1, no panic trace). Four crash sites found were repaired; "
            "every other check also treats a panic as a violation.",
            "Mutations of generated programs, not every string. Oracle says nothing about results.", "spec-generated corpus + mutation fuzzing of the real pipeline and CLI with a no-panic oracle",
            "DESIGN.md 6/C07"),
    "C23": ("model_checking",
            "JsonReader.tla models the JSON datasource (line reader, token channel bounding in-flight batches, shared parser pool, per-reader output channel, "
            "in-order hand-over, early cancel, two concurrent readers); TLC checks in-order delivery, no loss/duplication, deadlock freedom and termination "
            "for every interleaving. The real datasource then runs with JSONWorker/JSONReader hooks: forced batch release orders generated from the model's "
            "reorderings and seeded delays, files of 0..3000 rows around batch boundaries, joins of two files; executions recorded at the reader / worker / consumer "
            "observation points (files up to 9 000 / 30 000 lines, slow consumer, LIMIT) are validated by TLC against JsonReaderTrace.tla. Lines.tla defines the split of a byte string "
            "by a separator (TLC exports the cases); CSV/JSON/lines/stdin files with generated contents are compared row by row with the file's rows; parquet files "
            "(required/optional/repeated scalars and groups) are read whole and through column projections and compared with the rows written. "
            "One genuine defect (multi-character separator) repaired.",
            "Parquet files are written by the harness value by value with explicit repetition/definition levels (the page writer is the vendored library's). Trusted: hooks, file writers.", "TLA+ spec + TLC model checking + schedule replay on the real datasource through hooks + TLC trace validation of recorded executions + TLC-exported split cases",
            "DESIGN.md 6/C23"),
    "C29": ("model_checking",
            "Deadlock freedom and termination are decided on JoinMC.tla (stream/outer joins: every interleaving and close order) and JsonReader.tla (reader, "
            "tokens, pool, reorder queue, early cancel, two readers) by TLC with deadlock checking on and termination under weak fairness; the real nodes run the "
            "gated schedules and delayed/early-stopped/failed file queries with a stall timeout. Data-race freedom is outside what a TLA+ model decides: "
            "it is monitored by the Go race detector on those same executions (harness and CLI built with -race, GOMAXPROCS 1/2/16, seeded delays).",
            "Race freedom only on executed schedules. Trusted: Go race detector, hooks.", "TLA+ spec + TLC deadlock/liveness checking + schedule replay on -race builds of the real code",
            "DESIGN.md 6/C29"),
    "C25": ("exploration",
            "OutputFormat.tla generates typed result rows under the TLC seed (string token catalogue with every control-character class, quotes, separators, JSON "
            "look-alikes, non-printable and astral runes, invalid UTF-8; extreme ints; float literals incl. denormals, 2^63, 2^64; nested lists/objects/tuples; "
            "nullable and mixed unions; multi-row batches under one schema) together with JsonView / CsvView, the document each line must decode to. The rows go "
            "through the real JSONFormatter / CSVFormatter in-process and through the binary (-o json / -o csv over JSON and CSV input files); strict decoders "
            "(exact number tokens, RFC 4180 on bytes) compare with the view. One defect repaired (invalid JSON escapes), one recorded (NaN/Inf).",
            "Times/durations only required to be strings; two object shapes never meet in one union. Trusted: Python json, the CSV state machine.",
            "spec-generated universe (TLA+ views exported by TLC) replayed through the real formatters and CLI with decoding oracles", "DESIGN.md 6/C25"),
    "C24": ("exploration",
            "Schema.tla: a CSV cell is a text with the set of its readings (Int / Float / Boolean / Time / String / NULL values it denotes), a JSON value an abstract "
            "document; Rep(cell, T) says the cell has a reading in the reported type T, Match(cell, v, T) that the produced value is such a reading. SchemaCases.tla "
            "generates files under the TLC seed (per column the cells cycled through the 100-row inference preview and the cells after it); the real datasources run "
            "SELECT * over them in-process; SchemaCheck.tla (TLC) judges the reported types, produced rows and failure status: every produced value is a Match, the run "
            "fails exactly at the first row with a cell that is not Rep, preview rows are always Rep. A CLI sample checks --describe text and exit status. Five "
            "genuine defects (incl. a process crash) were repaired.",
            "The catalogue is finite (64 CSV texts, JSON documents to depth 2). Extra JSON keys not required to be errors. Trusted: file writers, canonical value rendering.",
            "TLA+ spec (readings / representability) + TLC-generated files run through the real datasources + TLC judging the recorded observations", "DESIGN.md 6/C24"),
    "C30": ("exploration",
            "SqlAst.tla defines a bounded universe of statement trees (OctoSQL's SELECT language with WITH, TRIGGER lists, table-valued functions with =>, TABLE(), "
            "DESCRIPTOR(), LOOKUP/STREAM JOIN, ->, ->*, list indexing, regexp operators, chains of unary operators, back-quoted reserved words ...) and their text "
            "(Render); TLC generates statements under its seed. The real parser parses each text, prints it, parses the printed text and both trees are compared by a "
            "reflective canonical dump ignoring only redundant parentheses; also over the vendored parser test inputs and seeded token mutations. Six genuine printer "
            "defects were repaired; two vitess-level ones are recorded.",
            "Statements the parser rejects are outside the property. Trusted: the reflective dump.",
            "spec-generated grammar universe (TLA+ trees rendered by TLC) replayed through the real parser/printer with a tree-equality oracle", "DESIGN.md 6/C30"),
    "C28": ("exploration",
            "PluginVersions.tla defines semantic-version precedence (prereleases, multi-digit components), constraint satisfaction (none, *, =, >=, >, <, <=, ^, ~, with the "
            "library's prerelease rule), Discover, Resolve (highest installed version that satisfies) and Select (highest matching manifest version; highest release "
            "without a constraint). PluginCases.tla generates trees, configurations, manifests and the expected outcome under the TLC seed. The real code is observed "
            "through PluginManager.ListInstalledPlugins in-process, through the binary's start-up (octosql.yml + dummy plugin executables recording which version was "
            "started) and through `octosql plugin install` against a loopback HTTP repository with the manifest in shuffled order. One genuine defect (dashed names) repaired.",
            "Constraint semantics of Masterminds/semver v1.5 as stated in the spec; ^ only for major >= 1. Trusted: directory/HTTP fixtures.",
            "TLA+ spec + TLC-generated configurations replayed on the real plugin manager, CLI start-up and installer", "DESIGN.md 6/C28"),
    "C27": ("fault_enumeration",
            "PluginInstall.tla walks `plugin install` / `plugin repository add` one file-system step at a time, with a kill allowed between any two steps and inside the "
            "long ones (download, unarchive, file write); TLC checks CrashSafe on every state a kill can leave for three prior states, for the repaired (staged) design, "
            "and as a negative control shows the pinned in-place design violating it. Every kill scenario of the model is executed on the real binary through crash points "
            "(build tag verif; torn writes at 0 / half / all-but-last byte; truncated downloads and unpacked files) against a loopback HTTP repository; afterwards real "
            "invocations must start, the configured database must resolve to a complete previous or new version, the plugin's file extension must not be routed to a broken "
            "plugin, repositories must load and re-running the command must succeed. The observed file-system state is compared with the model's prediction (drift 0). "
            "Three genuine defects repaired, one residual window recorded.",
            "Process kill only (no power-loss reordering); a kill inside the third-party unarchiver is emulated by truncating the unpacked files.",
            "TLA+ spec + TLC model checking of every kill position + exhaustive fault injection on the real binary at the matching crash points", "DESIGN.md 6/C27"),
    "C26": ("model_checking",
            "PluginWire.tla: (i) message universes (all values of U, all types of TU, schemas with every time-field position, records, watermarks, variable contexts to depth 3) "
            "with Decode(Encode(x)) = x, exported by TLC and sent through the real protobuf encoding/decoding (export shim, build tag verif); (ii) every function overload on the "
            "C12/C13 catalogues crosses the real predicate transport (JSON + RepopulatePhysicalExpressionFunctions) and must evaluate as before; (iii) the Run stream state machine (PluginStream.tla) "
            "(FIFO, server failure, early stop) is model-checked (prefix, end, termination) and scripts of records / retractions / watermarks / failure are served by a test plugin "
            "(separate process on the real plugins.Run, reached through executor.PluginExecutor over gRPC) and compared with what the client callbacks receive; (iv) TLC-generated "
            "queries of Relational.tla run through the binary against the plugin with pushdown accepted / rejected, plus queries with subquery predicates compared with the native run. "
            "One genuine defect (overload re-resolution: IN / NOT IN inverted) repaired.",
            "The test plugin is harness code (it evaluates pushed predicates with the real evaluator). Times compared by instant.",
            "TLA+ spec + TLC-exported universes and TLC model checking of the stream machine + replay through the real wire encoding, transport and gRPC path", "DESIGN.md 6/C26"),
}

NA_DEFAULT = "check not built yet (work in progress; will be claimed once its TLA+ spec and conformance harness are committed)"
NA = {}

hooks_commits = []
try:
    out = subprocess.run(["git", "-C", "/repo", "log", "--format=%H %s"], capture_output=True, text=True).stdout
    for l in out.splitlines():
        h, s = l.split(" ", 1)
        if s.startswith("verif:") or s.startswith("hook:"):
            hooks_commits.append(h)
except Exception:
    pass

checks, na = [], []
for p in props:
    i = p["id"]
    if i in CLAIMS and os.path.exists(os.path.join(V, "lib", "props", i.lower() + ".py")):
        cat, text, note, tech, ref = CLAIMS[i]
        checks.append({"property_id": i, "quick_cmd": "./check %s quick" % i, "thorough_cmd": "./check %s thorough" % i,
                       "evidence_file": "/verif/evidence/%s.json" % i, "replay_cmd_template": "./check %s --replay {path}" % i,
                       "engine": "tlc+goharness", "level_claimed": {"category": cat, "text": text, "design_ref": ref},
                       "level_note": note, "technique": tech})
    else:
        na.append({"property_id": i, "reason": NA.get(i, NA_DEFAULT)})

m = {"version": 1,
     "setup_cmd": "cd /verif && sh tools/setup.sh",
     "hooks": {"guard": "verif", "enable": "go build -tags verif (the checks build the harness and the CLI from /repo's working tree with this tag)",
               "baseline_off_cmd": "cd /repo && GOFLAGS=-mod=mod GOPROXY=off GOSUMDB=off GOTOOLCHAIN=local go test -vet=off -count=1 -timeout 25m ./...",
               "source_commits": hooks_commits, "add_only": True},
     "engines": [{"name": "tlc+goharness", "path": "/verif/check", "serves_properties": [c["property_id"] for c in checks],
                  "kind_free_text": "TLA+ specifications in /verif/spec checked by TLC; cases/behaviours exported by TLC are replayed on the real Go "
                                    "code by /verif/harness (built with -tags verif against /repo's working tree); traces recorded from the real "
                                    "code are validated by TLC trace specifications"}],
     "checks": checks,
     "notes": "See DESIGN.md. Exit 0 held / 1 VIOLATION (real-code observation contradicting Layer P) / 2 machinery problem. "
              "Known findings: /verif/known_findings.jsonl.",
     "not_applicable": na}
json.dump(m, open(os.path.join(V, "MANIFEST.json"), "w"), indent=1)
print("claimed:", [c["property_id"] for c in checks])
