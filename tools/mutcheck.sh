#!/bin/sh
# tools/mutcheck.sh <patch.diff> <Cxx> [quick|thorough] : apply a seeded change to /repo, run the check, undo it.
P="$1"; ID="$2"; TIER="${3:-quick}"
git -C /repo apply "$P" || { echo "patch does not apply"; exit 2; }
( cd /verif && ./check "$ID" "$TIER" ); RC=$?
git -C /repo checkout -- . 
echo "mutcheck rc=$RC"
exit $RC
