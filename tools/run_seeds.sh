#!/bin/bash
# tools/run_seeds.sh [tier] [seed dirs...] : re-runs every seeded change against the CURRENT /repo HEAD in a separate worktree (/tmp/repo_mut), so that
# /repo itself and the committed evidence are not touched.  For each seeded/<Cxx>-<mN>: apply patch.diff, run ./check <Cxx> <tier> with VERIF_REPO / VERIF_OUT
# redirected, record whether a VIOLATION was reported in seeded/<Cxx>-<mN>/meta.json ("final_run").
TIER=${1:-quick}; shift
export GOFLAGS=-mod=mod GOPROXY=off GOSUMDB=off GOTOOLCHAIN=local
WT=/tmp/repo_mut; OUT=/tmp/verif_mut_out
git -C /repo worktree remove --force $WT 2>/dev/null; rm -rf $WT $OUT
git -C /repo worktree add --detach $WT HEAD > /dev/null 2>&1 || { echo "cannot create worktree"; exit 2; }
mkdir -p $OUT
DIRS=${@:-$(ls -d /verif/seeded/*/)}
for d in $DIRS; do
  d=${d%/}; name=$(basename $d); id=${name%%-*}
  git -C $WT checkout -q -- . ; git -C $WT clean -fdq
  if ! git -C $WT apply $d/patch.diff 2>/dev/null; then echo "$name PATCH-DOES-NOT-APPLY"; continue; fi
  if ! (cd $WT && go build ./... 2>/dev/null); then echo "$name DOES-NOT-BUILD"; continue; fi
  s=$(date +%s)
  (cd /verif && VERIF_REPO=$WT VERIF_OUT=$OUT ./check $id $TIER > $OUT/$name.log 2>&1); rc=$?
  e=$(date +%s)
  det=false; [ "$rc" = "1" ] && grep -q '^VIOLATION' $OUT/$name.log && det=true
  echo "$name $TIER rc=$rc detected=$det $((e-s))s"
  python3 - "$d/meta.json" "$TIER" "$rc" "$det" "$(git -C /repo rev-parse --short HEAD)" <<'PY'
import json, sys
p, tier, rc, det, head = sys.argv[1:6]
m = json.load(open(p)) if __import__("os").path.exists(p) else {}
m["final_run"] = {"repo_head": head, "tier": tier, "exit": int(rc), "detected": det == "true"}
m["detected"] = m.get("detected", False) or det == "true"
json.dump(m, open(p, "w"), indent=1)
PY
done
git -C /repo worktree remove --force $WT 2>/dev/null
