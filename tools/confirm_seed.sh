#!/bin/bash
# tools/confirm_seed.sh <Cxx> <mN> : confirm a seeded change in its scratch worktree /tmp/mut/<Cxx>:
#  demo passes on unchanged code; with the patch: builds, full suite passes, demo fails.  Then store under /verif/seeded/.
ID=$1; M=$2; WT=${MUTROOT:-/tmp/mut}/$ID; O=$WT/_out/$M
export GOFLAGS=-mod=mod GOPROXY=off GOSUMDB=off GOTOOLCHAIN=local
cd $WT || exit 2
git checkout -q -- . ; git clean -fdq -e _out
DEMO=$(ls $O/*_test.go 2>/dev/null | head -1)
if [ -z "$DEMO" ]; then
  # shell demonstration: demo.sh (or run.sh) builds the CLI from the worktree it is given and exits non-zero when the property is broken
  SH=$O/demo.sh; [ -f $O/run.sh ] && SH=$O/run.sh
  [ -f "$SH" ] || { echo "no demo in $O"; ls $O; exit 2; }
  export OCTOSQL_NO_TELEMETRY=1
  rundemo() { (cd $WT && REPO=$WT timeout 600 bash $SH $WT > $O/.demo_out 2>&1; echo $?); }
  R1=$(rundemo); echo "demo on unchanged: exit $R1"
  git apply $O/patch.diff || { echo "patch fails"; exit 2; }
  go build ./... || { echo "build fails"; exit 2; }
  R2=$(rundemo); echo "demo with change: exit $R2"
  R3=$(go test -vet=off -count=1 ./... 2>&1 | grep -v "no test files" | grep -v "^ok" | head -5)
  echo "suite with change (non-ok lines): [$R3]"
  git checkout -q -- . ; git clean -fdq -e _out
  if [ "$R1" = "0" ] && [ "$R2" != "0" ] && [ -z "$R3" ]; then
    D=/verif/seeded/$ID-$M; mkdir -p $D; cp $O/patch.diff $D/; cp $O/*.sh $D/ 2>/dev/null; cp $O/*.py $D/ 2>/dev/null; cp $O/notes.md $D/notes.md
    echo "CONFIRMED -> $D"; exit 0
  else echo "NOT CONFIRMED"; tail -5 $O/.demo_out; exit 1; fi
fi
BN=$(basename $DEMO)
# intended path: first path in notes.md ending with the file name, else by package name
REL=$(grep -oE "[A-Za-z0-9_/.-]*/$BN" $O/notes.md | grep -v _out | sed "s#^/tmp/mut[0-9]*/[^/]*/##" | head -1)
[ -z "$REL" ] && { echo "cannot find intended path for $BN"; exit 2; }
DIR=$(dirname $REL)
cp $DEMO $WT/$REL
R1=$(go test -vet=off -count=1 ./$DIR/ -run 'Demo|C[0-9][0-9]|M[12]' 2>&1 | tail -3); S1=$?
echo "demo on unchanged: $(echo "$R1" | tail -1)"
git apply $O/patch.diff || { echo "patch fails"; exit 2; }
go build ./... || { echo "build fails"; exit 2; }
R2=$(go test -vet=off -count=1 ./$DIR/ -run 'Demo|C[0-9][0-9]|M[12]' 2>&1 | tail -3)
echo "demo with change: $(echo "$R2" | tail -1)"
rm $WT/$REL
R3=$(go test -vet=off -count=1 ./... 2>&1 | grep -v "no test files" | grep -v "^ok" | head -5)
echo "suite with change (non-ok lines): [$R3]"
git checkout -q -- . ; git clean -fdq -e _out
if echo "$R1" | tail -1 | grep -q "^ok" && echo "$R2" | tail -1 | grep -q "^FAIL" && [ -z "$R3" ]; then
  D=/verif/seeded/$ID-$M; mkdir -p $D; cp $O/patch.diff $D/; cp $DEMO $D/; cp $O/notes.md $D/notes.md
  echo "$REL" > $D/demo_path.txt
  echo "CONFIRMED -> $D"
else echo "NOT CONFIRMED"; exit 1; fi
