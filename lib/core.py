"""Shared machinery for the /verif checks (stdlib only).

A check is a python function `run(ctx)` in lib/props/<id>.py.  `ctx` offers:
  ctx.tlc(...)            run TLC (model check / case export / trace validation) in the scratch copy of spec/
  ctx.build_driver()      build the Go harness against /repo's *current working tree* with -tags verif
  ctx.build_cli()         build the octosql CLI from /repo's current working tree with -tags verif
  ctx.driver(...)         run the harness binary
  ctx.violation(...)      record a real-code violation (known findings are matched by signature)
  ctx.cover(...)          accumulate coverage numbers for the evidence file
Exit codes: 0 held / 1 violation (prints VIOLATION line) / 2 machinery problem (never a VIOLATION line).
"""
import hashlib
import json
import os
import re
import shutil
import signal
import subprocess
import sys
import tempfile
import time

VERIF = os.path.dirname(os.path.dirname(os.path.abspath(__file__)))
REPO = os.environ.get("VERIF_REPO", "/repo")
# where evidence/ and replays/ go: /verif, unless a mutation run (tools/run_seeds.sh) redirects them so that the committed evidence stays that of the unchanged tree
OUT = os.environ.get("VERIF_OUT", None)
JAVA_CP = "/opt/veriftools/tla/tla2tools.jar:/opt/veriftools/tla/CommunityModules-deps.jar"
GOENV = {"GOFLAGS": "-mod=mod", "GOPROXY": "off", "GOSUMDB": "off", "GOTOOLCHAIN": "local"}


class Machinery(Exception):
    """Something in the checking machinery failed (exit 2, never a violation)."""


def log(*a):
    print(*a, file=sys.stderr, flush=True)


def canon(x):
    return json.dumps(x, sort_keys=True, separators=(",", ":"))


def sha(x):
    return hashlib.sha256(canon(x).encode()).hexdigest()[:16]


class TlcResult:
    def __init__(self, rc, out, wall):
        self.rc, self.out, self.wall = rc, out, wall
        m = re.search(r"(\d+) states generated, (\d+) distinct states found", out)
        self.generated = int(m.group(1)) if m else 0
        self.distinct = int(m.group(2)) if m else 0
        m = re.search(r"The depth of the complete state graph search is (\d+)", out)
        self.depth = int(m.group(1)) if m else 0
        self.invariant = None
        m = re.search(r"Error: Invariant (\S+) is violated", out)
        if m:
            self.invariant = m.group(1)
        m2 = re.search(r"Error: Action property (\S+) is violated", out)
        if m2:
            self.invariant = m2.group(1)
        self.temporal = "Temporal properties were violated" in out
        self.deadlock = "Error: Deadlock reached" in out
        self.ok = (rc == 0 and "Model checking completed. No error has been found." in out) or \
                  (rc == 0 and "Finished in" in out and "Error:" not in out)
        self.printed = re.findall(r'^"?(?:<<)?"?VP:(.*)$', out, re.M)

    def state_trace(self):
        """Return the counterexample as list of raw state blocks (text)."""
        blocks = re.split(r"\nState \d+: ", self.out)
        return blocks[1:]


class Ctx:
    def __init__(self, prop, tier, seed, level):
        self.prop, self.tier, self.seed, self.level = prop, tier, seed, level
        self.t0 = time.time()
        self.scratch = tempfile.mkdtemp(prefix="verif_%s_" % prop)
        self.specdir = os.path.join(self.scratch, "spec")
        shutil.copytree(os.path.join(VERIF, "spec"), self.specdir)
        self.coverage = {"evaluations": 0, "distinct_nontrivial": 0, "states": 0, "transitions": 0,
                         "traces_validated_against_impl": 0, "samples": [], "rule": "", "exhaustive": False}
        self.assumptions = []
        self.violations = []      # unlisted, real-code violations
        self.known_hits = {}      # finding id -> count
        self.notes = {}
        self.findings = load_findings(prop)
        shutil.rmtree(os.path.join(OUT or VERIF, "replays", prop), ignore_errors=True)     # replay files belong to the run that wrote them
        self._driver = None
        self._cli = None
        self.workers = int(os.environ.get("VERIF_WORKERS", "0")) or min(16, os.cpu_count() or 4)

    # ---------------------------------------------------------------- processes
    def sh(self, cmd, timeout=600, env=None, cwd=None, input=None, check=False):
        e = dict(os.environ)
        e.update(GOENV)
        if env:
            e.update(env)
        p = subprocess.Popen(cmd, cwd=cwd or self.scratch, env=e, stdout=subprocess.PIPE, stderr=subprocess.STDOUT,
                             stdin=subprocess.PIPE if input is not None else subprocess.DEVNULL,
                             start_new_session=True, shell=isinstance(cmd, str))
        try:
            out, _ = p.communicate(input=input, timeout=timeout)
        except subprocess.TimeoutExpired:
            try:
                os.killpg(p.pid, signal.SIGKILL)
            except ProcessLookupError:
                pass
            p.communicate()
            raise Machinery("timeout after %ss: %s" % (timeout, cmd if isinstance(cmd, str) else " ".join(cmd)))
        out = out.decode("utf-8", "replace")
        if check and p.returncode != 0:
            raise Machinery("command failed (%d): %s\n%s" % (p.returncode, cmd, out[-4000:]))
        return p.returncode, out

    # ---------------------------------------------------------------- TLC
    def tlc(self, module, cfg_text, name=None, workers=None, simulate=None, depth=None, timeout=900,
            deadlock=False, extra=None, dfs=False, heap="12g", files=None):
        """Run TLC on spec/<module>.tla with the given cfg text in the scratch spec dir."""
        name = name or module
        cfg = os.path.join(self.specdir, name + ".cfg")
        with open(cfg, "w") as f:
            f.write(cfg_text)
        for fn, content in (files or {}).items():
            with open(os.path.join(self.specdir, fn), "w") as f:
                f.write(content)
        md = tempfile.mkdtemp(prefix="md_", dir=self.scratch)
        java = ["java", "-XX:+UseParallelGC", "-Xmx" + heap, "-Xss512m"]
        if dfs:
            java.append("-Dtlc2.tool.queue.IStateQueue=StateDeque")
        cmd = java + ["-cp", JAVA_CP, "tlc2.TLC", "-metadir", md, "-config", name + ".cfg",
                      "-workers", str(workers or self.workers), "-seed", str(self.seed), "-noGenerateSpecTE"]
        if not deadlock:
            cmd.append("-deadlock")
        if simulate:
            cmd += ["-simulate", simulate]
        if depth:
            cmd += ["-depth", str(depth)]
        cmd += (extra or []) + [module + ".tla"]
        t = time.time()
        rc, out = self.sh(cmd, timeout=timeout, cwd=self.specdir)
        shutil.rmtree(md, ignore_errors=True)
        r = TlcResult(rc, out, time.time() - t)
        with open(os.path.join(self.scratch, "tlc_%s.log" % name), "w") as f:
            f.write(out)
        if "StackOverflowError" in out or "OutOfMemoryError" in out or "Parsing or semantic analysis failed" in out \
                or "TLC threw an unexpected exception" in out and not (r.invariant or r.deadlock):
            raise Machinery("TLC failed on %s/%s:\n%s" % (module, name, out[-3000:]))
        return r

    def tlc_ok(self, *a, **kw):
        """TLC run that must complete without error (model check of the design, or case export)."""
        r = self.tlc(*a, **kw)
        if not r.ok:
            raise Machinery("TLC reported an error on the specification itself (%s):\n%s" % (a[0], r.out[-3000:]))
        return r

    def specfile(self, name):
        return os.path.join(self.specdir, name)

    def read_ndjson(self, name):
        p = name if os.path.isabs(name) else self.specfile(name)
        with open(p) as f:
            return [json.loads(l) for l in f if l.strip()]

    def write_ndjson(self, name, rows):
        p = name if os.path.isabs(name) else self.specfile(name)
        with open(p, "w") as f:
            for r in rows:
                f.write(canon(r) + "\n")
        return p

    # ---------------------------------------------------------------- Go
    def _prep_harness(self):
        h = os.path.join(VERIF, "harness")
        if REPO != "/repo":
            # a mutation run against another tree: a private copy of the harness whose go.mod points there
            hc = os.path.join(self.scratch, "harness")
            if not os.path.exists(hc):
                shutil.copytree(h, hc)
                gm = open(os.path.join(hc, "go.mod")).read().replace("github.com/cube2222/octosql => /repo", "github.com/cube2222/octosql => " + REPO)
                with open(os.path.join(hc, "go.mod"), "w") as f:
                    f.write(gm)
            h = hc
        # keep go.sum in step with the repository (offline: nothing can be fetched anyway)
        try:
            with open(os.path.join(REPO, "go.sum")) as f:
                want = f.read()
            extra = ""
            ex = os.path.join(h, "go.sum.extra")
            if os.path.exists(ex):
                extra = open(ex).read()
            cur = open(os.path.join(h, "go.sum")).read() if os.path.exists(os.path.join(h, "go.sum")) else ""
            if cur != want + extra:
                with open(os.path.join(h, "go.sum"), "w") as f:
                    f.write(want + extra)
        except OSError as e:
            raise Machinery("cannot prepare harness go.sum: %s" % e)
        return h

    def build_driver(self, race=False):
        key = "race" if race else "plain"
        if self._driver and key in self._driver:
            return self._driver[key]
        h = self._prep_harness()
        out = os.path.join(self.scratch, "driver_" + key)
        cmd = ["go", "build", "-tags", "verif", "-o", out]
        if race:
            cmd.insert(2, "-race")
        rc, o = self.sh(cmd + ["./cmd/driver"], cwd=h, timeout=900)
        if rc != 0:
            raise Machinery("harness build failed (the repository no longer builds with -tags verif, or the harness "
                            "no longer matches its API):\n" + o[-4000:])
        self._driver = self._driver or {}
        self._driver[key] = out
        return out

    def build_cli(self, race=False):
        key = "race" if race else "plain"
        if self._cli and key in self._cli:
            return self._cli[key]
        out = os.path.join(self.scratch, "octosql_" + key)
        cmd = ["go", "build", "-tags", "verif", "-o", out]
        if race:
            cmd.insert(2, "-race")
        rc, o = self.sh(cmd + ["."], cwd=REPO, timeout=900)
        if rc != 0:
            raise Machinery("octosql CLI build failed:\n" + o[-4000:])
        self._cli = self._cli or {}
        self._cli[key] = out
        return out

    def build_go(self, pkg, name, race=False):
        h = self._prep_harness()
        out = os.path.join(self.scratch, name)
        cmd = ["go", "build", "-tags", "verif", "-o", out]
        if race:
            cmd.insert(2, "-race")
        rc, o = self.sh(cmd + [pkg], cwd=h, timeout=900)
        if rc != 0:
            raise Machinery("build of %s failed:\n%s" % (pkg, o[-4000:]))
        return out

    def driver(self, sub, args=None, timeout=900, race=False, env=None, allow_fail=False):
        d = self.build_driver(race=race)
        e = {"VERIF_SEED": str(self.seed)}
        if env:
            e.update(env)
        rc, out = self.sh([d, sub] + [str(a) for a in (args or [])], timeout=timeout, env=e, cwd=self.scratch)
        if rc != 0 and not allow_fail:
            raise Machinery("driver %s failed (%d):\n%s" % (sub, rc, out[-4000:]))
        return rc, out

    # ---------------------------------------------------------------- verdicts
    def violation(self, sig, case, expected=None, observed=None, note=""):
        """A real-code observation contradicting the property.  `sig` is a dict of classification attributes
        (always with key 'site'); known findings match on it."""
        f = match_finding(self.findings, sig)
        if f is not None:
            k = f["id"]
            self.known_hits[k] = self.known_hits.get(k, 0) + 1
            return False
        rec = {"property": self.prop, "sig": sig, "case": case, "expected": expected, "observed": observed,
               "note": note, "seed": self.seed, "tier": self.tier}
        self.violations.append(rec)
        return True

    def cover(self, evaluations=0, distinct=0, states=0, transitions=0, traces=0, sample=None):
        c = self.coverage
        c["evaluations"] += evaluations
        c["distinct_nontrivial"] += distinct
        c["states"] += states
        c["transitions"] += transitions
        c["traces_validated_against_impl"] += traces
        if sample is not None and len(c["samples"]) < 6:
            c["samples"].append(sample)

    def cover_tlc(self, r):
        self.cover(states=r.distinct, transitions=r.generated)

    def finish(self):
        wall = time.time() - self.t0
        for k, n in sorted(self.known_hits.items()):
            f = [x for x in self.findings if x["id"] == k][0]
            print("KNOWN-FINDING: property=%s %s [%s, observed %d times in this run]" % (self.prop, f["what"], k, n))
        paths = []
        if self.violations:
            d = os.path.join(OUT or VERIF, "replays", self.prop)
            os.makedirs(d, exist_ok=True)
            seen = set()
            for v in self.violations:
                h = sha([v["sig"], v["case"]])
                if h in seen:
                    continue
                seen.add(h)
                p = os.path.join(d, h + ".json")
                v["replay_cmd"] = "./check %s --replay %s" % (self.prop, p)
                with open(p, "w") as f:
                    json.dump(v, f, indent=1, sort_keys=True)
                paths.append((p, v))
        cov = dict(self.coverage)
        if cov.get("states", 0) < 1:
            # no state space was explored by TLC in this run (TLC evaluated exported cases / recorded observations instead): the evidence is then
            # the generic record (evaluations, distinct_nontrivial, rule, samples), not a state count of zero
            for k in ("states", "transitions", "traces_validated_against_impl"):
                cov.pop(k, None)
        cov.update(self.notes)
        cov["known_findings_observed"] = dict(self.known_hits)
        ev = {"property_id": self.prop, "tier": self.tier, "seed": self.seed, "level": self.level,
              "coverage": cov, "assumptions": self.assumptions, "wall_s": round(wall, 2),
              "violations": len(paths)}
        os.makedirs(os.path.join(OUT or VERIF, "evidence"), exist_ok=True)
        with open(os.path.join(OUT or VERIF, "evidence", self.prop + ".json"), "w") as f:
            json.dump(ev, f, indent=1, sort_keys=True)
        # at most 5 lines, grouped by signature
        shown = set()
        for p, v in paths:
            s = canon(v["sig"])
            if s in shown:
                continue
            shown.add(s)
            if len(shown) <= 5:
                print("VIOLATION property=%s replay=%s" % (self.prop, p))
                log("  sig=%s note=%s" % (s, v.get("note", "")))
        return 1 if paths else 0

    def cleanup(self):
        if os.environ.get("VERIF_KEEP"):
            log("scratch kept at", self.scratch)
            return
        shutil.rmtree(self.scratch, ignore_errors=True)


def validate_trace(ctx, module, cfg_text, trace_file, events, is_new, files=None, max_rounds=60, max_fail=12, timeout=1200,
                   layerp=("LayerP",), dfs=False):
    """Validate concatenated traces with TLC.  The trace spec must keep `bad` (line of the first Layer-P failure, 0 if
    none) and `why` (string) variables and print drift as <<"VP:drift", l>>.  A trace whose Layer-P invariant fails is
    reported and removed, and validation continues with the rest (nothing is left unexamined).
    Returns (failures, result, drift_lines, ntraces): failures = [{"header":ev,"events":[..],"bad_index":i,"why":s}]"""
    remaining = list(events)
    failures = []
    drifts = 0
    ntr = sum(1 for e in events if is_new(e))
    r = None
    for _ in range(max_rounds):
        if not remaining:
            break
        ctx.write_ndjson(trace_file, remaining)
        r = ctx.tlc(module, cfg_text, workers=1, files=files, timeout=timeout, dfs=dfs)
        drifts = len(re.findall(r'VP:drift', r.out))
        if r.ok:
            break
        if r.invariant not in layerp:
            raise Machinery("trace validation of %s failed outside Layer P (%s):\n%s" % (module, r.invariant, r.out[-3000:]))
        m = re.findall(r"/\\ bad = (\d+)", r.out)
        bads = [int(x) for x in m if int(x) > 0]
        if not bads:
            raise Machinery("cannot locate the failing event:\n" + r.out[-2000:])
        bad = bads[-1]
        w = re.findall(r'/\\ why = "([^"]*)"', r.out)
        why = w[-1] if w else ""
        start = max(i for i in range(bad) if is_new(remaining[i]))
        end = next((i for i in range(start + 1, len(remaining)) if is_new(remaining[i])), len(remaining))
        failures.append({"header": remaining[start], "events": remaining[start + 1:end], "bad_index": bad - 2 - start, "why": why})
        remaining = remaining[:start] + remaining[end:]
        if len(failures) >= max_fail:
            ctx.notes["trace_validation_truncated"] = "stopped after %d failing traces; %d events left unvalidated" % (len(failures), len(remaining))
            break
    return failures, r, drifts, ntr


def negative_control(ctx, module, cfg_text, trace_file, events, files=None, layerp=("LayerP",)):
    """A corrupted trace must be rejected by Layer P; otherwise the binding is vacuous (machinery error)."""
    ctx.write_ndjson(trace_file, events)
    r = ctx.tlc(module, cfg_text, workers=1, files=files, timeout=600)
    if r.ok or r.invariant not in layerp:
        raise Machinery("negative control for %s was not rejected by Layer P (ok=%s inv=%s)\n%s" % (module, r.ok, r.invariant, r.out[-1500:]))
    return True


def load_findings(prop):
    p = os.path.join(VERIF, "known_findings.jsonl")
    out = []
    if os.path.exists(p):
        for l in open(p):
            l = l.strip()
            if not l or l.startswith("#"):
                continue
            f = json.loads(l)
            if f.get("property") == prop and f.get("status") == "known":
                out.append(f)
    return out


def match_finding(findings, sig):
    for f in findings:
        ok = True
        for k, want in f["match"].items():
            have = sig.get(k)
            if isinstance(want, dict) and "re" in want:
                if have is None or not re.search(want["re"], str(have)):
                    ok = False
            elif isinstance(want, list):
                if have not in want:
                    ok = False
            elif have != want:
                ok = False
            if not ok:
                break
        if ok:
            return f
    return None


def main(argv):
    import importlib
    if len(argv) < 2:
        print("usage: check <Cxx> quick|thorough | check <Cxx> --replay <path>")
        return 2
    prop = argv[1]
    tier = "quick"
    replay = None
    rest = argv[2:]
    while rest:
        a = rest.pop(0)
        if a in ("quick", "thorough"):
            tier = a
        elif a == "--replay":
            replay = rest.pop(0)
    tier = os.environ.get("VERIF_TIER", tier) if len(argv) < 3 else tier
    seed = int(os.environ.get("VERIF_SEED", "1") or 1)
    sys.path.insert(0, os.path.join(VERIF, "lib"))
    try:
        mod = importlib.import_module("props." + prop.lower())
    except ImportError as e:
        print("no check for %s: %s" % (prop, e))
        return 2
    ctx = Ctx(prop, tier, seed, mod.LEVEL)
    # one process group per check, bounded address space is not set: the JVM reserves virtual memory eagerly
    try:
        if replay:
            with open(replay) as f:
                rc = mod.replay(ctx, json.load(f))
            return rc
        mod.run(ctx)
        return ctx.finish()
    except Machinery as e:
        log("MACHINERY: %s" % e)
        return 2
    finally:
        ctx.cleanup()
