"""C25 — CSV and JSON output faithfully encode results (OutputFormat.tla).
TLC generates typed result rows under its seed (extreme ints, float literals incl. denormals / 2^63 / 2^64, strings over a token catalogue with
every control character, quotes, separators, JSON look-alikes, 2/3/4-byte and non-printable runes, nested lists / objects / tuples, nullable and
mixed unions) together with the JSON document / CSV fields the line must decode to (JsonView / CsvView).  The rows are pushed through the real
formats.JSONFormatter and formats.CSVFormatter in-process and, where a file can carry the values, through the real binary (-o json, -o csv);
the bytes are decoded by strict decoders (Python json with exact number tokens; an RFC 4180 state machine on bytes) and compared with the view."""
import base64
import json
import os
import random
from decimal import Decimal

import cli as climod
import core

LEVEL = "exploration"
CFG = "INIT Init\nNEXT Next\nCONSTANTS N = %d\n Depth = %d\n"
TOK = {"a": "a", "Z": "Z", "0": "0", "SP": " ", "QUOTE": '"', "APOS": "'", "COMMA": ",", "SEMI": ";", "NL": "\n", "CR": "\r", "TAB": "\t", "NUL": "\x00", "BEL": "\x07",
       "VT": "\x0b", "FF": "\x0c", "BKSP": "\x08", "ESC": "\x1b", "US": "\x1f", "BSLASH": "\\", "SLASH": "/", "DEL": "\x7f", "LT": "<", "AMP": "&", "LBRACE": "{",
       "RBRACK": "]", "COLON": ":", "HASH": "#", "NBSP": " ", "SHY": "­", "U2028": " ", "BOM": "﻿", "EACUTE": "é", "EURO": "€",
       "SMILE": "\U0001F600", "PUA": "", "PUA2": "\U000f0000", "wNULL": "null", "wTRUE": "true", "wONE": "1", "wFLOAT": "1.5", "wNAN": "NaN"}
BAD = {"XFF": b"\xff", "XC3": b"\xc3"}


def sbytes(toks):
    return b"".join(BAD[t] if t in BAD else TOK[t].encode("utf-8") for t in toks)


def intval(v):
    if "big" in v:
        return -2 ** 63 if v["big"] == "min64" else 2 ** 63 - 1
    if "hi" in v:
        return v["hi"] * 2 ** 32 + v["lo"]
    return v["i"]


def conc(v):
    """abstract value for the driver: strings as raw bytes"""
    t = v["t"]
    if t == "str":
        return {"t": "str", "b64": base64.b64encode(sbytes(v["toks"])).decode()}
    for k in ("l", "o", "tu"):
        if k in v:
            return {"t": t, k: [conc(x) for x in v[k]]}
    return v


def shown(v):
    t = v["t"]
    if t == "str":
        return sbytes(v["toks"]).decode("utf-8", "backslashreplace")
    if t == "int":
        return intval(v)
    if t == "float":
        return "float " + v["lit"]
    if t == "fsp":
        return "float " + v["s"]
    if t == "null":
        return None
    for k in ("l", "o", "tu"):
        if k in v:
            return {t: [shown(x) for x in v[k]]}
    return v


class Num(str):
    pass


def jloads(line):
    return json.loads(line, parse_float=Num, parse_int=Num, parse_constant=lambda c: (_ for _ in ()).throw(ValueError("constant " + c)), object_pairs_hook=lambda p: ("obj", p))


def jmatch(view, got):
    """None if the decoded JSON value matches the view, else a reason"""
    j = view["j"]
    if j == "null":
        return None if got is None else "expected null"
    if j == "int":
        if not isinstance(got, Num):
            return "expected a number"
        return None if Decimal(str(got)) == Decimal(intval(view["v"])) else "integer %s decodes to %s" % (intval(view["v"]), got)
    if j == "num":
        if not isinstance(got, Num):
            return "expected a number"
        return None if float(got) == float(view["lit"]) else "float %s decodes to %s" % (view["lit"], got)
    if j == "bool":
        return None if got is view["b"] else "expected %s" % view["b"]
    if j == "str":
        if not isinstance(got, str) or isinstance(got, Num):
            return "expected a string"
        return None if got.encode("utf-8", "surrogatepass") == sbytes(view["toks"]) else "string differs: %r" % got
    if j == "anystring":
        return None if isinstance(got, str) and not isinstance(got, Num) else "expected a string"
    if j == "arr":
        if not isinstance(got, list) or len(got) != len(view["l"]):
            return "expected an array of %d" % len(view["l"])
        for v, g in zip(view["l"], got):
            w = jmatch(v, g)
            if w:
                return w
        return None
    if j == "obj":
        if not (isinstance(got, tuple) and got[0] == "obj"):
            return "expected an object"
        pairs = got[1]
        if sorted(k for k, _ in pairs) != sorted(view["names"]):
            return "object keys %s, expected %s" % ([k for k, _ in pairs], view["names"])
        d = dict(pairs)
        for n, v in zip(view["names"], view["l"]):
            w = jmatch(v, d[n])
            if w:
                return w
        return None
    if j == "nonfinite":
        return None  # any valid JSON
    raise core.Machinery("unknown view " + j)


def csv_records(data):
    """RFC 4180 on bytes: records of fields (bytes); None when malformed"""
    recs, rec, field, i, n, quoted, any_ = [], [], bytearray(), 0, len(data), False, False
    while i < n:
        c = data[i:i + 1]
        if quoted:
            if c == b'"':
                if data[i + 1:i + 2] == b'"':
                    field += b'"'
                    i += 2
                    continue
                quoted = False
                i += 1
                if i < n and data[i:i + 1] not in (b",", b"\n", b"\r"):
                    return None
                continue
            field += c
            i += 1
            continue
        if c == b'"':
            if len(field) > 0:
                return None
            quoted, any_ = True, True
        elif c == b",":
            rec.append(bytes(field))
            field = bytearray()
            any_ = True
        elif c == b"\n" or (c == b"\r" and data[i + 1:i + 2] == b"\n"):
            if c == b"\r":
                i += 1
            rec.append(bytes(field))
            recs.append(rec)  # RFC 4180: an empty line is a record with one empty field
            rec, field, any_ = [], bytearray(), False
        else:
            field += c
            any_ = True
        i += 1
    if quoted:
        return None
    if any_ or len(field) or rec:
        rec.append(bytes(field))
        recs.append(rec)
    return recs


def cmatch(view, got):
    c = view["c"]
    if c == "empty":
        return None if got == b"" else "NULL must be an empty field, got %r" % got
    if c == "int":
        try:
            return None if Decimal(got.decode()) == Decimal(intval(view["v"])) else "integer %s printed as %r" % (intval(view["v"]), got)
        except Exception:
            return "not a number: %r" % got
    if c == "num":
        try:
            return None if float(got.decode()) == float(view["lit"]) else "float %s printed as %r" % (view["lit"], got)
        except Exception:
            return "not a number: %r" % got
    if c == "text":
        return None if got == view["text"].encode() else "expected %s, got %r" % (view["text"], got)
    if c == "str":
        return None if got == sbytes(view["toks"]) else "string differs: %r" % got
    if c in ("anytext", "nonfinite"):
        return None
    raise core.Machinery("unknown view " + c)


def features(case, k, r=0):
    v = case["rows"][r][k]
    toks = []

    def walk(x):
        if x["t"] == "str":
            toks.extend(x["toks"])
        for kk in ("l", "o", "tu"):
            for y in x.get(kk, []):
                walk(y)
    walk(v)
    special = sorted(set(t for t in toks if t not in ("a", "Z", "0", "SP", "wNULL", "wTRUE", "wONE", "wFLOAT", "wNAN", "EACUTE", "EURO")))
    return {"kind": v["t"], "column_type": case["cols"][k]["ty"]["k"], "tokens": special[:4], "lit": v.get("lit", v.get("s", "")) if v["t"] in ("float", "fsp") else "",
            "big": v["t"] == "int" and abs(intval(v)) >= 2 ** 53}


def check_json(ctx, case, data, site, extra=None):
    """data: bytes written for case["rows"]"""
    n = 0
    nrows = len(case["rows"])
    allvals = [v for row in case["rows"] for v in row]
    lines = data.split(b"\n")
    if lines[-1] != b"":
        ctx.violation({"site": site, "why": "no trailing newline"}, {"rows": [[shown(v) for v in row] for row in case["rows"]]}, expected="one line per row", observed=repr(data[-80:]), note="JSON output not newline-terminated")
        return 0
    lines = lines[:-1]
    nonplain = case["class"] != "plain"
    first_bad = None
    if len(lines) != nrows:
        first_bad = (0, "%d lines for %d rows" % (len(lines), nrows), data, 0)
    else:
        for r, line in enumerate(lines):
            try:
                doc = jloads(line.decode("utf-8"))
            except Exception as ex:
                first_bad = (0, "line is not valid JSON (%s)" % str(ex)[:60], line, r)
                break
            if not (isinstance(doc, tuple) and doc[0] == "obj"):
                first_bad = (0, "line is not a JSON object", line, r)
                break
            pairs = doc[1]
            names = [c["name"] for c in case["cols"]]
            if [k for k, _ in pairs] != names:
                first_bad = (0, "keys %s, expected %s" % ([k for k, _ in pairs], names), line, r)
                break
            if case["class"] == "badstr":
                continue  # no JSON string can carry invalid UTF-8: only validity is required
            for k, (view, (_, got)) in enumerate(zip(case["json"][r], pairs)):
                why = jmatch(view, got)
                if why:
                    first_bad = (k, why, line, r)
                    break
            if first_bad:
                break
            n += 1
    if first_bad:
        k, why, line, r = first_bad
        vals = case["rows"][r]
        # attribute an invalid line to the column that carries the unusual value
        if "valid JSON" in why or "lines for" in why:
            risky = {"NUL", "BEL", "VT", "FF", "BKSP", "ESC", "US", "DEL", "PUA2", "XFF", "XC3", "NL", "CR", "TAB"}
            cands = [i for i in range(len(vals)) if risky & set(features(case, i, r)["tokens"]) or (vals[i]["t"] == "fsp" and vals[i]["s"] not in ("+0", "-0"))]
            cands = cands or [i for i in range(len(vals)) if features(case, i, r)["tokens"]]
            k = cands[0] if cands else 0
        sig = dict({"site": site, "format": "json", "class": case["class"], "why": why.split(" (")[0].split(":")[0][:40], "row": "first" if r == 0 else "later"}, **features(case, k, r))
        sig.update(extra or {})
        ctx.violation(sig, {"cols": case["cols"], "rows": [[shown(v) for v in row] for row in case["rows"]], "failing_row": r}, expected=case["json"][r],
                      observed=line.decode("utf-8", "backslashreplace")[:600], note="-o json: " + why)
    return n


def check_csv(ctx, case, data, site, extra=None):
    recs = csv_records(data)
    nrows = len(case["rows"])
    names = [c["name"].encode() for c in case["cols"]]
    why, k, r = None, 0, 0
    if recs is None:
        why = "output is not well-formed CSV"
    elif len(recs) != nrows + 1:
        why = "%d records for a header and %d rows" % (len(recs), nrows)
    elif recs[0] != names:
        why = "header %s" % recs[0]
    else:
        for r, rec in enumerate(recs[1:]):
            if len(rec) != len(names):
                why = "record has %d fields, expected %d" % (len(rec), len(names))
                break
            for k, (view, got) in enumerate(zip(case["csv"][r], rec)):
                why = cmatch(view, got)
                if why:
                    break
            if why:
                break
    if why:
        r = min(r, nrows - 1)
        sig = dict({"site": site, "format": "csv", "class": case["class"], "why": why.split(":")[0][:40], "row": "first" if r == 0 else "later"}, **features(case, k, r))
        sig.update(extra or {})
        ctx.violation(sig, {"cols": case["cols"], "rows": [[shown(v) for v in row] for row in case["rows"]], "failing_row": r}, expected=case["csv"][r],
                      observed=data.decode("utf-8", "backslashreplace")[:600], note="-o csv: " + why)
        return 0
    return nrows


def consistent(case):
    """the exported views talk about the exported values (guards against a generator that draws twice)"""
    def ok(v, w):
        if v["t"] == "str":
            return w["j"] == "str" and w["toks"] == v["toks"]
        if v["t"] == "list":
            return w["j"] == "arr" and len(w["l"]) == len(v["l"]) and all(ok(a, b) for a, b in zip(v["l"], w["l"]))
        if v["t"] == "tuple":
            return w["j"] == "arr" and all(ok(a, b) for a, b in zip(v["tu"], w["l"]))
        if v["t"] == "obj":
            return w["j"] == "obj" and all(ok(a, b) for a, b in zip(v["o"], w["l"]))
        if v["t"] == "int":
            return w["j"] == "int" and w["v"] == v
        if v["t"] == "float":
            return w["j"] == "num" and w["lit"] == v["lit"]
        return True
    return all(len(vals) == len(views) == len(case["cols"]) and all(ok(v, w) for v, w in zip(vals, views)) for vals, views in zip(case["rows"], case["json"]))


# ------------------------------------------------------------------ values that a file can carry into the CLI
def json_src(v):
    """the JSON source text of a value, or None when a JSON file cannot carry it (Int, Time, Duration, tuple, special floats)"""
    t = v["t"]
    if t == "null":
        return "null"
    if t == "float":
        return v["lit"]
    if t == "bool":
        return "true" if v["b"] else "false"
    if t == "str":
        return json.dumps(sbytes(v["toks"]).decode("utf-8"))
    if t == "list":
        parts = [json_src(x) for x in v["l"]]
        return None if None in parts or not parts else "[" + ",".join(parts) + "]"
    return None


def run(ctx):
    thorough = ctx.tier == "thorough"
    rng = random.Random(ctx.seed)
    n = 40000 if thorough else 2500
    ctx.tlc_ok("OutputFormat", CFG % (n, 2), workers=1, timeout=3000, heap="8g")
    cases = ctx.read_ndjson("c25_cases.ndjson")
    for c in cases:     # a single generated row is written once or twice (buffers are reused between rows)
        reps = 1 + (c["id"] % 3 == 0)
        c["rows"], c["json"], c["csv"] = [c["vals"]] * reps, [c["json"]] * reps, [c["csv"]] * reps
    batches = ctx.read_ndjson("c25_batches.ndjson")
    for b in batches:
        b["id"] = "b%d" % b["id"]
    single = cases
    cases = cases + batches
    bad = [c["id"] for c in cases if not consistent(c)]
    if bad:
        raise core.Machinery("OutputFormat export inconsistent for cases %s" % bad[:5])
    # ---------------- in-process: the real formatters ----------------
    q = []
    for c in cases:
        q.append({"id": c["id"], "cols": c["cols"], "rows": [[conc(v) for v in row] for row in c["rows"]], "csv": c["csvok"]})
    inp, out = ctx.scratch + "/c25_q.ndjson", ctx.scratch + "/c25_r.ndjson"
    ctx.write_ndjson(inp, q)
    ctx.driver("fmt-run", ["-in", inp, "-out", out], timeout=3000)
    res = ctx.read_ndjson(out)
    okj = okc = 0
    for c, qq, x in zip(cases, q, res):
        if x["json_err"]:
            ctx.violation(dict({"site": "formats.JSONFormatter", "format": "json", "why": "panic"}, **features(c, 0)), {"cols": c["cols"], "rows": [[shown(v) for v in row] for row in c["rows"]]},
                          expected=c["json"], observed=x["json_err"], note="JSON formatter panicked / failed")
        else:
            okj += check_json(ctx, c, base64.b64decode(x["json"]), "formats.JSONFormatter")
        if c["csvok"]:
            if x["csv_err"]:
                ctx.violation(dict({"site": "formats.CSVFormatter", "format": "csv", "why": "panic"}, **features(c, 0)), {"cols": c["cols"], "rows": [[shown(v) for v in row] for row in c["rows"]]},
                              expected=c["csv"], observed=x["csv_err"], note="CSV formatter panicked / failed")
            else:
                okc += check_csv(ctx, c, base64.b64decode(x["csv"]), "formats.CSVFormatter")
    # ---------------- the real binary: rows carried by JSON / CSV input files ----------------
    cli = climod.Cli(ctx)
    d = os.path.join(ctx.scratch, "c25")
    os.makedirs(d)
    jobs, meta = [], []
    want = 1500 if thorough else 160
    order = single[:]
    mixed = []
    for i, c in enumerate(order):      # interleave batches with the single rows
        mixed.append(c)
        if i % 3 == 0 and i // 3 < len(batches):
            mixed.append(batches[i // 3])
    for c in mixed:
        if len(jobs) >= 2 * want:
            break
        if c["class"] != "plain":
            continue
        multi = "vals" not in c
        rows = c["rows"] if multi else [c["vals"]]
        one = c if multi else dict(c, rows=rows, json=c["json"][:1], csv=c["csv"][:1])
        srcs = [[json_src(v) for v in row] for row in rows]
        names = [col["name"] for col in c["cols"]]
        if all(None not in r for r in srcs) and all(any(row[k]["t"] != "null" for row in rows) for k in range(len(names))):
            p = os.path.join(d, "j%s.json" % c["id"])
            with open(p, "w", encoding="utf-8") as f:
                for r in srcs:
                    f.write("{" + ",".join('"%s":%s' % (nm, s) for nm, s in zip(names, r)) + "}\n")
            for fmt in (["json"] + (["csv"] if c["csvok"] else [])):
                jobs.append({"args": ["SELECT %s FROM %s t" % (", ".join("t." + nm for nm in names), os.path.basename(p)), "-o", fmt], "cwd": d, "raw": True})
                meta.append((one, fmt, "json file"))
        elif not multi and all(v["t"] in ("int", "float") for v in c["vals"]):
            p = os.path.join(d, "c%s.csv" % c["id"])
            with open(p, "w") as f:
                f.write(",".join(names) + "\n" + ",".join(str(intval(v)) if v["t"] == "int" else v["lit"] for v in c["vals"]) + "\n")
            for fmt in ("json", "csv"):
                jobs.append({"args": ["SELECT %s FROM %s t" % (", ".join("t." + nm for nm in names), os.path.basename(p)), "-o", fmt], "cwd": d, "raw": True})
                meta.append((one, fmt, "csv file"))
    ncli = 0
    for (c, fmt, src), (rc, o, err) in zip(meta, cli.run_many(jobs)):
        if climod.panicked(err) or rc != 0:
            ctx.violation(dict({"site": "cli", "format": fmt, "why": "panic" if climod.panicked(err) else "error"}, **features(c, 0)), {"rows": [[shown(v) for v in row] for row in c["rows"]], "source": src},
                          expected="the rows", observed=err[-400:], note="octosql failed to print a row read from a %s" % src)
            continue
        # a value read from a CSV file as Int/Float keeps its kind; a whole-number float literal in a CSV cell is read as Int: same number either way
        ncli += (check_json if fmt == "json" else check_csv)(ctx, c, o, "cli -o " + fmt, {"source": src})
    # evaluations = rows handed to a formatter (or printed by the binary) and decoded; distinct_nontrivial = those whose decoded output equalled the view
    nattempt = sum(len(c["rows"]) * (2 if c["csvok"] else 1) for c in cases) + sum(len(m[0]["rows"]) for m in meta)
    ctx.cover(evaluations=nattempt, distinct=okj + okc + ncli, sample={"cols": cases[1]["cols"], "row": [shown(v) for v in cases[1]["rows"][0]], "json_view": cases[1]["json"][0]})
    ctx.notes.update({"rows_generated": len(single), "batches_generated": len(batches), "json_rows_decoded_equal": okj, "csv_rows_decoded_equal": okc, "cli_runs": len(jobs), "cli_rows_decoded_equal": ncli,
                      "classes": {k: sum(1 for c in cases if c["class"] == k) for k in ("plain", "nonfinite", "badstr")}})
    ctx.coverage["exhaustive"] = False
    ctx.coverage["rule"] = ("rows generated by OutputFormat.tla under the TLC seed (41 string tokens incl. all C0 controls classes, DEL, quotes, separators, JSON look-alikes, "
                            "non-printable and astral runes; 15 ints incl. +-2^53(+1), min/max int64; 33 float literals incl. denormals, 2^63, 2^64, MaxFloat64; nested "
                            "lists/objects/tuples to depth 2; nullable/mixed unions) through both real formatters in-process, and through the binary for rows a JSON / "
                            "CSV input file can carry. distinct_nontrivial = rows whose decoded output equalled the view")
    ctx.assumptions += ["times and durations are only required to be JSON strings / some text (the statement does not pin their text)",
                        "strings that are not valid UTF-8 have no JSON encoding: the JSON line must be valid JSON, the CSV field must keep the bytes",
                        "two different object (or list) shapes never meet in one union type (the datasources merge such shapes)"]


def replay(ctx, rec):
    print(json.dumps(rec, indent=1))
    return 0
