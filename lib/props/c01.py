"""C01 — single-source SELECT results match relational semantics (Relational.tla, family "single")."""
import json
import props.rel as rel

LEVEL = "exploration"     # cases are drawn from the specification under the TLC seed (a sample of a large space), expected results computed by TLC


def run(ctx):
    n = 40000 if ctx.tier == "thorough" else 1500
    cases, res = rel.run_family(ctx, "single", n, "C01", "query")
    rel.judge(ctx, cases, res, "C01", "select", modes=("o",))
    ctx.coverage["exhaustive"] = False
    ctx.coverage["rule"] = ("TLC draws (query, table) pairs under its seed: 9 WHERE predicates x 7 projections x DISTINCT x 5 ORDER BY shapes on output columns x LIMIT "
                            "in {none,0,1,2,3} x FROM in {table, 5 subqueries (filter, DISTINCT, ORDER BY+LIMIT, expression), the same as WITH}, tables of 0..4 rows over "
                            "a in {NULL,0,1}, b in {NULL,'x','y'}, c in {1,2}; the expected result is a sequence of tie groups (any order inside a group; any n rows when "
                            "LIMIT cuts an undetermined order). distinct_nontrivial = cases with a non-empty input accepted by the typechecker")
    ctx.assumptions += ["queries are rendered by Relational.tla itself (RenderQ); the in-process engine mirrors cmd/root.go's csv/json branch"]


def replay(ctx, rec):
    print(json.dumps(rec, indent=1))
    return 0
