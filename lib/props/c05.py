"""C05 — LIMIT and ORDER BY behave identically in every output mode and nesting.
Relational.tla family "limit" (exhaustive: all tables of <= 4 rows over 3 distinct rows with duplicates x LIMIT 0..4 x 4 ORDER BY shapes
x {top level, subquery in FROM}; a seeded sample in the quick tier) gives the expected tie groups; the real octosql binary prints each
case in live_table, batch_table, csv, json and stream_native, the output is decoded and compared; the in-process engine runs the full
family."""
import json
import os

import cli as climod
import core
import props.rel as rel

LEVEL = "exploration"     # cases are drawn from the specification under the TLC seed (a sample of a large space), expected results computed by TLC
MODES = ["live_table", "batch_table", "csv", "json", "stream_native"]


def run(ctx):
    thorough = ctx.tier == "thorough"
    # engine: the whole family (3 630 x 121 ... ) or a sample
    cases, res = rel.run_family(ctx, "limit", 0 if thorough else 3000, "C05", "limit")
    rel.judge(ctx, cases, res, "C05", "limit", modes=("o", "n"))
    # nested ORDER BY + LIMIT over retracting sources
    cases2, res2 = rel.run_family(ctx, "grouplimit", 3000 if thorough else 800, "C05", "limit")
    rel.judge(ctx, cases2, res2, "C05", "limit", modes=("o", "n"))
    # CLI: every output mode
    import random
    rng = random.Random(ctx.seed)
    sample = cases if thorough and len(cases) <= 4000 else rng.sample(cases, min(len(cases), 4000 if thorough else 160))
    cli = climod.Cli(ctx)
    jobs, meta = [], []
    for i, c in enumerate(sample):
        d = os.path.join(ctx.scratch, "c05_%d" % i)
        os.makedirs(d)
        climod.write_csv(os.path.join(d, "t.csv"), c["db"]["t"]["cols"], c["db"]["t"]["rows"])
        sql = c["sql"].replace("mem.t t", "t.csv t")
        for mode in MODES:
            jobs.append({"args": [sql, "-o", mode], "cwd": d})
            meta.append((c, mode, sql))
    outs = cli.run_many(jobs)
    nrun = 0
    for (c, mode, sql), (rc, out, err) in zip(meta, outs):
        nrun += 1
        sig = dict({"site": "cli", "mode": mode}, **rel.features(c["sql"]))
        shown = {"sql": sql, "mode": mode, "t.csv": c["db"]["t"]["rows"]}
        if climod.panicked(err) or rc not in (0, 1):
            ctx.violation(dict(sig, why="crash"), shown, observed=err[-400:], note="process crashed")
            continue
        if rc != 0:
            ctx.violation(dict(sig, why="error"), shown, observed=err[-300:], note="query failed")
            continue
        cols = ["a", "c"]
        if mode == "json":
            rows = climod.parse_json(out, cols)
        elif mode == "csv":
            rows = climod.parse_csv(out, cols)
        elif mode == "stream_native":
            rows, _ = climod.parse_native(out, 2)
        else:
            rows = climod.parse_table(out, cols)
        exp = dict(c, groups=[[climod.expected_cells(r) for r in g] for g in c["groups"]], all=[climod.expected_cells(r) for r in c["all"]])
        why = rel.compare(exp, rows)
        if why is not None:
            ctx.violation(dict(sig, why=why.split(",")[0][:30]), shown, expected={"groups": exp["groups"], "n": c["n"], "any_of": exp["all"] if c["sub"] else None}, observed=rows,
                          note="%s output: %s" % (mode, why))
    ctx.cover(evaluations=nrun, distinct=len(sample))
    ctx.notes["cli"] = {"cases": len(sample), "runs": nrun, "modes": MODES}
    ctx.coverage["exhaustive"] = thorough
    ctx.coverage["rule"] = ("family 'limit' of RelCases.tla: tables = all sequences of <= 4 rows over {(0,x,1),(1,x,1),(NULL,y,2)} (121), LIMIT 0..4, ORDER BY in {none, a ASC, "
                            "a DESC, (c DESC, a ASC)}, top level or as a subquery in FROM = 4 840 cases; engine: all (thorough) or 3 000 sampled; CLI: each sampled case "
                            "in 5 output modes. distinct_nontrivial counts cases")


def replay(ctx, rec):
    print(json.dumps(rec, indent=1))
    return 0
