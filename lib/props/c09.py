"""C09 — value ordering, equality and hashing agree (Values.tla / ValuesCheck.tla).
TLC exports the value universe U; the harness materialises it and records Value.Compare for every ordered pair, Value.Equal,
hash classes, and the number of distinct values the operators (Distinct, hash and btree group by, COUNT(DISTINCT)) see in
multisets drawn from U; TLC evaluates the laws on those observations (all triples for transitivity) and writes every violated
instance."""
import json
import core

LEVEL = "model_checking"
CFG = 'INIT Init\nNEXT Next\nCONSTANT Mode = "%s"\n'


def classify(v):
    def kinds(x):
        out = set()
        if x.get("t") == "fsp":
            out.add(x["s"])
        for k in ("l", "o", "tu"):
            for y in x.get(k, []):
                out |= kinds(y)
        return out
    ks = set()
    for x in v.get("vals", []):
        if isinstance(x, dict):
            ks |= kinds(x)
    law = v["law"].split(":")[0]
    return {"site": "octosql.Value", "law": law, "nan": "nan" in ks, "negzero": "-0" in ks}


def run(ctx):
    r = ctx.tlc_ok("ValuesCheck", CFG % "export", workers=1, timeout=900)
    obs = ctx.scratch + "/c09_obs.ndjson"
    ctx.driver("val-obs", ["-in", ctx.specfile("c09_universe.ndjson"), "-out", obs, "-subsets", 20000 if ctx.tier == "thorough" else 400, "-seed", ctx.seed])
    import shutil
    shutil.copy(obs, ctx.specfile("c09_obs.ndjson"))
    r2 = ctx.tlc_ok("ValuesCheck", CFG % "check", workers=1, timeout=3000, heap="16g")
    nobs = sum(1 for _ in open(obs))
    viol = ctx.read_ndjson("c09_viol.ndjson")
    uni_by_id = {u["id"]: u["v"] for u in ctx.read_ndjson("c09_universe.ndjson")}
    for v in viol:
        ctx.violation(classify(v), {"law": v["law"], "values": v["vals"], "ids": v.get("ids"), "id_values": [uni_by_id[i] for i in v.get("ids", [])]}, expected=v["law"], observed="violated on the real octosql.Value for these values", note=v["law"])
    uni = ctx.read_ndjson("c09_universe.ndjson")
    n = len(uni)
    ctx.cover(evaluations=nobs, distinct=n * n, sample={"universe_size": n, "example_values": [u["v"] for u in uni[::11]]})
    # negative control: flip one comparison result -> antisymmetry must be reported
    lines = [json.loads(l) for l in open(obs)]
    lines[0]["c"][1] = -lines[0]["c"][1] if lines[0]["c"][1] != 0 else 1
    ctx.write_ndjson("c09_obs.ndjson", lines)
    ctx.tlc_ok("ValuesCheck", CFG % "check", workers=1, timeout=3000, heap="16g")
    if not ctx.read_ndjson("c09_viol.ndjson"):
        raise core.Machinery("negative control: corrupted comparison matrix not reported")
    ctx.notes.update({"universe": n, "triples_checked_for_transitivity": n ** 3, "observations": nobs, "negative_control_rejected": True,
                      "violated_law_instances": len(viol)})
    ctx.coverage["exhaustive"] = True
    ctx.coverage["rule"] = ("U = %d abstract values (NULL; ints incl. Min/MaxInt64; floats incl. -0, NaN, +-Inf; booleans; strings incl. case pairs, prefixes, "
                            "multibyte; times; durations; lists/objects/tuples to depth 2 incl. empty and prefix-related ones). Every ordered pair is compared "
                            "by the real Value.Compare/Equal, every value hashed; TLC checks reflexivity, antisymmetry, transitivity over all triples, "
                            "equal => same hash, agreement with the documented order where pinned, and that Distinct / hash group by / btree group by / "
                            "COUNT(DISTINCT) see as many distinct values as Compare has classes on all pairs and seeded multisets. "
                            "distinct_nontrivial = ordered pairs" % n)
    ctx.assumptions += ["the position of NaN in the order is not pinned by the documentation; laws (preorder, hash) still apply to it"]


def replay(ctx, rec):
    print(json.dumps(rec, indent=1))
    return 0
