"""C28 — installed plugins are discovered and versions resolved correctly (PluginVersions.tla).
TLC generates, under its seed, trees of installed plugins (names with 0..3 dashes, two repositories, multi-digit version components, releases next
to their prereleases), configured databases with version constraints, manifests and install requests, each with the expectation computed by the
specification (Discover / Resolve / Select).  The real code is observed three ways: PluginManager.ListInstalledPlugins in-process over the
materialised tree; the binary's start-up resolution (octosql.yml + dummy plugin executables that record which version directory was started);
`octosql plugin install` against a loopback HTTP repository (manifest in shuffled order), observing which version directory appears."""
import http.server
import io
import json
import os
import random
import tarfile
import threading

import cli as climod
import core

LEVEL = "exploration"     # cases are drawn from the specification under the TLC seed (a sample of a large space), expected results computed by TLC
CFG = "INIT Init\nNEXT Next\nCONSTANTS N = %d\n"
SCRIPT = "#!/bin/sh\necho \"$0\" >> \"$VERIF_MARKER\"\nexit 1\n"


def build_tree(root, tree):
    for p in tree:
        full = "octosql-plugin-" + p["name"]
        for v in p["versions"]:
            d = os.path.join(root, p["repo"], full, v)
            os.makedirs(d, exist_ok=True)
            f = os.path.join(d, full)
            with open(f, "w") as fh:
                fh.write(SCRIPT)
            os.chmod(f, 0o755)


def serve(directory):
    class H(http.server.SimpleHTTPRequestHandler):
        def __init__(self, *a, **kw):
            super().__init__(*a, directory=directory, **kw)

        def log_message(self, *a):
            pass
    srv = http.server.ThreadingHTTPServer(("127.0.0.1", 0), H)
    threading.Thread(target=srv.serve_forever, daemon=True).start()
    return srv


def home_env(h, extra=None):
    e = {"HOME": h, "XDG_CONFIG_HOME": h + "/.config", "XDG_DATA_HOME": h + "/.data", "XDG_CACHE_HOME": h + "/.cache"}
    e.update(extra or {})
    return e


def name_class(n):
    return {"dashes": n.count("-"), "has_prefix": n.startswith("octosql-plugin-"), "trailing_dash": n.endswith("-")}


def vclass(vs):
    return {"multi_digit": any(len(x) > 1 for v in vs for x in v.split("-")[0].split(".")), "prerelease": any("-" in v for v in vs), "n": len(vs)}


def run(ctx):
    thorough = ctx.tier == "thorough"
    rng = random.Random(ctx.seed)
    n = 20000 if thorough else 600
    ctx.tlc_ok("PluginCases", CFG % n, workers=1, timeout=3000, heap="8g")
    cases = ctx.read_ndjson("c28_cases.ndjson")
    root = os.path.join(ctx.scratch, "c28")
    os.makedirs(root)
    # ---------------- (a) discovery, in-process ----------------
    q = []
    for c in cases:
        c["dir"] = os.path.join(root, "t%d" % c["id"])
        build_tree(c["dir"], c["tree"])
        q.append({"id": c["id"], "dir": c["dir"]})
    inp, out = ctx.scratch + "/c28_q.ndjson", ctx.scratch + "/c28_r.ndjson"
    ctx.write_ndjson(inp, q)
    ctx.driver("plugin-list", ["-in", inp, "-out", out], timeout=3000)
    okd = 0
    for c, x in zip(cases, ctx.read_ndjson(out)):
        want = {(p["repo"], p["name"]): p["versions"] for p in c["tree"]}
        if x["err"]:
            ctx.violation({"site": "PluginManager.ListInstalledPlugins", "why": "error"}, {"tree": c["tree"]}, expected=c["tree"], observed=x["err"], note="listing the installed plugins failed")
            continue
        got = {(p["repo"], p["name"]): p["versions"] for p in x["plugins"]}
        if len(got) != len(x["plugins"]) or set(got) != set(want):
            miss = sorted(set(want) - set(got))
            nm = miss[0][1] if miss else ""
            ctx.violation(dict({"site": "PluginManager.ListInstalledPlugins", "why": "plugin names differ"}, **name_class(nm)), {"tree": c["tree"]}, expected=sorted(want), observed=[[p["repo"], p["name"]] for p in x["plugins"]],
                          note="a plugin is not discovered under the name it was installed with")
            continue
        bad = [k for k in want if got[k] != want[k]]
        if bad:
            ctx.violation(dict({"site": "PluginManager.ListInstalledPlugins", "why": "version order"}, **vclass(want[bad[0]])), {"tree": c["tree"]}, expected=want[bad[0]], observed=got[bad[0]],
                          note="installed versions are not listed highest first")
            continue
        okd += 1
    # ---------------- (b) start-up resolution through the binary ----------------
    cli = climod.Cli(ctx)
    sample = cases[: (1500 if thorough else 120)]
    jobs, meta = [], []
    for c in sample:
        h = os.path.join(root, "h%d" % c["id"])
        os.makedirs(os.path.join(h, ".octosql"))
        with open(os.path.join(h, ".octosql", "octosql.yml"), "w") as f:
            f.write("databases:\n")
            for d in c["dbs"]:
                f.write("  - name: %s\n    type: %s/%s\n" % (d["name"], d["repo"], d["plugin"]))
                if d["constraint"]:
                    f.write("    version: \"%s\"\n" % d["constraint"])
        for d in c["dbs"]:
            marker = os.path.join(h, "marker_" + d["name"])
            jobs.append({"args": ["SELECT * FROM %s.t" % d["name"], "-o", "json"], "cwd": h, "env": home_env(h, {"OCTOSQL_PLUGIN_DIR": c["dir"], "VERIF_MARKER": marker}), "timeout": 60})
            meta.append((c, d, marker))
    okr = 0
    for (c, d, marker), (rc, o, err) in zip(meta, cli.run_many(jobs)):
        if climod.panicked(err):
            ctx.violation({"site": "cli start-up", "why": "panic"}, {"tree": c["tree"], "databases": c["dbs"]}, expected="resolution", observed=err[-400:], note="octosql crashed while resolving plugin versions")
            continue
        started = open(marker).read().split() if os.path.exists(marker) else []
        unresolved = [x for x in c["dbs"] if x["expect"] == "none"]
        installed = next(p["versions"] for p in c["tree"] if (p["repo"], p["name"]) == (d["repo"], d["plugin"]))
        sig = dict({"site": "cli start-up", "constraint_op": "".join(ch for ch in d["constraint"] if not (ch.isalnum() or ch in ".-")) or ("none" if not d["constraint"] else "="),
                    "constraint_prerelease": "-" in d["constraint"]}, **vclass(installed))
        shown = {"installed": installed, "database": d, "all_databases": c["dbs"]}
        if unresolved:
            if "is not installed with the required version" not in err or started:
                ctx.violation(dict(sig, why="unresolvable database not reported"), shown, expected="start-up error naming database %s" % unresolved[0]["name"], observed={"stderr": err[-300:], "started": started},
                              note="a configured database without a satisfying installed version was not reported")
            else:
                okr += 1
            continue
        want = os.path.join(c["dir"], d["repo"], "octosql-plugin-" + d["plugin"], d["expect"], "octosql-plugin-" + d["plugin"])
        if started != [want]:
            got = [s.split("/")[-2] for s in started]
            ctx.violation(dict(sig, why="resolved version differs"), shown, expected=d["expect"], observed={"started_versions": got, "stderr": err[-300:]},
                          note="the database did not resolve to the highest installed version satisfying its constraint")
        else:
            okr += 1
    # ---------------- (c) plugin install against a loopback repository ----------------
    www = os.path.join(root, "www")
    os.makedirs(www)
    buf = io.BytesIO()
    with tarfile.open(fileobj=buf, mode="w:gz") as tf:
        data = SCRIPT.encode()
        ti = tarfile.TarInfo("octosql-plugin-x")
        ti.size, ti.mode = len(data), 0o755
        tf.addfile(ti, io.BytesIO(data))
    with open(os.path.join(www, "bin.tar.gz"), "wb") as f:
        f.write(buf.getvalue())
    srv = serve(www)
    base = "http://127.0.0.1:%d" % srv.server_address[1]
    jobs, meta = [], []
    for c in cases[: (1200 if thorough else 100)]:
        ins = c["install"]
        d = os.path.join(www, "r%d" % c["id"])
        os.makedirs(d)
        versions = list(ins["manifest_text"])
        rng.shuffle(versions)
        with open(os.path.join(d, "repo.json"), "w") as f:
            json.dump({"name": "official", "description": "", "slug": "core", "plugins": [{"name": ins["name"], "description": "", "file_extensions": [], "manifest_url": "%s/r%d/manifest.json" % (base, c["id"])}]}, f)
        with open(os.path.join(d, "manifest.json"), "w") as f:
            json.dump({"binary_download_url_pattern": base + "/bin.tar.gz?v={{version}}", "versions": [{"number": v} for v in versions]}, f)
        h = os.path.join(root, "i%d" % c["id"])
        pd = os.path.join(h, "plugins")
        os.makedirs(os.path.join(h, ".octosql"))
        via_config = bool(ins["constraint"]) and c["id"] % 2 == 0
        if via_config:
            with open(os.path.join(h, ".octosql", "octosql.yml"), "w") as f:
                f.write("databases:\n  - name: d\n    type: core/%s\n    version: \"%s\"\n" % (ins["name"], ins["constraint"]))
            args = ["plugin", "install"]
        else:
            args = ["plugin", "install", ins["name"] + ("@" + ins["constraint"] if ins["constraint"] else "")]
        jobs.append({"args": args, "cwd": h, "env": home_env(h, {"OCTOSQL_PLUGIN_DIR": pd, "OCTOSQL_PLUGIN_REPOSITORY_OFFICIAL_URL": "%s/r%d/repo.json" % (base, c["id"])}), "timeout": 60})
        meta.append((c, pd, via_config, versions))
    oki = 0
    for (c, pd, via_config, versions), (rc, o, err) in zip(meta, cli.run_many(jobs, workers=8)):
        ins = c["install"]
        vd = os.path.join(pd, "core", "octosql-plugin-" + ins["name"])
        got = sorted(os.listdir(vd)) if os.path.isdir(vd) else []
        sig = dict({"site": "plugin install", "constraint_op": "".join(ch for ch in ins["constraint"] if not (ch.isalnum() or ch in ".-")) or ("none" if not ins["constraint"] else "="),
                    "constraint_prerelease": "-" in ins["constraint"], "via_config": via_config}, **vclass(ins["manifest_text"]))
        shown = {"manifest_order": versions, "constraint": ins["constraint"], "plugin": ins["name"], "via": "octosql.yml" if via_config else "command line"}
        if climod.panicked(err):
            ctx.violation(dict(sig, why="panic"), shown, expected=ins["expect"], observed=err[-400:], note="plugin install crashed")
        elif ins["expect"] == "none":
            if rc == 0 or got:
                ctx.violation(dict(sig, why="installed although no version matches"), shown, expected="an error, nothing installed", observed={"exit": rc, "installed": got, "stdout": o[-200:]}, note="install selected a version that does not satisfy the constraint")
            else:
                oki += 1
        elif got != [ins["expect"]] or rc != 0:
            ctx.violation(dict(sig, why="selected version differs"), shown, expected=ins["expect"], observed={"exit": rc, "installed": got, "stderr": err[-300:], "stdout": o[-200:]},
                          note="install did not select the highest matching manifest version")
        else:
            oki += 1
    srv.shutdown()
    # evaluations = trees listed + database resolutions observed + install requests; distinct_nontrivial = those that matched the specification
    ctx.cover(evaluations=len(cases) + sum(len(c["dbs"]) for c in sample) + len(meta), distinct=okd + okr + oki, sample=cases[0])
    ctx.notes.update({"trees": len(cases), "trees_discovered_as_expected": okd, "cli_resolutions": okr, "cli_installs": oki,
                      "trees_with_dashed_names": sum(1 for c in cases if any("-" in p["name"] for p in c["tree"])),
                      "resolutions_expected_none": sum(1 for c in sample for d in c["dbs"] if d["expect"] == "none")})
    ctx.coverage["exhaustive"] = False
    ctx.coverage["rule"] = ("cases generated by PluginCases.tla under the TLC seed: 1-3 plugins (8 names with 0-3 dashes, 2 repositories) x 1-4 versions over components {0,1,2,9,10} with "
                            "prereleases beta.2 / rc.1 and neighbours of a base version; 1-2 databases and one install request with constraints none, *, =, >=, >, <, <=, ^, ~ (also with a "
                            "prerelease part); distinct_nontrivial = trees / resolutions / installs that matched the specification")
    ctx.assumptions += ["Sat follows Masterminds/semver v1.5: a constraint without a prerelease part never matches a prerelease version; ^ = same major (generated only for major >= 1)"]


def replay(ctx, rec):
    print(json.dumps(rec, indent=1))
    return 0
