"""C26 — the plugin protocol carries data and predicates without change (PluginWire.tla).
(i)   TLC exports the message universes (every value of U, every type of TU, seeded schemas / records / watermarks / physical and execution variable
      contexts); each goes through the real wire encoding (protobuf bytes) and decoder and must come back equal.
(ii)  Every function overload on the C12 / C13 argument catalogues (x argument-type variants) is typechecked, sent through the real predicate transport
      (JSON + RepopulatePhysicalExpressionFunctions), materialised and evaluated on the other side; the result must equal the one before the transport.
(iii) The Run stream state machine of PluginWire.tla is model-checked (prefix / end-of-stream / failure / early stop, termination); scripts of records,
      retractions, watermarks and a failure are served by a test plugin (a separate process built on the real plugins.Run, reached through the real
      executor.PluginExecutor over gRPC) and what the client callbacks receive is compared with the script, with and without an early stop.
(iv)  TLC-generated (query, database) pairs of Relational.tla (families single and join) run through the binary against the test plugin, once accepting
      every pushed-down predicate and evaluating it inside the plugin, once rejecting them; results are compared with the relational semantics."""
import json
import os
import random
import shutil

import cli as climod
import core
import props.c08 as c08
import props.c13 as c13
import props.rel as rel

LEVEL = "model_checking"
STREAM_CFG = "SPECIFICATION StreamSpec\nINVARIANTS PrefixOk EndOk\nPROPERTY Terminates\nCONSTANTS Script <- McScript\n MaxTake = %d\n"


def nozone(x):
    if isinstance(x, dict):
        return {k: nozone(v) for k, v in x.items() if not (k == "z" and x.get("t") == "time")}
    if isinstance(x, list):
        return [nozone(v) for v in x]
    return x


def install_plugin(ctx, root):
    """builds the test plugin from the harness and installs it the way `plugin install` lays plugins out"""
    binp = ctx.build_go("./testplugin", "octosql-plugin-memplugin")
    d = os.path.join(root, "plugins", "core", "octosql-plugin-memplugin", "0.1.0")
    os.makedirs(d)
    shutil.copy(binp, os.path.join(d, "octosql-plugin-memplugin"))
    return os.path.join(root, "plugins")


def expected_delivery(script, take):
    """what PluginWire.tla's stream machine lets the client deliver: (messages, end)"""
    out, nrec = [], 0
    for m in script:
        if m["m"] == "err":
            return out, "failed"
        if m["m"] == "rec":
            if take >= 0 and nrec == take:
                return out, "stopped"
            nrec += 1
        out.append(m)
    return out, "done"


def run(ctx):
    thorough = ctx.tier == "thorough"
    rng = random.Random(ctx.seed)
    root = os.path.join(ctx.scratch, "c26")
    os.makedirs(root)
    # ---------------- (i) messages ----------------
    ctx.tlc_ok("PluginWireCases", "INIT Init\nNEXT Next\nCONSTANTS N = %d\n" % (2000 if thorough else 400), workers=1, timeout=1800)
    wire = ctx.read_ndjson("c26_wire.ndjson")
    out = ctx.scratch + "/c26_wire_out.ndjson"
    ctx.driver("wire-roundtrip", ["-in", ctx.specfile("c26_wire.ndjson"), "-out", out], timeout=1800)
    okw = 0
    kinds = {}
    for a, b in zip(wire, ctx.read_ndjson(out)):
        kinds[a["kind"]] = kinds.get(a["kind"], 0) + 1
        if b["err"] or core.canon(nozone(a["x"])) != core.canon(nozone(b.get("y"))):
            x = a["x"]
            sig = {"site": "wire encoding", "kind": a["kind"], "why": "error" if b["err"] else "decoded message differs"}
            if a["kind"] == "schema":
                sig.update({"time_field": "first" if x["time_field"] == 0 else "none" if x["time_field"] < 0 else "later", "fields": min(len(x["fields"]), 2)})
            if a["kind"] in ("physctx", "execctx"):
                sig.update({"depth": len(x["frames"])})
            if a["kind"] == "record":
                sig.update({"zero_time": x["time"] == 0, "retraction": x["retraction"]})
            if a["kind"] == "value":
                sig.update({"value_kind": x["v"]["t"]})
            ctx.violation(sig, {"kind": a["kind"], "sent": a["x"]}, expected=a["x"], observed=b.get("y") if not b["err"] else b["err"], note="Decode(Encode(x)) differs from x")
        else:
            okw += 1
    # ---------------- (ii) predicates over every function overload ----------------
    cases = c08.fn_cases(ctx)
    # every distinct (function, argument types) signature is kept; the argument tuples are sampled under the seed.  The receiving side builds a fresh
    # function map (with its regexp caches) per transported predicate, so the work is split over several driver processes.
    bysig = {}
    for c in cases:
        bysig.setdefault((c["fn"], core.canon(c["types"])), []).append(c)
    per = 150 if thorough else 12
    cases = [c for k in sorted(bysig) for c in (bysig[k] if len(bysig[k]) <= per else rng.sample(bysig[k], per))]
    results = []
    for lo in range(0, len(cases), 6000):
        inp, out = ctx.scratch + "/c26_fn_q%d.ndjson" % lo, ctx.scratch + "/c26_fn_r%d.ndjson" % lo
        ctx.write_ndjson(inp, cases[lo:lo + 6000])
        ctx.driver("fn-eval", ["-in", inp, "-out", out, "-transport"], timeout=3000)
        results += ctx.read_ndjson(out)
    if len(results) != len(cases):
        raise core.Machinery("fn-eval returned %d results for %d cases" % (len(results), len(cases)))
    okf = nfn = 0
    overloads = set()
    for c, x in zip(cases, results):
        if x["stage"] in ("typecheck",):
            continue          # not a well-typed call: nothing to transport
        nfn += 1
        overloads.add((c["fn"], core.canon(c["types"])))
        same = x["stage"] == x["t_stage"] and (x["stage"] != "" or (core.canon(x["value"]) == core.canon(x["t_value"]) and core.canon(x["type"]) == core.canon(x["t_type"])))
        if x["stage"] == "run" and x["t_stage"] == "run":
            same = True       # an error on both sides
        if not same:
            argk = "+".join((t.get("n") or t.get("k")) if t.get("k") != "union" else "|".join((a.get("n") or a.get("k")) for a in t["a"]) for t in c["types"])
            ctx.violation({"site": "predicate transport", "fn": c["fn"], "argtypes": argk, "why": "rejected" if x["t_stage"] == "rejected" else "panic" if x["t_stage"] == "panic" else "result differs"},
                          {"fn": c["fn"], "args": c["args"], "argtypes": c["types"]}, expected={"stage": x["stage"], "value": x["value"], "err": x["err"][:100]},
                          observed={"stage": x["t_stage"], "value": x["t_value"], "err": x["t_err"][:200]}, note="the function evaluates differently after crossing the plugin boundary")
        else:
            okf += 1
    # ---------------- (iii) the Run stream ----------------
    val = lambda i: [{"t": "int", "i": i}, {"t": "time", "ts": i}]
    rec = lambda i, r=False, t=None: {"m": "rec", "v": val(i), "r": r, "t": i if t is None else t}
    scripts = [[], [rec(1)], [rec(1), {"m": "wm", "w": 1}, rec(1, True), rec(2), {"m": "wm", "w": 2}], [rec(1), rec(2), {"m": "err", "e": "boom"}, rec(3)], [{"m": "err", "e": "boom"}],
               [{"m": "wm", "w": 1}, {"m": "wm", "w": 5}], [rec(1, t=0), rec(2, t=0), rec(3, t=0)]]
    for _ in range(40 if thorough else 10):
        s, live = [], []
        for _ in range(rng.randrange(1, 9)):
            k = rng.choice(("rec", "rec", "rec", "ret", "wm", "err") if live else ("rec", "rec", "wm", "err"))
            if k == "rec":
                i = rng.randrange(1, 6)
                live.append(i)
                s.append(rec(i))
            elif k == "ret":
                i = live.pop(rng.randrange(len(live)))
                s.append(rec(i, True))
            elif k == "wm":
                s.append({"m": "wm", "w": rng.randrange(1, 9)})
            elif rng.random() < 0.3:
                s.append({"m": "err", "e": "boom"})
        scripts.append(s)
    # the model: every script shape as an abstract sequence, every early-stop position
    states = 0
    for k, s in enumerate(scripts[:7]):
        abstract = ", ".join('"ERR"' if m["m"] == "err" else '"%s%d"' % (m["m"], j) for j, m in enumerate(s))
        for take in sorted(set([0, 1, len(s) + 1])):
            mod = "---- MODULE McStream ----\nEXTENDS PluginStream\nMcScript == <<%s>>\n====\n" % abstract
            r = ctx.tlc_ok("McStream", STREAM_CFG % take, name="McStream_%d_%d" % (k, take), files={"McStream.tla": mod}, deadlock=False, timeout=600)
            ctx.cover_tlc(r)
            states += r.distinct
    pd = install_plugin(ctx, root)
    q = []
    for k, s in enumerate(scripts):
        tf = os.path.join(root, "stream%d.json" % k)
        with open(tf, "w") as f:
            json.dump({"tables": {"s": {"fields": [["a", {"k": "prim", "n": "Int"}], ["t", {"k": "prim", "n": "Time"}]], "time_field": k % 3 - 1 if k % 3 != 2 else 1, "script": s}}}, f)
        nrec = sum(1 for m in s if m["m"] == "rec")
        for take in sorted(set([-1, 0, 1, max(nrec - 1, 0)])):
            q.append({"id": len(q), "tables": tf, "table": "s", "take": take, "script": s, "time_field": k % 3 - 1 if k % 3 != 2 else 1})
    inp, out = ctx.scratch + "/c26_st_q.ndjson", ctx.scratch + "/c26_st_r.ndjson"
    ctx.write_ndjson(inp, [{k: v for k, v in x.items() if k != "script"} for x in q])
    ctx.driver("plugin-stream", ["-in", inp, "-out", out, "-plugindir", pd], timeout=3000, env={"OCTOSQL_PLUGIN_TMP_DIR": os.path.join(root, "tmp")})
    oks = 0
    for c, x in zip(q, ctx.read_ndjson(out)):
        exp, end = expected_delivery(c["script"], c["take"])
        exp = [{"m": "wm", "w": m["w"]} if m["m"] == "wm" else {"m": "rec", "v": m["v"], "r": m["r"], "t": m["t"]} for m in exp]
        got_end = {"": "done", "stopped": "stopped", "run": "failed"}.get(x["stage"], x["stage"])
        sig = {"site": "Run stream", "end": end, "early_stop": c["take"] >= 0}
        shown = {"script": c["script"], "client_stops_after_records": c["take"]}
        if x["stage"] in ("panic", "start", "gettable", "materialize"):
            ctx.violation(dict(sig, why=x["stage"]), shown, expected={"delivered": exp, "end": end}, observed=x["err"][:300], note="the plugin stream could not be run")
            continue
        if x["schema"]["time_field"] != c["time_field"] or x["schema"]["no_retractions"] is not False or [f[0] for f in x["schema"]["fields"]] != ["a", "t"]:
            ctx.violation({"site": "GetTable over gRPC", "why": "schema differs", "time_field": "first" if c["time_field"] == 0 else "none" if c["time_field"] < 0 else "later"}, shown,
                          expected={"time_field": c["time_field"], "no_retractions": False}, observed=x["schema"], note="the schema the client sees differs from the plugin's")
            continue
        if core.canon(x["got"]) != core.canon(exp) or got_end != end or (end == "failed" and "boom" not in x["err"]):
            ctx.violation(dict(sig, why="delivered messages differ" if core.canon(x["got"]) != core.canon(exp) else "end of stream differs"), shown, expected={"delivered": exp, "end": end},
                          observed={"delivered": x["got"], "end": got_end, "err": x["err"][:200]}, note="the client callbacks did not receive what the plugin's node produced")
        else:
            oks += 1
    # ---------------- (iv) queries against the plugin through the binary ----------------
    cli = climod.Cli(ctx)
    n = 1200 if thorough else 120
    jobs, meta = [], []
    for fam in ("single", "join"):
        ctx.tlc_ok("RelCases", rel.CFG % (fam, n), workers=1, timeout=3000, heap="12g")
        for i, c in enumerate(ctx.read_ndjson("rel_cases.ndjson")):
            for push in ("all", "none"):
                h = os.path.join(root, "q_%s_%d_%s" % (fam, i, push))
                os.makedirs(os.path.join(h, ".octosql"))
                tables = {}
                for name, t in rel.tables_json(c["db"]).items():
                    tables[name] = {"fields": t["fields"], "rows": t["rows"], "push": push}
                with open(os.path.join(h, "tables.json"), "w") as f:
                    json.dump({"tables": tables}, f)
                with open(os.path.join(h, ".octosql", "octosql.yml"), "w") as f:
                    f.write("databases:\n  - name: mem\n    type: core/memplugin\n    config:\n      path: %s\n" % os.path.join(h, "tables.json"))
                env = {"HOME": h, "XDG_CONFIG_HOME": h + "/.config", "XDG_DATA_HOME": h + "/.data", "XDG_CACHE_HOME": h + "/.cache", "OCTOSQL_PLUGIN_DIR": pd, "OCTOSQL_PLUGIN_TMP_DIR": os.path.join(h, "tmp")}
                jobs.append({"args": [c["sql"], "-o", "csv"], "cwd": h, "env": env, "timeout": 120})
                meta.append((c, push))
    # predicates with subqueries never cross the boundary and must stay above the plugin table: the same query over the same data, natively
    # (in-process engine over the in-memory datasource) and against the plugin
    SUBQ = ["SELECT t.a AS a, t.c AS c FROM mem.t t WHERE t.c > 1 AND t.a = (SELECT min(u.a) FROM mem.t u)",
            "SELECT t.a AS a, t.c AS c FROM mem.t t WHERE t.c = 2 AND t.a IN (SELECT u.a FROM mem.t u WHERE u.c = 1)",
            "SELECT t.a AS a, t.b AS b FROM mem.t t WHERE t.b = 'x' AND t.c <= (SELECT max(u.c) FROM mem.t u) AND t.a IS NOT NULL",
            "SELECT t.a AS a, t.c AS c FROM mem.t t WHERE t.a = (SELECT max(u.a) FROM mem.t u)",
            "SELECT t.a AS a, t.c AS c FROM mem.t t WHERE (SELECT count(*) FROM mem.t u WHERE u.c = t.c) > 1 AND t.c < 3",
            "SELECT t.c AS c, t.b AS b FROM mem.t t WHERE t.c IN (SELECT u.c FROM mem.t u WHERE u.a = 1) AND t.b IS NOT NULL AND t.c > 0"]
    ctx.tlc_ok("RelCases", rel.CFG % ("single", 60 if thorough else 25), workers=1, timeout=3000, heap="12g")
    dbs = [c["db"] for c in ctx.read_ndjson("rel_cases.ndjson")]
    nq = []
    for i, db in enumerate(dbs):
        for j, sql in enumerate(SUBQ):
            nq.append({"id": "%d:%d" % (i, j), "tables": rel.tables_json(db), "sql": sql, "optimize": True})
    inp, out = ctx.scratch + "/c26_sub_q.ndjson", ctx.scratch + "/c26_sub_r.ndjson"
    ctx.write_ndjson(inp, nq)
    ctx.driver("sql-run", ["-in", inp, "-out", out], timeout=3000)
    native = {x["id"]: x for x in ctx.read_ndjson(out)}
    sub_meta = []
    for i, db in enumerate(dbs):
        h = os.path.join(root, "sub_%d" % i)
        os.makedirs(os.path.join(h, ".octosql"))
        with open(os.path.join(h, "tables.json"), "w") as f:
            json.dump({"tables": {name: {"fields": t["fields"], "rows": t["rows"], "push": "all"} for name, t in rel.tables_json(db).items()}}, f)
        with open(os.path.join(h, ".octosql", "octosql.yml"), "w") as f:
            f.write("databases:\n  - name: mem\n    type: core/memplugin\n    config:\n      path: %s\n" % os.path.join(h, "tables.json"))
        env = {"HOME": h, "XDG_CONFIG_HOME": h + "/.config", "XDG_DATA_HOME": h + "/.data", "XDG_CACHE_HOME": h + "/.cache", "OCTOSQL_PLUGIN_DIR": pd, "OCTOSQL_PLUGIN_TMP_DIR": os.path.join(h, "tmp")}
        for j, sql in enumerate(SUBQ):
            x = native["%d:%d" % (i, j)]
            if x["stage"] != "":
                continue
            jobs.append({"args": [sql, "-o", "csv"], "cwd": h, "env": env, "timeout": 120})
            exp_rows = [[r2["v"][k] for k in range(len(r2["v"]))] for r2 in x["rows"]]
            meta.append(({"sql": sql, "db": db, "groups": [exp_rows], "all": exp_rows, "n": len(exp_rows), "sub": False, "ordered": False, "native": True}, "all"))
            sub_meta.append(sql)
    if len(sub_meta) < 0.5 * len(dbs) * len(SUBQ):
        raise core.Machinery("most subquery-predicate queries do not run natively: %s" % [native[k]["err"] for k in list(native)[:3]])
    okq = skipped = 0
    import csv as csvmod
    import io
    for (c, push), (rc, o, err) in zip(meta, cli.run_many(jobs, workers=12)):
        f = rel.features(c["sql"])
        sig = dict({"site": "query against a plugin table", "pushdown": push}, **f)
        shown = {"sql": c["sql"], "db": {k: v["rows"] for k, v in c["db"].items() if ("mem." + k + " ") in c["sql"]}, "plugin_accepts_predicates": push == "all"}
        if c.get("native"):
            sig["site"] = "query with a subquery predicate against a plugin table"
            sig["reference"] = "the same query over the same data run natively"
        if climod.panicked(err):
            at = max(err.find("panic:"), err.find("fatal error:"), 0)
            ctx.violation(dict(sig, why="panic"), shown, expected=c["groups"], observed=err[at:at + 900], note="octosql crashed")
            continue
        if rc != 0:
            if "typecheck error" in err or "couldn't parse query" in err:
                skipped += 1
                continue
            ctx.violation(dict(sig, why="error"), shown, expected=c["groups"], observed=err[-300:], note="the query failed against the plugin")
            continue
        recs = list(csvmod.reader(io.StringIO(o)))
        rows = [[None if cell == "" else cell for cell in r] if r else [None] for r in recs[1:]]      # a lone NULL column is printed as an empty line
        exp = dict(c, groups=[[climod.expected_cells(r) for r in g] for g in c["groups"]], all=[climod.expected_cells(r) for r in c["all"]])
        why = rel.compare(exp, rows)
        if why is not None:
            ctx.violation(dict(sig, why=why.split(",")[0][:30]), shown, expected={"groups": exp["groups"], "n": c["n"], "any_of": exp["all"] if c["sub"] else None}, observed=rows,
                          note="rows from the plugin-backed table differ from the relational semantics: " + why)
        else:
            okq += 1
    if skipped > 0.3 * len(jobs):
        raise core.Machinery("too many generated queries rejected (%d of %d)" % (skipped, len(jobs)))
    ctx.cover(evaluations=len(wire) + nfn + len(q) + len(jobs), distinct=okw + okf + oks + okq, sample={"kind": wire[-1]["kind"], "x": wire[-1]["x"]})
    ctx.notes.update({"messages_round_tripped": kinds, "messages_equal": okw, "function_calls_transported": nfn, "distinct_overload_signatures": len(overloads), "function_calls_equal": okf,
                      "stream_scripts": len(scripts), "stream_runs": len(q), "stream_runs_equal": oks, "stream_model_states": states, "plugin_queries": len(jobs), "plugin_queries_equal": okq,
                      "plugin_queries_rejected_by_typechecker": skipped})
    ctx.coverage["exhaustive"] = False
    ctx.coverage["rule"] = ("(i) all of U (values) and TU (types) + seeded schemas/records/watermarks/contexts (depth <= 3); (ii) every function overload on the C12/C13 catalogues x "
                            "{exact, nullable, NULL per position, 3-way union} argument types; (iii) 7 fixed + seeded scripts x early stop after {never, 0, 1, n-1} records over the "
                            "real gRPC path, the stream state machine model-checked for the fixed shapes; (iv) families single and join of RelCases.tla against the plugin with "
                            "pushdown accepted / rejected. distinct_nontrivial = comparisons that came out equal")
    ctx.assumptions += ["a time equals the same instant in another zone", "the test plugin (harness code on the real plugins.Run) evaluates pushed-down predicates with the real expression evaluator"]


def replay(ctx, rec):
    print(json.dumps(rec, indent=1))
    return 0
