"""Relational family (Relational.tla / RelCases.tla): C01 single-source SELECT, C02 joins, C03 GROUP BY, C04 optimiser on/off.
TLC generates (query, database) pairs under its seed, renders the SQL text and computes the expected result as a sequence of
tie groups; the real pipeline (in-process engine = the csv/json branch of cmd/root.go; a CLI sample for what is printed) runs each
query with the optimiser on and off and the outputs are compared with the expectation."""
import json
import os
import random
import subprocess
import tempfile

import core

CFG = 'INIT Init\nNEXT Next\nCONSTANTS Family = "%s"\n N = %d\n'


def prim(n):
    return {"k": "prim", "n": n}


def nul(t):
    return {"k": "union", "a": [prim("Null"), t]}


COLTYPES = {"t": {"a": nul(prim("Int")), "b": nul(prim("String")), "c": prim("Int")},
            "l": {"k": nul(prim("Int")), "x": prim("String")}, "r": {"k": nul(prim("Int")), "y": prim("String")},
            "g": {"k": nul(prim("Int")), "j": prim("String"), "v": nul(prim("Int"))}}


def tables_json(db):
    out = {}
    for name, t in db.items():
        out[name] = {"fields": [[c, COLTYPES[name][c]] for c in t["cols"]], "rows": [[row[c] for c in t["cols"]] for row in t["rows"]]}
    return out


def bag(rows):
    return sorted(core.canon(r) for r in rows)


def compare(case, rows):
    """returns None when the observed rows agree with the expectation, else a short reason"""
    if case["sub"]:
        if len(rows) != case["n"]:
            return "row count %d, expected %d" % (len(rows), case["n"])
        pool = bag(case["all"])
        for r in bag(rows):
            if r in pool:
                pool.remove(r)
            else:
                return "row not in the unlimited result"
        return None
    groups = case["groups"]
    exp_n = sum(len(g) for g in groups)
    if len(rows) != exp_n:
        return "row count %d, expected %d" % (len(rows), exp_n)
    if not case["ordered"]:
        return None if bag(rows) == bag([r for g in groups for r in g]) else "different multiset of rows"
    i = 0
    for g in groups:
        if bag(rows[i:i + len(g)]) != bag(g):
            return "rows out of order / different rows at position %d" % i
        i += len(g)
    return None


def features(sql):
    s = sql.upper()
    return {"distinct": "SELECT DISTINCT" in s, "order_by": " ORDER BY " in s, "limit": s.rsplit(" LIMIT ", 1)[1].strip() if " LIMIT " in s else "",
            "subquery": "(SELECT" in s, "with": s.startswith("WITH "), "group_by": " GROUP BY " in s or "COUNT(" in s or "SUM(" in s,
            "join": next((k for k in ("LOOKUP JOIN", "LEFT JOIN", "RIGHT JOIN", "OUTER JOIN", " JOIN ") if k in s), "").strip()}


def run_family(ctx, family, n, prop, site):
    """returns (cases, results_opt, results_noopt)"""
    ctx.tlc_ok("RelCases", CFG % (family, n), workers=1, timeout=3000, heap="12g")
    cases = ctx.read_ndjson("rel_cases.ndjson")
    q = []
    for i, c in enumerate(cases):
        t = tables_json(c["db"])
        # predicate push-down policy of the in-memory datasource (reject all / accept all / accept every other predicate): exercises the
        # optimiser's PushDownFilterPredicatesToDatasource in its three outcomes; the unoptimised run never pushes anything down
        if prop == "C04":
            for tab in t.values():
                tab["push"] = ("", "all", "alt")[i % 3]
        q.append({"id": "%d:o" % i, "tables": t, "sql": c["sql"], "optimize": True})
        q.append({"id": "%d:n" % i, "sql": c["sql"], "optimize": False})
    inp, out = ctx.scratch + "/rel_q_%s.ndjson" % family, ctx.scratch + "/rel_r_%s.ndjson" % family
    ctx.write_ndjson(inp, q)
    ctx.driver("sql-run", ["-in", inp, "-out", out], timeout=3000)
    res = {x["id"]: x for x in ctx.read_ndjson(out)}
    return cases, res


def judge(ctx, cases, res, prop, site, modes=("o",), c04=False):
    skipped = 0
    nontrivial = 0
    for i, c in enumerate(cases):
        f = features(c["sql"])
        nrows_in = sum(len(t["rows"]) for t in c["db"].values())
        verdicts = {}
        for m in ("o", "n"):
            x = res["%d:%s" % (i, m)]
            if x["stage"] in ("parse", "typecheck"):
                verdicts[m] = ("skip", x["err"])
                continue
            if x["stage"] != "":
                verdicts[m] = ("fail", "%s: %s" % (x["stage"], x["err"][:200]))
                continue
            rows = [r["v"] for r in x["rows"]]
            if any(r["r"] for r in x["rows"]):
                verdicts[m] = ("fail", "retraction in a batch result")
                continue
            why = compare(c, rows)
            verdicts[m] = ("ok", rows) if why is None else ("diff", why, rows)
        if verdicts["o"][0] == "skip":
            skipped += 1
            continue
        if nrows_in > 0:
            nontrivial += 1
        shown = {"sql": c["sql"], "db": {k: v["rows"] for k, v in c["db"].items() if ("mem." + k + " ") in c["sql"]}}
        expected = {"groups": c["groups"], "any_n_rows_of": c["all"] if c["sub"] else None, "n": c["n"]}
        if c04:
            sd = res["%d:o" % i].get("schema_diff", "")
            if sd:
                ctx.violation(dict({"site": "optimizer", "why": "schema changed: " + sd.split(" ")[0]}, **f), shown, expected="the optimised plan announces the same schema", observed=sd,
                              note="the optimiser changed the schema of the plan: " + sd)
            vo, vn = verdicts["o"], verdicts["n"]
            same = vo[0] == vn[0] and (vo[0] != "ok" or bag(vo[1]) == bag(vn[1]) or c["sub"])
            if vo[0] in ("diff", "fail") and vn[0] == "ok":
                ctx.violation(dict({"site": "optimizer", "why": "optimised plan wrong, unoptimised right"}, **f), shown, expected=expected, observed={"optimized": vo[1:], "unoptimized": "as expected"},
                              note="--optimize=true differs from --optimize=false (which matches the relational semantics)")
            elif vn[0] in ("diff", "fail") and vo[0] == "ok":
                ctx.violation(dict({"site": "optimizer", "why": "unoptimised plan wrong, optimised right"}, **f), shown, expected=expected, observed={"unoptimized": vn[1:], "optimized": "as expected"},
                              note="--optimize=false differs from --optimize=true (which matches the relational semantics)")
            elif not same:
                ctx.violation(dict({"site": "optimizer", "why": "both differ"}, **f), shown, expected=expected, observed={"optimized": vo[1:], "unoptimized": vn[1:]}, note="optimised and unoptimised results differ")
            continue
        for m in modes:
            v = verdicts[m]
            if v[0] in ("diff", "fail"):
                ctx.violation(dict({"site": site, "why": v[1] if v[0] == "diff" else v[1].split(":")[0], "optimize": m == "o"}, **f), shown, expected=expected,
                              observed=v[2] if v[0] == "diff" else v[1], note="result differs from the relational semantics: %s" % (v[1] if isinstance(v[1], str) else ""))
    if skipped > 0.2 * len(cases):
        raise core.Machinery("too many generated queries rejected by the parser/typechecker (%d of %d): %s" % (skipped, len(cases),
                             [res["%d:o" % i]["err"] for i in range(len(cases)) if res["%d:o" % i]["stage"] in ("parse", "typecheck")][:3]))
    ctx.cover(evaluations=2 * len(cases), distinct=nontrivial, sample={"sql": cases[0]["sql"], "db": cases[0]["db"], "expected_groups": cases[0]["groups"]})
    ctx.notes.setdefault("families", []).append({"cases": len(cases), "rejected_by_typechecker": skipped, "with_non_empty_input": nontrivial})


def scaled_joins(ctx, cases, prop, ncases=16):
    """Joins over inputs longer than the engine's internal buffers (the 10 000-message channels between a stream join and its input goroutines).
    Relational.tla's join is a bag homomorphism in its left input for inner, lookup and LEFT joins: (K x L) JOIN R = K x (L JOIN R), and for inner and lookup joins also in the right input (every copy
    of a left row meets the same right rows / is padded on its own; RIGHT and OUTER joins are excluded, their unmatched right rows appear once).
    The TLC-exported case supplies L JOIN R; the left table is repeated K times so that it holds more than 30 000 rows (a source outruns the join by more than the
    channel capacity); the driver reports the result as distinct rows with net multiplicities."""
    import collections
    q, picked = [], []
    for i, c in enumerate(cases):
        f = features(c["sql"])
        nl = len(c["db"]["l"]["rows"])
        if f["join"] not in ("JOIN", "LOOKUP JOIN", "LEFT JOIN") or nl == 0 or c["sub"] or not c["all"]:
            continue
        k = 30001 // nl + 17
        t = tables_json(c["db"])
        t["l"]["repeat"] = k
        # inner and lookup joins are homomorphic in the right input as well: 5 x R makes the join consume its left input more slowly than the
        # source produces it, so the left channel really fills up
        m = 5 if f["join"] in ("JOIN", "LOOKUP JOIN") else 1
        t["r"]["repeat"] = m
        q.append({"id": "%d:b" % i, "tables": t, "sql": c["sql"], "optimize": len(picked) % 2 == 0, "bag": True})
        picked.append((i, k, m))
        if len(picked) >= ncases:
            break
    if not picked:
        raise core.Machinery("no join case qualifies for the scaled run")
    inp, out = ctx.scratch + "/rel_q_scaled.ndjson", ctx.scratch + "/rel_r_scaled.ndjson"
    ctx.write_ndjson(inp, q)
    ctx.driver("sql-run", ["-in", inp, "-out", out], timeout=3000)
    res = {x["id"]: x for x in ctx.read_ndjson(out)}
    nrows = 0
    for i, k, m in picked:
        c, x = cases[i], res["%d:b" % i]
        f = features(c["sql"])
        shown = {"sql": c["sql"], "db": {kk: v["rows"] for kk, v in c["db"].items() if ("mem." + kk + " ") in c["sql"]}, "left_table_repeated": k, "right_table_repeated": m}
        if x["stage"] != "":
            ctx.violation(dict({"site": "join-scaled", "why": x["stage"]}, **f), shown, expected="%d x the join of the unscaled tables" % (k * m), observed=x["err"][:300], note="the join over a long input failed")
            continue
        got = collections.Counter()
        for b in x.get("bag") or []:
            got[core.canon(b["v"])] += b["n"]
        want = collections.Counter({r: n * k * m for r, n in collections.Counter(core.canon(r) for r in c["all"]).items()})
        nrows += x["nrows"]
        if +got != want or any(n < 0 for n in got.values()):
            diff = {r: (got.get(r, 0), want.get(r, 0)) for r in set(got) | set(want) if got.get(r, 0) != want.get(r, 0)}
            ctx.violation(dict({"site": "join-scaled", "why": "multiplicities"}, **f), shown, expected="every row of the unscaled join %d times" % (k * m),
                          observed={"row: (observed, expected)": dict(list(diff.items())[:5])}, note="join over a left input of more than 30 000 rows differs from K x the join of the unscaled input")
    ctx.cover(evaluations=nrows, distinct=len(picked))
    ctx.notes["scaled_joins"] = {"cases": len(picked), "output_rows": nrows, "left_rows_min": min(k * len(cases[i]["db"]["l"]["rows"]) for i, k, m in picked)}


# ---------------------------------------------------------------- CLI sample (what octosql prints)
def cli_env(home):
    e = dict(os.environ)
    e.update({"HOME": home, "OCTOSQL_NO_TELEMETRY": "1", "XDG_CONFIG_HOME": home + "/.config", "XDG_DATA_HOME": home + "/.data", "XDG_CACHE_HOME": home + "/.cache"})
    return e


def write_table_files(dirname, db):
    """t/l/r/g as JSON-lines files (NULL = key absent is not used: explicit null).  Ints become JSON numbers (Float in OctoSQL), so the
    CLI sample uses CSV for tables with Int columns."""
    paths = {}
    for name, t in db.items():
        p = os.path.join(dirname, name + ".csv")
        with open(p, "w") as f:
            f.write(",".join(t["cols"]) + "\n")
            for row in t["rows"]:
                cells = []
                for c in t["cols"]:
                    v = row[c]
                    cells.append("" if v["t"] == "null" else str(v.get("i", v.get("s"))))
                f.write(",".join(cells) + "\n")
        paths[name] = p
    return paths
