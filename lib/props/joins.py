"""Stream joins (StreamJoin.tla / JoinMC.tla / JoinTrace.tla): C19, and the join parts of C02 (node level), C15, C18, C29.

  M  TLC explores every pair of valid input scripts up to MaxLen per side, every interleaving of the two inputs and of the
     two channel closes, with deadlock checking on and termination as a liveness property; Layer I must satisfy JFail.
  R  the exported script pairs are run on the real StreamJoin / OuterJoin under *every* schedule (or a seeded sample),
     enforced with the JoinRecv hook as a gate (sources deliver one message at a time, the scheduler waits for the
     join's acknowledgement);
  T  larger random script pairs under free Go scheduling; the hook records the consumption order in the join goroutine.
  Every recorded run is validated by TLC against JoinTrace.tla (JFail after every event)."""
import random

import core
from core import validate_trace, negative_control
from props.gb import V_int, V_str, random_script, ok_append


def mc_module(tags):
    # C18 at design level (TLC counterexamples, reproduced on the real nodes by the directed scripts below and recorded as findings):
    #  (1) a record without event time joined with an already released timed record is stamped with the latter's time, at or
    #      below the forwarded watermark; (2) the outer joins retract a NULL-padded row with the old event time of the padded record.
    # The C18 model therefore covers the inner join on inputs whose records all carry event times.
    c18 = "C18" in tags
    # C02 decides NULL-key semantics: its universe has a NULL key and no event times (the batch case)
    keys = "{IntV(1), NullV}" if "C02" in tags else "{IntV(1)}"
    times = "{0}" if "C02" in tags else "0..2"
    return r'''---- MODULE JoinMC_run ----
EXTENDS JoinMC
ChkTags == {%s}
JCfgs == {[op |-> "sjoin", kind |-> k, lkey |-> <<1>>, rkey |-> <<1>>, lw |-> 2, rw |-> 2] : k \in %s}
JUL(c) == {Rec(<<k, StrV("a")>>, r, t) : k \in %s, r \in BOOLEAN, t \in %s} \cup {Wm(1), Wm(2)}
JUR(c) == {Rec(<<k, StrV("b")>>, r, t) : k \in %s, r \in BOOLEAN, t \in %s} \cup {Wm(1), Wm(2)}
====
''' % (", ".join('"%s"' % t for t in tags), '{"inner"}' if c18 else '{"inner", "left", "right", "full"}',
       keys, "1..3" if c18 else times, keys, "1..3" if c18 else times)


def mc_cfg(maxlen, late):
    return ("SPECIFICATION Spec\nCONSTANTS MaxLen = %d\n Cfgs <- JCfgs\n UL <- JUL\n UR <- JUR\n Check <- ChkTags\n AllowLate = %s\n"
            " BuggyEnter = FALSE\n PairFile = \"join_pairs.ndjson\"\nINVARIANTS LayerP PhaseOk\nPROPERTY Terminates\n" % (maxlen, late))


def tr_module(tags):
    return "---- MODULE JoinTraceMC ----\nEXTENDS JoinTrace\nChkTags == {%s}\n====\n" % ", ".join('"%s"' % t for t in tags)


def tr_cfg(late):
    return ("SPECIFICATION TSpec\nCONSTANTS Check <- ChkTags\n AllowLate = %s\n BuggyEnter = FALSE\nINVARIANTS LayerP InputOk\n"
            "POSTCONDITION TraceAccepted\n" % late)


def random_pairs(rng, n, maxlen, late, wm_heavy=False, c18=False):
    out = []
    z = [] if c18 else [0]
    for _ in range(n):
        if c18:
            cfg = {"op": "sjoin", "kind": "inner", "lkey": [1], "rkey": [1], "lw": 2, "rw": 2}
            lrows = [[V_int(k), V_str(x)] for k in (1, 2) for x in ("a", "b")]
            rrows = [[V_int(k), V_str(x)] for k in (1, 2) for x in ("p", "q")]
            L = random_script(rng, lrows, maxlen, [1, 2, 3, 4, 5, 6], max_wm=6, late=False, p_wm=0.3, zero_time_ok=False)
            R = random_script(rng, rrows, maxlen, [1, 2, 3, 4, 5, 6], max_wm=6, late=False, p_wm=0.3, zero_time_ok=False)
            out.append({"cfg": cfg, "L": L, "R": R})
            continue
        if wm_heavy:
            kind = rng.choice(["inner", "inner", "left", "full"])
            cfg = {"op": "sjoin", "kind": kind, "lkey": [1], "rkey": [1], "lw": 2, "rw": 2}
            lrows = [[V_int(1), V_str(x)] for x in ("a", "b")]
            rrows = [[V_int(1), V_str(x)] for x in ("p", "q")]
            L = random_script(rng, lrows, maxlen, [0, 1, 2, 3, 4, 5, 6], max_wm=6, late=late, p_wm=0.45, p_retract=0.15)
            R = random_script(rng, rrows, maxlen, [0, 1, 2, 3, 4, 5, 6], max_wm=6, late=late, p_wm=0.45, p_retract=0.15)
            out.append({"cfg": cfg, "L": L, "R": R})
            continue
        kind = rng.choice(["inner", "inner", "left", "right", "full"])
        cfg = {"op": "sjoin", "kind": kind, "lkey": [1], "rkey": [1], "lw": 2, "rw": 2}
        lrows = [[V_int(k), V_str(x)] for k in (1, 2, 3) for x in ("a", "b")]
        rrows = [[V_int(k), V_str(x)] for k in (1, 2, 3) for x in ("p", "q")]
        L = random_script(rng, lrows, maxlen, [0, 1, 2, 3, 4], max_wm=4, late=late, p_wm=0.2)
        R = random_script(rng, rrows, maxlen, [0, 1, 2, 3, 4], max_wm=4, late=late, p_wm=0.2)
        out.append({"cfg": cfg, "L": L, "R": R})
    return out


def directed_c18():
    """Directed reproductions of the two recorded C18 findings of the joins (TLC counterexamples of the unrestricted model)."""
    la1 = {"m": "rec", "v": [V_int(1), V_str("a")], "r": False, "t": 1}
    rb0 = {"m": "rec", "v": [V_int(1), V_str("p")], "r": False, "t": 0}
    rb2 = {"m": "rec", "v": [V_int(1), V_str("p")], "r": False, "t": 2}
    wm1 = {"m": "wm", "w": 1}
    inner = {"op": "sjoin", "kind": "inner", "lkey": [1], "rkey": [1], "lw": 2, "rw": 2}
    left = dict(inner, kind="left")
    return [{"cfg": inner, "L": [la1, wm1], "R": [wm1, rb0]},      # zero-time record joins a released record after watermark 1
            {"cfg": left, "L": [la1, wm1], "R": [wm1, rb2]}]       # padded row (a, NULL)@1 retracted at time 1 after watermark 1


def sig_join(f):
    cfg = f["header"]["cfg"]
    node = "StreamJoin" if cfg["kind"] == "inner" else "OuterJoin"
    evs = f["events"][:f["bad_index"] + 1]
    zero = any(e.get("msg", {}).get("m") == "rec" and e["msg"].get("t") == 0 for e in evs)
    lastout = evs[-1].get("out", []) if evs else []
    pad_retract = any(m.get("m") == "rec" and m.get("r") and any(v.get("t") == "null" for v in m["v"]) for m in lastout)
    return {"site": "nodes." + node, "kind": cfg["kind"], "why": f["why"].split(":")[0], "reason": f["why"],
            "zero_time_input": zero, "late_retraction_of_padded_row": pad_retract}


def run_joins(ctx, prop, tags=None):
    thorough = ctx.tier == "thorough"
    tags = tags or [prop]
    late = "TRUE" if prop == "C15" else "FALSE"     # C19 and C18 speak about inputs without late records
    c18 = "C18" in tags
    maxlen = 2
    r = ctx.tlc_ok("JoinMC_run", mc_cfg(maxlen, late), files={"JoinMC_run.tla": mc_module(tags)}, timeout=3000, deadlock=True)
    ctx.cover_tlc(r)
    pairs = ctx.read_ndjson("join_pairs.ndjson")
    rng = random.Random(ctx.seed * 15485863 + 11)
    npairs = len(pairs)
    sample = pairs if thorough else rng.sample(pairs, min(len(pairs), 700))
    inp = ctx.scratch + "/join_pairs_in.ndjson"
    ctx.write_ndjson(inp, sample)
    tr1 = ctx.scratch + "/join_trace_sched.ndjson"
    ctx.driver("join-run", ["-in", inp, "-out", tr1, "-mode", "all", "-seed", ctx.seed], timeout=3000)
    # T: free scheduling on larger random pairs
    rp = random_pairs(rng, 600 if thorough else 150, 14 if thorough else 8, late == "TRUE", c18=c18)
    inp2 = ctx.scratch + "/join_pairs_rand.ndjson"
    ctx.write_ndjson(inp2, rp)
    tr2 = ctx.scratch + "/join_trace_free.ndjson"
    ctx.driver("join-run", ["-in", inp2, "-out", tr2, "-mode", "free", "-reps", 4 if thorough else 3, "-seed", ctx.seed], timeout=3000)
    # R': random pairs with more watermark values under seeded random *gated* schedules (interleavings free scheduling rarely produces)
    rp3 = random_pairs(rng, 1500 if thorough else 400, 6, late == "TRUE", wm_heavy=True, c18=c18)
    if c18:
        rp3 += directed_c18()
    inp3 = ctx.scratch + "/join_pairs_rand3.ndjson"
    ctx.write_ndjson(inp3, rp3)
    tr3 = ctx.scratch + "/join_trace_sample.ndjson"
    ctx.driver("join-run", ["-in", inp3, "-out", tr3, "-mode", "sample", "-k", 8 if thorough else 5, "-seed", ctx.seed], timeout=3000)
    events = []
    dead = 0
    for t in (tr1, tr2, tr3):
        ev = ctx.read_ndjson(t)
        summ = [e for e in ev if e.get("ev") == "summary"]
        dead += summ[0]["dead"] if summ else 0
        events += [e for e in ev if e.get("ev") != "summary"]
    is_new = lambda e: e.get("ev") == "new"
    # runs that panicked / returned an error / did not terminate are real-code observations of C07/C29, not of C19
    clean = []
    cur = []
    bad_runs = []
    for e in events + [{"ev": "new", "cfg": None}]:
        if is_new(e):
            if cur:
                hdr = cur[0]
                if hdr.get("diag") or any(x.get("ev") in ("err", "pre") for x in cur):
                    bad_runs.append(cur)
                else:
                    clean += cur
            cur = [e]
        else:
            cur.append(e)
    for run in bad_runs:
        hdr = run[0]
        d = hdr.get("diag", "")
        if d.startswith("DEAD") and "C29" in tags or prop == "C29":
            ctx.violation({"site": "nodes.join", "kind": hdr["cfg"]["kind"], "why": "C29", "reason": d[:40]}, {"cfg": hdr["cfg"], "sched": hdr.get("sched"), "events": run[1:]},
                          observed=d, note="join did not terminate / stopped consuming under this schedule")
        elif d.startswith("ERR") or d.startswith("DEAD"):
            ctx.notes.setdefault("runs_with_errors", []).append(d[:120])
    fails, res, drifts, ntr = validate_trace(ctx, "JoinTraceMC", tr_cfg(late), "join_trace.ndjson", clean, is_new, timeout=3000,
                                            files={"JoinTraceMC.tla": tr_module(tags)})
    for f in fails:
        ctx.violation(sig_join(f), {"cfg": f["header"]["cfg"], "sched": f["header"].get("sched"),
                                    "events": [{k: e.get(k) for k in ("ev", "side", "msg")} for e in f["events"][:f["bad_index"] + 1]]},
                      expected="JFail(cfg, recvL, recvR, outs) = \"\" (StreamJoin.tla)", observed=f["events"][:f["bad_index"] + 1][-3:], note=f["why"])
    ctx.cover(states=res.distinct if res else 0, transitions=res.generated if res else 0, traces=ntr, evaluations=len(clean), distinct=ntr)
    ctx.notes.setdefault("runs", []).append({"model": "JoinMC", "MaxLen_per_side": maxlen, "model_distinct_states": r.distinct, "script_pairs_exported": npairs,
                                             "pairs_replayed_under_every_schedule": len(sample), "random_pairs_free_scheduling": len(rp), "random_pairs_random_gated_schedules": len(rp3),
                                             "join_runs_validated": ntr, "runs_with_error_or_stall": len(bad_runs), "dead": dead,
                                             "layer_I_drift_traces": drifts, "deadlock_checked": True, "liveness": "Terminates"})
    ctx.cover(sample={"cfg": sample[0]["cfg"], "L": sample[len(sample) // 2]["L"], "R": sample[len(sample) // 2]["R"]})
    return clean


def control(ctx, tags):
    # the join forwards a watermark although the matching pair at or below it was never emitted
    cfg = {"op": "sjoin", "kind": "inner", "lkey": [1], "rkey": [1], "lw": 2, "rw": 2}
    l = {"m": "rec", "v": [V_int(1), V_str("a")], "r": False, "t": 0}
    r = {"m": "rec", "v": [V_int(1), V_str("b")], "r": False, "t": 0}
    ev = [{"ev": "new", "cfg": cfg}, {"ev": "recv", "side": "L", "msg": l, "out": []}, {"ev": "recv", "side": "R", "msg": r, "out": []},
          {"ev": "close", "side": "L", "out": []}, {"ev": "close", "side": "R", "out": []}]
    negative_control(ctx, "JoinTraceMC", tr_cfg("FALSE"), "join_trace.ndjson", ev, files={"JoinTraceMC.tla": tr_module(tags)})
    ctx.notes["negative_control_rejected"] = True
