"""Shared pipeline for the single-input streaming operators (Ops.tla / OpMC.tla / OpTrace.tla):

  M  TLC model-checks the implementation-shaped Layer I against the Layer-P monitor PFail for every valid input script up
     to MaxLen over a small universe, for a set of operator configurations, and exports the maximal scripts;
  R  the harness feeds each exported script to the real node (one message at a time) and records what it emitted;
  T  the same for seeded random long scripts;
  the recorded traces are validated by TLC against OpTrace.tla: PFail is evaluated after every event (verdict), the
  Layer-I prediction is compared as a bag per step (drift only).
"""
import random

import core
from core import validate_trace, negative_control

def late_ok(tags):
    return "FALSE" if "C18" in tags else "TRUE"


def tr_cfg(tags):
    return "SPECIFICATION TSpec\nCONSTANTS Check <- ChkTags\n AllowLate = %s\nINVARIANTS LayerP InputOk\nPOSTCONDITION TraceAccepted\n" % late_ok(tags)


def tr_module(tags):
    return "---- MODULE OpTraceMC ----\nEXTENDS OpTrace\nChkTags == {%s}\n====\n" % ", ".join('"%s"' % t for t in tags)


def mc_module(name, body, tags):
    return "---- MODULE %s ----\nEXTENDS OpMC\nChkTags == {%s}\n%s\n====\n" % (name, ", ".join('"%s"' % t for t in tags), body)


def mc_cfg(maxlen, cfgs, universe, fname, tags):
    return ("SPECIFICATION Spec\nCONSTANTS MaxLen = %d\n Cfgs <- %s\n Universe <- %s\n Check <- ChkTags\n AllowLate = %s\n ScriptFile = \"%s\"\nINVARIANT LayerP\n"
            % (maxlen, cfgs, universe, late_ok(tags), fname))


GB_BODY = r'''
Aggs == <<[k |-> "count", c |-> 3], [k |-> "sum", c |-> 3]>>
TimeTrigs == { <<[k |-> "wm"]>>, <<[k |-> "count", n |-> 2], [k |-> "wm"]>>, <<[k |-> "wm"], [k |-> "eos"]>>,
               <<[k |-> "count", n |-> 3], [k |-> "wm"], [k |-> "eos"]>>, <<[k |-> "count", n |-> 2]>> }
PlainTrigs == { <<[k |-> "count", n |-> 1]>>, <<[k |-> "count", n |-> 2]>>, <<[k |-> "eos"]>>,
                <<[k |-> "count", n |-> 2], [k |-> "eos"]>> }
TimeCfgs  == {[op |-> "gb", keys |-> <<1, 2>>, aggs |-> Aggs, ktidx |-> 1, trig |-> t, simple |-> FALSE] : t \in TimeTrigs}
PlainCfgs == {[op |-> "gb", keys |-> <<2>>, aggs |-> Aggs, ktidx |-> 0, trig |-> t, simple |-> FALSE] : t \in PlainTrigs}
             \cup {[op |-> "gb", keys |-> <<2>>, aggs |-> Aggs, ktidx |-> 0, trig |-> <<[k |-> "eos"]>>, simple |-> TRUE]}
GbCfgs == TimeCfgs \cup PlainCfgs
(* C18 at design level: a time-keyed group by with a COUNTING or END OF STREAM trigger re-emits keys at end of stream stamped with the
   key time, i.e. at or below watermarks it has already forwarded (TLC counterexample: rec(kt=1,t=1) wm(1) eos with COUNTING 2, ON WATERMARK).  The model
   check for C18 therefore leaves that configuration out; the real code is still run on it (random scripts) and the violation is
   reported / matched against known_findings.jsonl. *)
GbCfgsC18 == {c \in GbCfgs : c.ktidx = 0 \/ (HasKind(c, "wm") /\ Len(c.trig) = 1)}
(* time-keyed group-bys receive records whose event time is non-zero and not above the key time (tumble / time field) *)
TimeRecs  == IF AllowLate
             THEN {Rec(<<TimeV(kt), StrV("a"), IntV(1)>>, r, t) : kt \in 1..2, t \in 0..2, r \in BOOLEAN}      \* any event time, also none, also late
             ELSE {Rec(<<TimeV(p[1]), StrV("a"), v>>, r, p[2]) : p \in {<<1, 1>>, <<2, 1>>, <<2, 2>>}, v \in {IntV(1), NullV}, r \in BOOLEAN}
PlainRecs == {Rec(<<TimeV(1), StrV(nm), v>>, r, t) : nm \in {"a", "b"}, v \in {IntV(1), NullV}, r \in BOOLEAN, t \in 0..1}
GbUniverse(c) == IF c.ktidx # 0 THEN TimeRecs \cup {Wm(w) : w \in 1..2} ELSE PlainRecs \cup {Wm(1)}
'''


def V_int(i):
    return {"t": "int", "i": i}


def V_time(t):
    return {"t": "time", "ts": t}


def V_str(s):
    return {"t": "str", "s": s}


NULL = {"t": "null"}


def ok_append(s, m, late):
    """Mirror of OkAppend in Ops.tla (the trace spec re-checks it as the InputOk invariant)."""
    last_wm = 0
    for x in s:
        if x["m"] == "wm":
            last_wm = x["w"]
    if m["m"] == "wm":
        return m["w"] > last_wm
    if not (late or m["t"] == 0 or m["t"] > last_wm):
        return False
    if m["r"]:
        c = 0
        for x in s:
            if x["m"] == "rec" and x["v"] == m["v"] and ((x["t"] == 0) == (m["t"] == 0)) and (x["r"] or x["t"] <= m["t"]):
                c += -1 if x["r"] else 1
        return c > 0
    return True


def random_script(rng, rows, maxlen, times, p_wm=0.15, p_retract=0.35, zero_time_ok=True, time_of_row=None, max_wm=None, late=False):
    """A random valid changelog: proposals are filtered by ok_append (rejection sampling)."""
    s = []
    top = max_wm or max(times)
    n = rng.randint(1, maxlen)
    tries = 0
    while len(s) < n and tries < 20 * n:
        tries += 1
        x = rng.random()
        if x < p_wm:
            m = {"m": "wm", "w": rng.randint(1, top)}
        else:
            added = [y for y in s if y["m"] == "rec" and not y["r"]]
            if added and rng.random() < p_retract:
                base = rng.choice(added)
                row = base["v"]
                t = 0 if base["t"] == 0 else rng.choice([u for u in times if u >= base["t"] and u != 0] or [base["t"]])
                m = {"m": "rec", "v": row, "r": True, "t": t}
            else:
                row = rng.choice(rows)
                cands = [u for u in times if (u != 0 or zero_time_ok)]
                if time_of_row is not None:
                    cands = [u for u in cands if u != 0 and u <= time_of_row(row)]
                if not cands:
                    continue
                m = {"m": "rec", "v": row, "r": False, "t": rng.choice(cands)}
            if time_of_row is not None and m["t"] > time_of_row(m["v"]):
                continue
        if ok_append(s, m, late):
            s.append(m)
    return s


def gb_random_scripts(rng, n, maxlen, late, c18=False):
    out = []
    aggs = [{"k": "count", "c": 3}, {"k": "sum", "c": 3}]
    for _ in range(n):
        if rng.random() < 0.5:
            trig = rng.choice([[{"k": "wm"}], [{"k": "count", "n": rng.randint(1, 4)}, {"k": "wm"}], [{"k": "wm"}, {"k": "eos"}],
                               [{"k": "count", "n": rng.randint(2, 3)}, {"k": "wm"}, {"k": "eos"}], [{"k": "count", "n": rng.randint(1, 3)}]])
            if c18:
                trig = [{"k": "wm"}]     # the other time-keyed configurations are a recorded finding (directed scripts below)
            cfg = {"op": "gb", "keys": [1, 2], "aggs": aggs, "ktidx": 1, "trig": trig, "simple": False}
            rows = [[V_time(kt), V_str(nm), v] for kt in (1, 2, 3, 4) for nm in ("a", "b") for v in (V_int(1), V_int(2), V_int(-3), NULL)]
            s = random_script(rng, rows, maxlen, [0, 1, 2, 3, 4], zero_time_ok=late, time_of_row=None if late else (lambda r: r[0]["ts"]), max_wm=4, late=late)
        else:
            simple = rng.random() < 0.3
            trig = [{"k": "eos"}] if simple else rng.choice([[{"k": "count", "n": rng.randint(1, 4)}], [{"k": "eos"}],
                                                            [{"k": "count", "n": rng.randint(1, 3)}, {"k": "eos"}]])
            cfg = {"op": "gb", "keys": [2], "aggs": aggs, "ktidx": 0, "trig": trig, "simple": simple}
            rows = [[V_time(1), V_str(nm), v] for nm in ("a", "b", "c") for v in (V_int(1), V_int(2), V_int(-3), NULL)]
            s = random_script(rng, rows, maxlen, [0, 1, 2, 3], max_wm=3, late=late)
        out.append({"cfg": cfg, "in": s})
    if c18:
        # directed reproduction of KF-C18-groupby-eos-reemit (TLC counterexample of the full GbCfgs model), one per trigger kind
        row = [V_time(1), V_str("a"), V_int(1)]
        for trig in ([{"k": "wm"}, {"k": "eos"}], [{"k": "count", "n": 2}, {"k": "wm"}]):
            out.append({"cfg": {"op": "gb", "keys": [1, 2], "aggs": aggs, "ktidx": 1, "trig": trig, "simple": False},
                        "in": [{"m": "rec", "v": row, "r": False, "t": 1}, {"m": "wm", "w": 1}]})
    return out


def sig_gb(f):
    cfg = f["header"]["cfg"]
    trig = "+".join(c["k"] + (str(c.get("n", "")) if c["k"] == "count" else "") for c in cfg.get("trig", []))
    node = "SimpleGroupBy" if cfg.get("simple") else "CustomTriggerGroupBy"
    at = f["events"][f["bad_index"]]["ev"] if 0 <= f["bad_index"] < len(f["events"]) else "?"
    return {"site": "nodes." + node, "trig": trig, "why": f["why"].split(":")[0], "timekey": cfg.get("ktidx", 0) != 0, "at": at,
            "reason": f["why"]}


def run_ops(ctx, prop, mc_name, body, cfgs, universe, maxlen, randoms, sig_fn, tags, sample=0, mc_timeout=2400):
    """Generic M + R + T for a family of operator configurations.  `only` filters the reasons that count for this
    property (prefixes such as "C16"); other Layer-P failures are reported by the property they belong to."""
    fname = "op_scripts.ndjson"
    r = ctx.tlc_ok(mc_name, mc_cfg(maxlen, cfgs, universe, fname, tags), files={mc_name + ".tla": mc_module(mc_name, body, tags)}, timeout=mc_timeout)
    ctx.cover_tlc(r)
    scripts = ctx.read_ndjson(fname)
    nexp = len(scripts)
    if sample and len(scripts) > sample:
        rng = random.Random(ctx.seed)
        scripts = rng.sample(scripts, sample)
    allscripts = scripts + randoms
    inp = ctx.scratch + "/scripts_in.ndjson"
    ctx.write_ndjson(inp, allscripts)
    tr = ctx.scratch + "/op_trace_raw.ndjson"
    ctx.driver("op-run", ["-in", inp, "-out", tr], timeout=1800)
    events = ctx.read_ndjson(tr)
    is_new = lambda e: e.get("ev") == "new"
    # node-level errors / panics are real-code observations too
    cur = None
    for e in events:
        if is_new(e):
            cur = e
        if e.get("ev") == "eos" and e.get("err"):
            ctx.violation({"site": "nodes." + str(cur["cfg"].get("op")), "why": "error", "err": e["err"][:60]}, {"cfg": cur["cfg"]},
                          observed=e["err"], note="node returned an error / panicked on a valid input")
    fails, res, drifts, ntr = validate_trace(ctx, "OpTraceMC", tr_cfg(tags), "op_trace.ndjson", events, is_new, timeout=3000,
                                            files={"OpTraceMC.tla": tr_module(tags)})
    other = 0
    for f in fails:
        ctx.violation(sig_fn(f), {"cfg": f["header"]["cfg"], "in": [e.get("msg") for e in f["events"][:f["bad_index"] + 1] if e["ev"] == "in"]},
                      expected="PFail(cfg, ins, outs) = \"\" (Ops.tla)", observed=f["events"][:f["bad_index"] + 1][-3:], note=f["why"])
    ctx.cover(states=res.distinct if res else 0, transitions=res.generated if res else 0, traces=ntr, evaluations=len(events), distinct=ntr)
    ctx.notes.setdefault("runs", []).append({"model": mc_name, "MaxLen": maxlen, "model_distinct_states": r.distinct, "exported_scripts": nexp,
                                             "replayed_scripts": len(scripts), "random_scripts": len(randoms), "trace_events": len(events),
                                             "layer_I_drift_traces": drifts, "layerP_failures_of_other_properties": other})
    if allscripts:
        ctx.cover(sample=allscripts[len(allscripts) // 3])
    return events


def replay_validate(ctx, scripts, tags, sig_fn, name):
    """R + T only (no model run): the scripts go through the real node and the traces are validated with the clauses of `tags`"""
    inp, tr = ctx.scratch + "/scripts_%s.ndjson" % name, ctx.scratch + "/op_trace_%s.ndjson" % name
    ctx.write_ndjson(inp, scripts)
    ctx.driver("op-run", ["-in", inp, "-out", tr], timeout=1800)
    events = ctx.read_ndjson(tr)
    is_new = lambda e: e.get("ev") == "new"
    fails, res, drifts, ntr = validate_trace(ctx, "OpTraceMC", tr_cfg(tags), "op_trace.ndjson", events, is_new, timeout=3000, files={"OpTraceMC.tla": tr_module(tags)})
    for f in fails:
        ctx.violation(sig_fn(f), {"cfg": f["header"]["cfg"], "in": [e.get("msg") for e in f["events"][:f["bad_index"] + 1] if e["ev"] == "in"]},
                      expected="PFail(cfg, ins, outs) = \"\" (Ops.tla, clauses %s)" % tags, observed=f["events"][:f["bad_index"] + 1][-3:], note=f["why"])
    ctx.cover(states=res.distinct if res else 0, transitions=res.generated if res else 0, traces=ntr, evaluations=len(events), distinct=ntr)
    return ntr


def control_trace(tag):
    """A hand-written trace that violates the clause of `tag`; the trace spec must reject it (binding demonstrated)."""
    aggs = [{"k": "count", "c": 3}, {"k": "sum", "c": 3}]
    plain = {"op": "gb", "keys": [2], "aggs": aggs, "ktidx": 0, "trig": [{"k": "count", "n": 1}], "simple": False}
    row = [V_time(1), V_str("a"), V_int(1)]
    rec = {"m": "rec", "v": row, "r": False, "t": 0}
    if tag == "C16":   # the group's row is never emitted
        return [{"ev": "new", "cfg": plain}, {"ev": "in", "msg": rec, "out": []}, {"ev": "eos", "out": []}]
    if tag == "C17":   # COUNTING 1 but nothing emitted after the first record
        return [{"ev": "new", "cfg": plain}, {"ev": "in", "msg": rec, "out": []}]
    if tag == "C15":   # distinct retracts a row it never emitted
        return [{"ev": "new", "cfg": {"op": "distinct"}}, {"ev": "in", "msg": rec, "out": [dict(rec, r=True)]}]
    if tag == "C18":   # buffer forwards a lower watermark after a higher one
        return [{"ev": "new", "cfg": {"op": "etbuf"}}, {"ev": "in", "msg": {"m": "wm", "w": 2}, "out": [{"m": "wm", "w": 2}]},
                {"ev": "in", "msg": {"m": "wm", "w": 3}, "out": [{"m": "wm", "w": 1}]}]
    raise core.Machinery("no control for " + tag)


def run_negative_control(ctx, prop):
    negative_control(ctx, "OpTraceMC", tr_cfg([prop]), "op_trace.ndjson", control_trace(prop), files={"OpTraceMC.tla": tr_module([prop])})
    ctx.notes["negative_control_rejected"] = True


def run_groupby(ctx, prop):
    thorough = ctx.tier == "thorough"
    rng = random.Random(ctx.seed * 7919 + 17)
    randoms = gb_random_scripts(rng, 1500 if thorough else 250, 40 if thorough else 25, late=(prop != "C18"), c18=(prop == "C18"))
    tags = [prop]
    events = run_ops(ctx, prop, "OpMC_gb", GB_BODY, "GbCfgsC18" if prop == "C18" else "GbCfgs", "GbUniverse", 4 if thorough else 3, randoms, sig_gb, tags,
                     sample=0 if thorough else 3000)
    run_negative_control(ctx, prop)
    ctx.coverage["exhaustive"] = True
    ctx.assumptions += ["valid, non-late input changelogs (OkAppend in Ops.tla; DESIGN.md section 5)",
                        "time-keyed group-bys receive records with a non-zero event time not above the key time (as tumble / a time field produce them)"]


BASIC_BODY = r'''
BasicCfgs == {[op |-> "filter", col |-> 3, eq |-> IntV(1)], [op |-> "map", cols |-> <<2>>], [op |-> "map", cols |-> <<3, 2, 3>>],
              [op |-> "distinct"], [op |-> "etbuf"]}
BasicUniverse(c) == {Rec(<<TimeV(1), StrV(nm), v>>, r, t) : nm \in {"a", "b"}, v \in {IntV(1), NullV}, r \in BOOLEAN, t \in 0..2}
                    \cup {Wm(1), Wm(2)}
'''


def basic_random_scripts(rng, n, maxlen, late):
    out = []
    rows = [[V_time(1), V_str(nm), v] for nm in ("a", "b", "c") for v in (V_int(1), V_int(2), NULL)]
    for _ in range(n):
        cfg = rng.choice([{"op": "filter", "col": 3, "eq": V_int(rng.choice([1, 2]))}, {"op": "map", "cols": rng.choice([[2], [3, 2, 3], [1, 3]])},
                          {"op": "distinct"}, {"op": "etbuf"}])
        out.append({"cfg": cfg, "in": random_script(rng, rows, maxlen, [0, 1, 2, 3, 4], max_wm=4, late=late)})
    return out


EXT_BODY = r'''
JTable == << <<IntV(1), StrV("a")>>, <<IntV(1), StrV("b")>>, <<NullV, StrV("c")>>, <<IntV(2), StrV("a")>> >>
JTable2 == << <<IntV(1), StrV("a")>>, <<IntV(1), StrV("a")>>, <<IntV(1), StrV("b")>>, <<IntV(2), StrV("a")>> >>     \* the joined side emits +a -a +b for key 1
ExtCfgs == {[op |-> "orderby", keys |-> <<3>>, dirs |-> <<1>>, limit |-> -1], [op |-> "orderby", keys |-> <<3, 2>>, dirs |-> <<-1, 1>>, limit |-> 2],
            [op |-> "orderby", keys |-> <<>>, dirs |-> <<>>, limit |-> 1], [op |-> "orderby", keys |-> <<2>>, dirs |-> <<-1>>, limit |-> 3],
            [op |-> "limit", n |-> 0], [op |-> "limit", n |-> 1], [op |-> "limit", n |-> 2],
            [op |-> "lookup", col |-> 3, jcol |-> 1, table |-> JTable, tflags |-> <<FALSE, FALSE, FALSE, FALSE>>],

            [op |-> "unnest", col |-> 3]}
ExtUniverse(c) == IF c.op = "unnest"
                  THEN {Rec(<<TimeV(1), StrV("a"), ListV(l)>>, r, t) : l \in {<<>>, <<IntV(1)>>, <<IntV(1), IntV(1)>>, <<IntV(2), NullV>>}, r \in BOOLEAN, t \in 0..2} \cup {Wm(1), Wm(2)}
                  ELSE {Rec(<<TimeV(1), StrV(nm), v>>, r, t) : nm \in {"a", "b"}, v \in {IntV(1), IntV(2), NullV}, r \in BOOLEAN, t \in 0..2} \cup {Wm(1), Wm(2)}
'''
JTABLE = [[V_int(1), V_str("a")], [V_int(1), V_str("b")], [NULL, V_str("c")], [V_int(2), V_str("a")]]
JTABLE2 = [[V_int(1), V_str("a")], [V_int(1), V_str("a")], [V_int(1), V_str("b")], [V_int(2), V_str("a")]]


def ext_random_scripts(rng, n, maxlen, late):
    out = []
    rows = [[V_time(1), V_str(nm), v] for nm in ("a", "b", "c") for v in (V_int(1), V_int(2), V_int(3), NULL)]
    lrows = [[V_time(1), V_str(nm), {"t": "list", "l": l}] for nm in ("a", "b") for l in ([], [V_int(1)], [V_int(1), V_int(1)], [V_int(2), NULL], [V_int(3), V_int(1), V_int(2)])]
    for _ in range(n):
        kind = rng.choice(("orderby", "orderby", "limit", "lookup", "unnest"))
        if kind == "orderby":
            keys = rng.choice([[3], [3, 2], [], [2], [2, 3], [1, 3]])
            cfg = {"op": "orderby", "keys": keys, "dirs": [rng.choice([1, -1]) for _ in keys], "limit": rng.choice([-1, -1, 1, 2, 3, 5])}
        elif kind == "limit":
            cfg = {"op": "limit", "n": rng.choice([0, 1, 2, 3, 7])}
        elif kind == "lookup":
            cfg = {"op": "lookup", "col": 3, "jcol": 1, "table": JTABLE, "tflags": [False] * 4}
        else:
            cfg = {"op": "unnest", "col": 3}
        out.append({"cfg": cfg, "in": random_script(rng, lrows if kind == "unnest" else rows, maxlen, [0, 1, 2, 3, 4], max_wm=4, late=late)})
    return out


def run_ext(ctx, prop):
    """order by (OrderSensitiveTransform), limit, lookup join and unnest: Layer I step functions model-checked against Layer P, scripts replayed, traces validated"""
    thorough = ctx.tier == "thorough"
    rng = random.Random(ctx.seed * 7919 + 11)
    late = prop != "C18"
    randoms = ext_random_scripts(rng, 4000 if thorough else 300, 60 if thorough else 25, late)
    if prop == "C15":
        # a joined side that retracts (a subquery with a trigger): the model of this configuration violates "never retract an absent row" (recorded finding),
        # so it is not part of the model-checked configurations; the real node is still run on directed scripts and judged by the same Layer P
        cfg2 = {"op": "lookup", "col": 3, "jcol": 1, "table": JTABLE2, "tflags": [False, True, False, False]}
        r1, r2 = [V_time(1), V_str("a"), V_int(1)], [V_time(1), V_str("b"), V_int(2)]
        rec = lambda row, r=False: {"m": "rec", "v": row, "r": r, "t": 0}
        directed = [{"cfg": cfg2, "in": s_} for s_ in ([rec(r1)], [rec(r1), rec(r1, True)], [rec(r1), rec(r2), rec(r1, True)], [rec(r2), rec(r2, True)])]
        randoms += directed
        # the consolidated result of these runs is judged on its own as well (the recorded finding above is a transient retraction, the end result is right)
        replay_validate(ctx, directed, ["C15F"], sig_ext, "lookup_final")
    # MaxLen stays 3 in both tiers (38 messages x 9 configurations: length 4 is 18 M scripts); thorough replays every exported script and more random ones
    run_ops(ctx, prop, "OpMC_ext", EXT_BODY, "ExtCfgs", "ExtUniverse", 3, randoms, sig_ext, [prop], sample=0 if thorough else 2500)


PIPE_BODY = r'''
PAggs == <<[k |-> "count", c |-> 3], [k |-> "sum", c |-> 3]>>
PlainGb(trig) == [op |-> "gb", keys |-> <<2>>, aggs |-> PAggs, ktidx |-> 0, trig |-> trig, simple |-> FALSE]
TimeGb == [op |-> "gb", keys |-> <<1, 2>>, aggs |-> PAggs, ktidx |-> 1, trig |-> <<[k |-> "wm"]>>, simple |-> FALSE]
PJTable == << <<IntV(1), StrV("a")>>, <<IntV(1), StrV("b")>>, <<IntV(2), StrV("a")>> >>
PipeCfgs == {[op |-> "pipe", stages |-> <<[op |-> "filter", col |-> 3, eq |-> IntV(1)], PlainGb(<<[k |-> "count", n |-> 1]>>)>>],
             [op |-> "pipe", stages |-> <<[op |-> "etbuf"], TimeGb>>],
             [op |-> "pipe", stages |-> <<[op |-> "map", cols |-> <<3, 2, 3>>], [op |-> "distinct"]>>],
             [op |-> "pipe", stages |-> <<[op |-> "lookup", col |-> 3, jcol |-> 1, table |-> PJTable, tflags |-> <<FALSE, FALSE, FALSE>>], [op |-> "orderby", keys |-> <<5, 2>>, dirs |-> <<-1, 1>>, limit |-> -1]>>],
             [op |-> "pipe", stages |-> <<[op |-> "distinct"], [op |-> "filter", col |-> 3, eq |-> IntV(1)], [op |-> "etbuf"]>>],
             [op |-> "pipe", stages |-> <<PlainGb(<<[k |-> "count", n |-> 2], [k |-> "eos"]>>), [op |-> "orderby", keys |-> <<2>>, dirs |-> <<-1>>, limit |-> 1]>>],
             [op |-> "pipe", stages |-> <<PlainGb(<<[k |-> "count", n |-> 1]>>), [op |-> "orderby", keys |-> <<3, 1>>, dirs |-> <<1, 1>>, limit |-> 2]>>],
             [op |-> "pipe", stages |-> <<[op |-> "etbuf"], [op |-> "filter", col |-> 3, eq |-> IntV(1)], [op |-> "etbuf"]>>]}
(* for C18 the time-keyed grouping is left out: its key time is a column of the row, which this universe does not tie to the record's event time *)
PipeCfgsC18 == {c \in PipeCfgs : \A i \in 1..Len(c.stages) : c.stages[i] # TimeGb}
PipeUniverse(c) == {Rec(<<TimeV(1), StrV(nm), v>>, r, t) : nm \in {"a", "b"}, v \in {IntV(1), IntV(2), NullV}, r \in BOOLEAN, t \in 0..2} \cup {Wm(1), Wm(2)}
'''


def pipe_random_scripts(rng, n, maxlen, late):
    out = []
    rows = [[V_time(1), V_str(nm), v] for nm in ("a", "b", "c") for v in (V_int(1), V_int(2), V_int(3), NULL)]
    aggs = [{"k": "count", "c": 3}, {"k": "sum", "c": 3}]
    plain = lambda trig: {"op": "gb", "keys": [2], "aggs": aggs, "ktidx": 0, "trig": trig, "simple": False}
    timegb = {"op": "gb", "keys": [1, 2], "aggs": aggs, "ktidx": 1, "trig": [{"k": "wm"}], "simple": False}
    jt = [[V_int(1), V_str("a")], [V_int(1), V_str("b")], [V_int(2), V_str("a")], [V_int(3), V_str("c")]]
    pipes = [[{"op": "filter", "col": 3, "eq": V_int(1)}, plain([{"k": "count", "n": 1}])],
             [{"op": "etbuf"}, timegb],
             [{"op": "map", "cols": [3, 2, 3]}, {"op": "distinct"}],
             [{"op": "lookup", "col": 3, "jcol": 1, "table": jt, "tflags": [False] * 4}, {"op": "orderby", "keys": [5, 2], "dirs": [-1, 1], "limit": -1}],
             [{"op": "distinct"}, {"op": "filter", "col": 3, "eq": V_int(2)}, {"op": "etbuf"}],
             [plain([{"k": "count", "n": 2}, {"k": "eos"}]), {"op": "orderby", "keys": [2], "dirs": [-1], "limit": 1}],
             [plain([{"k": "count", "n": 1}]), {"op": "orderby", "keys": [3, 1], "dirs": [1, 1], "limit": 2}],
             [plain([{"k": "count", "n": 1}]), {"op": "orderby", "keys": [2, 1], "dirs": [-1, 1], "limit": 3}],
             [{"op": "etbuf"}, {"op": "filter", "col": 3, "eq": V_int(1)}, {"op": "etbuf"}],
             [{"op": "unnest_prep"}]]
    pipes = [p for p in pipes if p[0]["op"] != "unnest_prep"]
    if not late:
        pipes = [p for p in pipes if timegb not in p]
    # pipelines with an event-time buffer behind a stateful stage are exercised by the model's scripts only: the random generator gives every record its own
    # event time (zero or not), so a row's retraction may carry another time than its addition, and a buffer that sorts by event time then reorders the pair -
    # a property of that input universe, not of the pipeline
    pipes = [p for p in pipes if not any(st["op"] == "etbuf" for st in p[1:])]
    for _ in range(n):
        out.append({"cfg": {"op": "pipe", "stages": rng.choice(pipes)}, "in": random_script(rng, rows, maxlen, [0, 1, 2, 3, 4], max_wm=4, late=late)})
    return out


def sig_pipe(f):
    cfg = f["header"]["cfg"]
    return {"site": "pipeline " + ">".join(st["op"] for st in cfg["stages"]), "why": f["why"].split(":")[0], "reason": f["why"].split(":", 1)[-1].strip()[:60]}


def run_pipes(ctx, prop):
    """small pipelines of operators (the output changelog of one is the input of the next): model-checked composition, replay, trace validation"""
    thorough = ctx.tier == "thorough"
    rng = random.Random(ctx.seed * 6007 + 13)
    late = prop != "C18"
    randoms = pipe_random_scripts(rng, 2500 if thorough else 300, 50 if thorough else 25, late)
    run_ops(ctx, prop, "OpMC_pipe", PIPE_BODY, "PipeCfgsC18" if prop == "C18" else "PipeCfgs", "PipeUniverse", 3, randoms, sig_pipe, [prop], sample=0 if thorough else 2500)


def sig_ext(f):
    cfg = f["header"]["cfg"]
    sig = {"site": "nodes." + cfg["op"], "why": f["why"].split(":")[0], "reason": f["why"].split(":", 1)[-1].strip()[:60]}
    if cfg["op"] == "lookup":
        sig["joined_side_retracts"] = any(cfg.get("tflags", []))
    return sig


def sig_basic(f):
    cfg = f["header"]["cfg"]
    return {"site": "nodes." + cfg["op"], "why": f["why"].split(":")[0]}


def run_basic(ctx, prop):
    thorough = ctx.tier == "thorough"
    rng = random.Random(ctx.seed * 104729 + 5)
    late = prop != "C18"
    randoms = basic_random_scripts(rng, 1500 if thorough else 250, 60 if thorough else 30, late)
    run_ops(ctx, prop, "OpMC_basic", BASIC_BODY, "BasicCfgs", "BasicUniverse", 4 if thorough else 3, randoms, sig_basic, [prop],
            sample=0 if thorough else 2500)
