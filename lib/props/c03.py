"""C03 — GROUP BY and aggregates match relational semantics (Relational.tla family "group": AggValue / GbBatch) through the in-process
engine, plus node level: the same grouping through SimpleGroupBy (hash) and CustomTriggerGroupBy (btree) via the operator traces
(props/gb.py, clause C16/C15 'final consolidated output = batch GROUP BY')."""
import json
import props.rel as rel

LEVEL = "exploration"     # cases are drawn from the specification under the TLC seed (a sample of a large space), expected results computed by TLC


def run(ctx):
    n = 30000 if ctx.tier == "thorough" else 1500
    cases, res = rel.run_family(ctx, "group", n, "C03", "group by")
    rel.judge(ctx, cases, res, "C03", "group by", modes=("o", "n"))
    ctx.coverage["exhaustive"] = False
    ctx.coverage["rule"] = ("TLC draws (grouping query, table) under its seed: key sets {k, j, (k,j), k+1, none} x 3 of 12 aggregates (count(*), count, sum, avg, min, max, "
                            "array_agg, and DISTINCT variants, sum of an expression) x 4 WHERE clauses, tables of 0..5 rows with k in {NULL,0,1}, j in {'x','y'}, v in "
                            "{NULL,2,-3,5}; expected: one row per present key (NULL is a key), each aggregate over the group's non-NULL inputs, NULL when there is none, "
                            "AVG truncating toward zero, array_agg ascending. distinct_nontrivial = cases with non-empty input")


def replay(ctx, rec):
    print(json.dumps(rec, indent=1))
    return 0
