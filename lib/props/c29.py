"""C29 — query execution is free of data races and deadlocks.
Deadlock / termination (decided with TLA+): TLC checks JoinMC.tla (stream joins: every interleaving and close order) and JsonReader.tla
(reader, token channel, shared worker pool, reorder queue, early cancel, two readers, nested lookup shape) with deadlock checking ON and
termination as a liveness property under weak fairness; the real nodes then run the gated schedules and the delayed / early-stopped file
reads, and any run that stalls is reported.
Data races (NOT decided by TLA+; auxiliary runtime monitor): the same replayed schedules and traced executions run on harness and CLI
binaries built with -race (GOMAXPROCS 1, 2, 16; seeded delays in the JSON workers; LIKE / ~ / ~* in parallel; joins of JSON files; LIMIT
above joins; failing rows; stdin); a race report is a violation."""
import json
import os
import random
import re

import cli as climod
import core
import props.joins as joins
import props.c23 as c23

LEVEL = "model_checking"


def race_sites(text):
    out = []
    for blk in text.split("WARNING: DATA RACE")[1:]:
        fns = re.findall(r"\n\s+((?:github.com/cube2222/octosql|verifharness)[^\s(]+)\(", blk)
        out.append(" <-> ".join(dict.fromkeys(fns[:4])) or blk[:200])
    return out


def run(ctx):
    thorough = ctx.tier == "thorough"
    rng = random.Random(ctx.seed * 31 + 7)
    # ---------------- M: deadlock + termination ----------------
    r = ctx.tlc_ok("JoinMC_run", joins.mc_cfg(2, "FALSE"), files={"JoinMC_run.tla": joins.mc_module(["C19"])}, timeout=3000, deadlock=True)
    ctx.cover_tlc(r)
    ctx.notes.setdefault("models", []).append({"model": "JoinMC (MaxLen 2 per side, 4 join kinds)", "distinct_states": r.distinct, "checked": "deadlock, Terminates, PhaseOk"})
    for k, m in enumerate([(5, 2, 1, 1, "1, 2", "FALSE"), (5, 2, 1, 1, "1, 2", "TRUE"), (6, 1, 1, 1, "1", "FALSE")] + ([(7, 2, 2, 2, "1, 2", "FALSE")] if thorough else [])):
        r = ctx.tlc_ok("JsonReader", c23.JR_CFG % m, name="JsonReader_c29_%d" % k, deadlock=True, timeout=2400)
        ctx.cover_tlc(r)
        ctx.notes["models"].append({"model": "JsonReader %s" % (m,), "distinct_states": r.distinct, "checked": "deadlock, Termination"})
    # ---------------- R: the real code under -race ----------------
    pairs = ctx.read_ndjson("join_pairs.ndjson")
    sample = rng.sample(pairs, min(len(pairs), 1200 if thorough else 120)) + joins.random_pairs(rng, 600 if thorough else 60, 6, False, wm_heavy=True)
    inp = ctx.scratch + "/c29_pairs.ndjson"
    ctx.write_ndjson(inp, sample)
    races, stalls, nrun = [], [], 0
    for mode, extra in (("sample", ["-k", "6"]), ("free", ["-reps", "3"])):
        out = ctx.scratch + "/c29_join_%s.ndjson" % mode
        rc, text = ctx.driver("join-run", ["-in", inp, "-out", out, "-mode", mode, "-seed", ctx.seed] + extra, race=True, timeout=3000, allow_fail=True,
                              env={"GORACE": "halt_on_error=0 exitcode=0"})
        races += [("joins (%s schedules)" % mode, s) for s in race_sites(text)]
        if rc != 0 and "DATA RACE" not in text:
            raise core.Machinery("race build of join-run failed:\n" + text[-2000:])
        for e in ctx.read_ndjson(out):
            if e.get("ev") == "new":
                nrun += 1
                if str(e.get("diag", "")).startswith("DEAD"):
                    stalls.append(("join", e))
    d = os.path.join(ctx.scratch, "c29")
    os.makedirs(d)
    paths = {}
    for n in (200, 1000, 3000 if thorough else 1500):
        p = os.path.join(d, "r%d.json" % n)
        with open(p, "w") as f:
            for i in range(n):
                f.write(json.dumps({"id": i, "s": "Row%d" % (i % 13), "k": i % 50}) + "\n")
        paths[n] = p
    bad = os.path.join(d, "bad.json")
    with open(bad, "w") as f:
        for i in range(500):
            f.write(('{"id":%d,"s":"x"}' % i if i != 333 else '{"id":333,"s":') + "\n")
    big = paths[max(paths)]
    fcases = []
    for seed in range(10 if thorough else 2):
        h = {"kind": "delay", "seed": ctx.seed * 100 + seed}
        fcases += [{"id": "scan%d" % seed, "sql": "SELECT t.id AS id FROM %s t WHERE t.s LIKE 'Row1%%' OR t.s ~ 'w[0-9]$' OR t.s ~* 'ROW3'" % big, "hook": h},
                   {"id": "join%d" % seed, "sql": "SELECT a.id AS id FROM %s a JOIN %s b ON a.k = b.k WHERE a.s ~* 'row1'" % (paths[200], paths[1000]), "hook": h},
                   {"id": "join2sides%d" % seed, "sql": "SELECT a.id AS id FROM %s a JOIN %s b ON a.k = b.k WHERE a.s ~ 'Row1$' AND b.s ~ '^Row[0-9]$' AND a.s LIKE 'Row%%' AND b.s LIKE '_ow%%' AND b.s ~* 'ROW'" % (paths[1000], paths[1000]), "hook": h},
                   {"id": "join3%d" % seed, "sql": "SELECT a.id AS id FROM (SELECT x.id AS id, x.k AS k FROM %s x WHERE x.s ~ 'w1[0-2]?$' AND x.s LIKE 'Row1%%') a JOIN (SELECT y.id AS id, y.k AS k FROM %s y WHERE y.s ~ 'w[3-5]$' AND y.s LIKE '%%w_') b ON a.k = b.k" % (paths[1000], big), "hook": h},
                   {"id": "limitjoin%d" % seed, "sql": "SELECT a.id AS id FROM %s a JOIN %s b ON a.k = b.k LIMIT 5" % (paths[1000], paths[1000]), "hook": h},
                   {"id": "limit%d" % seed, "sql": "SELECT t.id AS id FROM %s t LIMIT 70" % big, "hook": h},
                   {"id": "fail%d" % seed, "sql": "SELECT t.id AS id FROM %s t JOIN %s u ON t.id = u.id" % (bad, paths[200]), "hook": h},
                   {"id": "lookup%d" % seed, "sql": "SELECT a.id AS id FROM %s a LOOKUP JOIN %s b ON a.id = b.id" % (paths[200], paths[200]), "hook": h},
                   {"id": "group%d" % seed, "sql": "SELECT t.k AS k, count(*) AS n FROM %s t GROUP BY t.k" % big, "hook": h}]
    finp, fout = ctx.scratch + "/c29_f.ndjson", ctx.scratch + "/c29_fr.ndjson"
    ctx.write_ndjson(finp, fcases)
    for procs in ("1", "2", "16"):
        rc, text = ctx.driver("file-run", ["-in", finp, "-out", fout], race=True, timeout=3000, allow_fail=True, env={"GOMAXPROCS": procs, "GORACE": "halt_on_error=0 exitcode=0"})
        races += [("file queries GOMAXPROCS=%s" % procs, s) for s in race_sites(text)]
        if rc != 0 and "DATA RACE" not in text:
            raise core.Machinery("race build of file-run failed:\n" + text[-2000:])
        for c, x in zip(fcases, ctx.read_ndjson(fout)):
            nrun += 1
            if x["stage"] == "dead":
                stalls.append(("file", {"sql": c["sql"], "GOMAXPROCS": procs, "hook": c["hook"]}))
    # the CLI binary built with -race
    cli = climod.Cli(ctx, race=True)
    jobs = []
    for procs in ("1", "2", "16"):
        for c in fcases[:9]:
            jobs.append({"args": [c["sql"], "-o", "json"], "cwd": d, "env": {"GOMAXPROCS": procs, "GORACE": "halt_on_error=0 exitcode=0"}, "timeout": 120})
        data = "".join(json.dumps({"id": i}) + "\n" for i in range(2000)).encode()
        jobs.append({"args": ["SELECT t.id AS id FROM stdin.json t LIMIT 3", "-o", "json"], "cwd": d, "stdin": data, "env": {"GOMAXPROCS": procs, "GORACE": "halt_on_error=0 exitcode=0"}, "timeout": 120})
    for j, (rc, o, err) in zip(jobs, cli.run_many(jobs, workers=6)):
        nrun += 1
        races += [("cli GOMAXPROCS=%s" % j["env"]["GOMAXPROCS"], s) for s in race_sites(err)]
        if rc == -9:
            stalls.append(("cli", {"sql": j["args"][0], "GOMAXPROCS": j["env"]["GOMAXPROCS"]}))
    seen = set()
    for where, site in races:
        key = re.sub(r"\.func\d+(\.\d+)*", ".func", site)
        if key in seen:
            continue
        seen.add(key)
        ctx.violation({"site": "race", "functions": key[:160]}, {"where": where}, expected="no data race report", observed=site, note="the Go race detector reported a data race")
    for kind, what in stalls:
        ctx.violation({"site": "stall", "kind": kind}, what, expected="the query terminates", observed="no termination within the time limit", note="execution stalled")
    ctx.cover(evaluations=nrun, distinct=nrun, sample={"sql": fcases[1]["sql"], "hook": fcases[1]["hook"]})
    ctx.notes.update({"race_detector_runs": nrun, "race_reports": len(races), "stalls": len(stalls)})
    ctx.coverage["exhaustive"] = False
    ctx.coverage["rule"] = ("models: states of JoinMC and JsonReader with deadlock checking and termination; real code: join schedules (gated samples + free runs) "
                            "and file queries (parallel JSON parsing with LIKE/~/~*, joins of two files sharing the worker pool, LIMIT above joins, a malformed row, "
                            "lookup join, group by) under seeded delays with GOMAXPROCS 1/2/16, all on -race builds; plus the CLI built with -race incl. stdin. "
                            "distinct_nontrivial = executions monitored")
    ctx.assumptions += ["data-race freedom is monitored by the Go race detector on these executions, not decided by the TLA+ model (which decides deadlock/termination)"]


def replay(ctx, rec):
    print(json.dumps(rec, indent=1))
    return 0
