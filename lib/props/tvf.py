"""Table-valued functions and the consistent-output wrapper through the generic operator pipeline (props/gb.py):
C20 max_diff_watermark, C21 tumble / range / poll, C22 InternallyConsistentOutputStreamWrapper."""
import random

import core
import props.gb as gb
from props.gb import V_int, V_str, V_time, NULL, random_script, run_ops

COUT_BODY = r'''
CoutCfgs == {[op |-> "cout"]}
CoutUniverse(c) == {Rec(<<TimeV(1), StrV(nm), IntV(1)>>, r, t) : nm \in {"a", "b"}, r \in BOOLEAN, t \in 0..2} \cup {Wm(1), Wm(2)}
'''

MDW_BODY = r'''
MdwCfgs == {[op |-> "mdw", col |-> 1, maxdiff |-> p[1], res |-> p[2], base |-> "std"] : p \in {<<0, 1>>, <<1, 1>>, <<2, 3>>, <<0, 2>>, <<3, 2>>}}
           \cup {[op |-> "mdw", col |-> 1, maxdiff |-> 1, res |-> 2, base |-> "pre"]}
MdwUniverse(c) == {Rec(<<TimeV(tv), StrV("a"), IntV(1)>>, r, 0) : tv \in 4..9, r \in BOOLEAN} \cup {Wm(5)}
'''

TVF_BODY = r'''
TumbleCfgs == {[op |-> "tumble", col |-> 1, len |-> p[1], off |-> p[2], base |-> b] : p \in {<<1, 0>>, <<2, 0>>, <<2, 1>>, <<3, 1>>, <<3, -2>>, <<3, 5>>}, b \in {"std", "pre"}}
RangeCfgs  == {[op |-> "range", start |-> a, end |-> b, viavar |-> v] : a \in -2..3, b \in -2..3, v \in BOOLEAN}
Snap       == {<<>>, <<<<StrV("a")>>>>, <<<<StrV("a")>>, <<StrV("b")>>>>, <<<<StrV("a")>>, <<StrV("a")>>>>}
PollCfgs   == {[op |-> "poll", rounds |-> <<s1>>] : s1 \in Snap} \cup {[op |-> "poll", rounds |-> <<s1, s2>>] : s1 \in Snap, s2 \in Snap}
              \cup {[op |-> "poll", rounds |-> <<s1, s2, s3>>] : s1 \in Snap, s2 \in Snap, s3 \in Snap}
TvfCfgs == TumbleCfgs \cup RangeCfgs \cup PollCfgs
TvfUniverse(c) == IF c.op = "tumble"
                  THEN {Rec(<<TimeV(tv), StrV("a"), IntV(1)>>, r, t) : tv \in 3..8, r \in BOOLEAN, t \in {0, 4}} \cup {Wm(3), Wm(6)}
                  ELSE {}
'''


def sig_tvf(f):
    cfg = f["header"]["cfg"]
    s = {"site": "op." + cfg["op"], "why": f["why"].split(":")[0], "reason": f["why"]}
    if "base" in cfg:
        s["base"] = cfg["base"]
    return s


def rows3(times, names=("a", "b"), xs=(1, 2)):
    return [[V_time(t), V_str(n), V_int(x)] for t in times for n in names for x in xs]


def run_cout(ctx, prop="C22"):
    thorough = ctx.tier == "thorough"
    rng = random.Random(ctx.seed * 31 + 3)
    rows = rows3([1], ("a", "b", "c"), (1,))
    randoms = [{"cfg": {"op": "cout"}, "in": random_script(rng, rows, 60 if thorough else 30, [0, 1, 2, 3, 4, 5], max_wm=5, late=True, p_retract=0.45)}
               for _ in range(2000 if thorough else 300)]
    run_ops(ctx, prop, "OpMC_cout", COUT_BODY, "CoutCfgs", "CoutUniverse", 5 if thorough else 4, randoms, sig_tvf, [prop],
            sample=60000 if thorough else 6000)


def run_mdw(ctx, prop="C20"):
    thorough = ctx.tier == "thorough"
    rng = random.Random(ctx.seed * 37 + 1)
    randoms = []
    for _ in range(1500 if thorough else 300):
        cfg = {"op": "mdw", "col": 1, "maxdiff": rng.randint(0, 4), "res": rng.choice([1, 2, 3, 4, 5, 6]), "base": rng.choice(["std", "std", "pre"])}
        rows = rows3(range(8, 40), ("a",), (1,))
        s = random_script(rng, rows, 60 if thorough else 30, [0], max_wm=20, late=True, p_wm=0.05, p_retract=0.2)
        randoms.append({"cfg": cfg, "in": s})
    run_ops(ctx, prop, "OpMC_mdw", MDW_BODY, "MdwCfgs", "MdwUniverse", 5 if thorough else 3, randoms, sig_tvf, [prop],
            sample=60000 if thorough else 6000)


def run_tvf21(ctx, prop="C21"):
    thorough = ctx.tier == "thorough"
    rng = random.Random(ctx.seed * 41 + 7)
    randoms = []
    for _ in range(1000 if thorough else 200):
        ln = rng.choice([1, 2, 3, 4, 5, 6])
        cfg = {"op": "tumble", "col": 1, "len": ln, "off": rng.randint(-7, 9), "base": rng.choice(["std", "pre"])}
        rows = rows3(range(1, 40), ("a", "b"), (1,))
        randoms.append({"cfg": cfg, "in": random_script(rng, rows, 40 if thorough else 20, [0, 3, 9], max_wm=9, late=True, p_retract=0.2)})
    for _ in range(300 if thorough else 60):
        a = rng.randint(-50, 50)
        randoms.append({"cfg": {"op": "range", "start": a, "end": a + rng.randint(-3, 40), "viavar": rng.random() < 0.5}, "in": []})
    for _ in range(200 if thorough else 40):
        k = rng.randint(1, 5)
        randoms.append({"cfg": {"op": "poll", "rounds": [[[V_str(rng.choice("abc"))] for _ in range(rng.randint(0, 4))] for _ in range(k)]}, "in": []})
    run_ops(ctx, prop, "OpMC_tvf", TVF_BODY, "TvfCfgs", "TvfUniverse", 3 if thorough else 2, randoms, sig_tvf, [prop],
            sample=60000 if thorough else 6000)


def control(ctx, prop, events):
    core.negative_control(ctx, "OpTraceMC", gb.tr_cfg([prop]), "op_trace.ndjson", events, files={"OpTraceMC.tla": gb.tr_module([prop])})
    ctx.notes["negative_control_rejected"] = True


def run_tvf(ctx, prop):
    """C18 on the table-valued functions (watermark monotonicity / no late output of max_diff_watermark and tumble)."""
    run_mdw(ctx, prop)
