"""C19 — stream joins are internally consistent under every schedule (StreamJoin.tla)."""
import json
import props.joins as joins

LEVEL = "model_checking"


def run(ctx):
    joins.run_joins(ctx, "C19")
    joins.control(ctx, ["C19"])
    ctx.coverage["exhaustive"] = ctx.tier == "thorough"
    ctx.coverage["rule"] = ("M: every pair of valid, non-late scripts up to 2 messages per side (one join key, one row per side, event times 0..2, +/-, "
                            "watermarks 1..2) x {inner, left, right, full} x every interleaving and close order (TLC, deadlock + termination checked). "
                            "R: the exported pairs (all in thorough, a seeded sample of 700 in quick) under every schedule on the real nodes, gated by the "
                            "JoinRecv hook. T: random pairs (3 keys, 2 rows per side, <= 8/14 messages per side) under free Go scheduling, 3-4 runs each. "
                            "TLC validates every recorded run: at every forwarded watermark W the consolidated output = join of the inputs at or below W; "
                            "at end of stream = join of the complete inputs. distinct_nontrivial = join runs validated")
    ctx.assumptions += ["inputs are valid changelogs without late records; join keys are non-NULL (NULL keys are decided by C02)"]


def replay(ctx, rec):
    print(json.dumps(rec, indent=1))
    return 0
