"""C30 — SQL formatting round-trips through the parser (SqlAst.tla).
TLC generates statements of the SqlAst universe under its seed (OctoSQL's SELECT language with its extensions: WITH, TRIGGER lists, table-valued
functions with =>, TABLE(), DESCRIPTOR(), LOOKUP / STREAM JOIN, ->, ->*, list indexing, regular-expression operators, nested unary operators,
back-quoted reserved words ...) and renders their text.  The real parser parses each text, prints the tree (sqlparser.String), parses the printed
text again and the two trees are compared by a reflective canonical dump that ignores only redundant parentheses.  Statements the parser rejects
are outside the property (counted).  The same round trip runs over the vendored parser test corpus and seeded token-level mutations of it."""
import json
import os
import random
import re

import core

LEVEL = "exploration"
CFG = "INIT Init\nNEXT Next\nCONSTANTS N = %d\n Depth = %d\n"
FEATS = [("trigger", r"\bTRIGGER\b"), ("counting", r"\bCOUNTING\b"), ("delay", r"AFTER DELAY"), ("eos", r"END OF STREAM"), ("watermark", r"ON WATERMARK"), ("with", r"^\s*WITH\b"),
         ("lookup", r"\bLOOKUP JOIN\b"), ("stream_join", r"\bSTREAM JOIN\b"), ("outer", r"\b(LEFT|RIGHT|OUTER) (OUTER )?JOIN\b"), ("tvf_arg", r"=>"), ("table_arg", r"TABLE\("),
         ("descriptor", r"DESCRIPTOR\("), ("field", r"->[`a-zA-Z]"), ("explode", r"->\*"), ("index", r"\]"), ("interval", r"\bINTERVAL\b"), ("regexp", r"!?~\*?"), ("union", r"\bUNION\b"),
         ("case", r"\bCASE\b"), ("exists", r"\bEXISTS\b"), ("between", r"\bBETWEEN\b"), ("cast", r"\bCAST\("), ("quoted_keyword", r"`(Order|select|Key|By|Group|FROM|Left|Join|trigger)`"),
         ("unary_chain", r"[-+~!] ?[-+~!]"), ("order_by", r"ORDER BY"), ("limit", r"\bLIMIT\b"), ("using", r"\bUSING\b"), ("distinct", r"\bDISTINCT\b")]


def feats(sql):
    return [n for n, rx in FEATS if re.search(rx, sql, re.I if n not in ("quoted_keyword",) else 0)]


def corpus():
    """the statements of the vendored parser tests: every `input: "..."` of parse_test.go and friends"""
    out = []
    d = os.path.join(core.REPO, "parser", "sqlparser")
    for fn in sorted(os.listdir(d)):
        if fn.endswith("_test.go"):
            text = open(os.path.join(d, fn), encoding="utf-8", errors="replace").read()
            for m in re.finditer(r'"((?:[^"\\\n]|\\.)*)"', text):
                try:
                    lit = json.loads('"' + m.group(1) + '"')
                except Exception:
                    continue
                if re.match(r"\s*(/\*.*?\*/\s*)?(select|insert|update|delete|with|stream|set|show|create|alter|drop|replace|use|begin|commit|rollback|explain|describe|truncate|analyze)\b", lit, re.I):
                    out.append(lit)
    return sorted(set(out))


TOKS = ["->", "->*", "=>", "~", "~*", "!~", "!~*", "!", "-", "+", "(", ")", ",", "[", "]", "`Order`", "`Key`", "a", "1", "'x'", "LOOKUP", "STREAM", "TRIGGER", "COUNTING", "ON WATERMARK",
        "ON END OF STREAM", "AFTER DELAY", "DESCRIPTOR(a)", "TABLE(t)", "INTERVAL 1 SECOND", "NOT", "IS NULL", "AS", "DESC", "null", "LIMIT 1", "OFFSET 1", "DISTINCT", "*", "."]


def mutate(rng, s):
    parts = re.findall(r"\s+|`[^`]*`|'(?:[^'\\]|\\.|'')*'|\"[^\"]*\"|[A-Za-z_][A-Za-z_0-9]*|\d+(?:\.\d+)?|->\*|->|=>|!~\*|!~|~\*|<=>|<=|>=|!=|<>|<<|>>|.", s)
    if not parts:
        return s
    for _ in range(rng.choice((1, 1, 2, 3))):
        i = rng.randrange(len(parts))
        op = rng.choice(("ins", "ins", "del", "rep", "dup", "swap"))
        if op == "ins":
            parts.insert(i, " " + rng.choice(TOKS) + " ")
        elif op == "del":
            del parts[i]
        elif op == "rep":
            parts[i] = " " + rng.choice(TOKS) + " "
        elif op == "dup":
            parts.insert(i, parts[i])
        elif len(parts) > 1:
            j = rng.randrange(len(parts))
            parts[i], parts[j] = parts[j], parts[i]
        if not parts:
            break
    return "".join(parts)


def run(ctx):
    thorough = ctx.tier == "thorough"
    rng = random.Random(ctx.seed)
    n = 400000 if thorough else 5000
    ctx.tlc_ok("SqlCases", CFG % (n, 3), workers=1, timeout=3000, heap="10g")
    gen = [dict(c, src="SqlAst") for c in ctx.read_ndjson("c30_cases.ndjson")]
    base = corpus()
    if len(base) < 100:
        raise core.Machinery("only %d statements found in the vendored parser tests" % len(base))
    cor = [{"sql": s, "src": "corpus"} for s in base]
    pool = base + [c["sql"] for c in gen[:2000]]
    mut = [{"sql": mutate(rng, rng.choice(pool)), "src": "mutation"} for _ in range(600000 if thorough else 8000)]
    cases = gen + cor + mut
    for i, c in enumerate(cases):
        c["id"] = i
    inp, out = ctx.scratch + "/c30_q.ndjson", ctx.scratch + "/c30_r.ndjson"
    ctx.write_ndjson(inp, [{"id": c["id"], "sql": c["sql"]} for c in cases])
    ctx.driver("sql-roundtrip", ["-in", inp, "-out", out], timeout=3000)
    res = ctx.read_ndjson(out)
    if len(res) != len(cases):
        raise core.Machinery("sql-roundtrip returned %d results for %d cases" % (len(res), len(cases)))
    accepted = {"SqlAst": 0, "corpus": 0, "mutation": 0}
    total = {"SqlAst": 0, "corpus": 0, "mutation": 0}
    fcount = {}
    for c, x in zip(cases, res):
        total[c["src"]] += 1
        if x["stage"] == "parse1":
            continue
        accepted[c["src"]] += 1
        f = feats(c["sql"])
        for k in f:
            fcount[k] = fcount.get(k, 0) + 1
        kind = x.get("kind", "")
        if x["stage"] == "panic":
            where = "Parse" if "printed" not in x else "Parse(String(..))"
            ctx.violation({"site": "sqlparser", "why": "panic", "where": where, "err": re.sub(r"\d+", "N", x["err"])[:60], "src": c["src"]}, {"sql": c["sql"]}, expected="a tree or a syntax error",
                          observed=x["err"][:300], note="the parser / printer panicked")
        elif x["stage"] == "parse2":
            # recorded classes get their own attribute: vitess' placeholder statements, and names that need back quotes sitting in nodes the vendored
            # printer writes as plain text (decided on the tree by the driver)
            placeholder = x["printed"].split(" ")[0] in ("otherread", "otheradmin")
            plain = x.get("quoted_names_in_plain_text_nodes", [])
            # an empty string literal used as a table alias / CTE name (the grammar takes a STRING there): there is no way to print an empty identifier
            empty_alias = bool(re.search(r"''|\"\"", c["sql"])) and bool(re.search(r"\bWITH  AS\b|,  AS \(|\bas  |\bas$|\bas \)", x["printed"]))
            ctx.violation({"site": "sqlparser.String", "why": "printed text does not parse", "features": f[:6], "src": c["src"], "placeholder_statement": placeholder, "quoted_name_in_plain_text_node": bool(plain), "nodes": plain, "empty_string_alias": empty_alias},
                          {"sql": c["sql"]}, expected="String(Parse(s)) parses",
                          observed={"printed": x["printed"], "error": x["err"]}, note="the printed statement is rejected by the parser")
        elif not x["equal"]:
            d1, d2 = x["diff1"], x["diff2"]
            i = 0
            while i < min(len(d1), len(d2)) and d1[i] == d2[i]:
                i += 1
            node = re.findall(r"([A-Z][A-Za-z]+)\{[^{}]*$", d1[:i])
            field = re.findall(r"([A-Z][A-Za-z]+):[^: ]*$", d1[:i])
            plain = x.get("quoted_names_in_plain_text_nodes", [])
            ctx.violation({"site": "sqlparser.String", "why": "reparsed tree differs", "node": (node[-1] if node else ""), "field": (field[-1] if field else ""), "src": c["src"],
                           "quoted_name_in_plain_text_node": bool(plain), "nodes": plain},
                          {"sql": c["sql"]}, expected="the same tree", observed={"printed": x["printed"], "tree_before": d1[max(0, i - 80):i + 80], "tree_after": d2[max(0, i - 80):i + 80]},
                          note="Parse(String(Parse(s))) differs from Parse(s)")
    if accepted["SqlAst"] < 0.5 * total["SqlAst"]:
        raise core.Machinery("the parser accepts only %d of %d generated statements" % (accepted["SqlAst"], total["SqlAst"]))
    missing = [n for n, _ in FEATS if fcount.get(n, 0) < 5]
    if missing:
        raise core.Machinery("features never exercised by accepted statements: %s" % missing)
    ctx.cover(evaluations=len(cases), distinct=sum(accepted.values()), sample={"sql": gen[3]["sql"]})
    ctx.notes.update({"statements": total, "accepted_by_parser": accepted, "accepted_statements_per_feature": fcount})
    ctx.coverage["exhaustive"] = False
    ctx.coverage["rule"] = ("statements generated by SqlAst.tla under the TLC seed (depth <= 3), the vendored parser test inputs, and seeded token-level mutations of both; "
                            "distinct_nontrivial = statements the parser accepted, each round-tripped and compared")
    ctx.assumptions += ["tree equality ignores redundant parentheses only (reflective dump of every field, incl. unexported ones)"]


def replay(ctx, rec):
    print(json.dumps(rec, indent=1))
    return 0
