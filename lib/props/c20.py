"""C20 — max_diff_watermark generates correct watermarks (Tvf.tla MdwStep, evaluated by TLC on traces of the real node built
through table_valued_functions.MaxDiffWatermark.Descriptors[0].Materialize)."""
import json
import props.tvf as tvf
from props.gb import V_int, V_str, V_time

LEVEL = "model_checking"


def run(ctx):
    tvf.run_mdw(ctx, "C20")
    cfg = {"op": "mdw", "col": 1, "maxdiff": 1, "res": 1, "base": "std"}
    rec = {"m": "rec", "v": [V_time(5), V_str("a"), V_int(1)], "r": False, "t": 0}
    tvf.control(ctx, "C20", [{"ev": "new", "cfg": cfg}, {"ev": "in", "msg": rec, "out": [dict(rec, t=5), {"m": "wm", "w": 5}]}])
    ctx.coverage["exhaustive"] = True
    ctx.coverage["rule"] = ("every input sequence up to MaxLen over time values 4..9 (in/out of order, duplicates, retractions, a source watermark) for 6 "
                            "(max_diff, resolution, base instant) configurations incl. a pre-1970 base, plus seeded random sequences (times 8..39, max_diff 0..4, "
                            "resolution 1..6 s); after every record TLC compares the real node's output with the specification: dropped iff time <= current "
                            "watermark, else forwarded unchanged with event time = time field; watermark iff the rounded-down time exceeds the largest seen, "
                            "value = rounded - max_diff, strictly increasing; source watermarks not forwarded. distinct_nontrivial = traces validated")
    ctx.assumptions += ["time values are whole seconds; resolutions divide the distance of the base instants to the Unix epoch"]


def replay(ctx, rec):
    print(json.dumps(rec, indent=1))
    return 0
