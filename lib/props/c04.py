"""C04 — query optimisation never changes results.  Every TLC-generated (query, database) case of the single / join / group families and
of a family aimed at the rewrite rules (unused aggregates and keys of grouping subqueries, constant / one-sided / mixed predicates above
joins, filters above filters, joins over filtered subqueries with unused columns) runs with --optimize on and off; both results are
compared with Sem (Relational.tla), so a disagreement is attributed to one side, and with each other.  The datasource honours the
pruned schema it is given, as the file datasources must."""
import json
import props.rel as rel

LEVEL = "translation_validation"


def run(ctx):
    thorough = ctx.tier == "thorough"
    total = 0
    for fam, n in (("opt", 15000 if thorough else 1200), ("single", 10000 if thorough else 600), ("join", 10000 if thorough else 600), ("group", 8000 if thorough else 400)):
        cases, res = rel.run_family(ctx, fam, n, "C04", "optimizer")
        rel.judge(ctx, cases, res, "C04", "optimizer", c04=True)
        total += len(cases)
    c = ctx.coverage
    c["programs"] = total
    c["disagreements_checked"] = 2 * total
    c["exhaustive"] = False
    c["rule"] = ("programs = generated (query, database) cases, each executed with the optimiser on and off; disagreements_checked = executions compared with the "
                 "specification's result; distinct_nontrivial = cases with non-empty input")


def replay(ctx, rec):
    print(json.dumps(rec, indent=1))
    return 0
