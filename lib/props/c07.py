"""C07 — no query or input crashes the process.
Corpus: (a) the SQL text of TLC-generated queries of every Relational.tla family, (b) the same after seeded token mutations (delete /
duplicate / swap / replace by keyword or edge literal), (c) an edge catalogue of expressions (division by zero, negative and
out-of-range indexes, negative repeat counts, extreme ints, tuples, subqueries, COALESCE, field access, aggregates without arguments)
placed in the projection, WHERE, JOIN ON, GROUP BY key and ORDER BY, (d) input files whose later rows differ from the previewed
schema.  Everything runs through the in-process engine (which reports a Go panic outside the typechecker as stage 'panic': cmd/root.go
recovers only typecheck panics) and a sample through the real binary, whose stderr must not contain a Go panic trace and whose exit
status must be 0 or 1.  Oracle: no panic; nothing about result values."""
import json
import os
import random
import re

import cli as climod
import core
import props.rel as rel

LEVEL = "exploration"

EDGE_EXPRS = [
    "t.a / 0", "t.a / (t.a - t.a)", "t.c / (t.c - t.c)", "9223372036854775807 + t.c", "abs(0 - 9223372036854775807 - 1)", "(0 - 9223372036854775807 - 1) / (0 - 1)",
    "substr(t.b, 0 - 1)", "substr(t.b, 1, 0 - 1)", "substr(t.b, 100)", "substr(t.b, 0, 100)", "t.b * (0 - 1)", "t.b * 3", "(0 - 1) * t.b", "reverse(t.b)",
    "position(t.b, '')", "replace(t.b, '', 'z')", "t.b LIKE '\\\\'", "t.b LIKE '%\\\\'", "t.b ~ '('", "t.b ~* '['", "t.b ~ '\\\\'",
    "int(t.b)", "float(t.b)", "int(t.b) + 1", "string(t.a)", "len(t.b)", "coalesce(t.a, t.c)", "coalesce(int(t.b), 0)", "coalesce(t.b, 'x')",
    "t.a IN (1, 2)", "t.a IN (t.c, t.a)", "(t.a, t.c) IN ((1, 1), (0, 2))", "t.a NOT IN (1, NULL)", "t.a IN (SELECT u.c FROM mem.t u)", "(SELECT u.c FROM mem.t u)",
    "t.a IS NULL", "NULL", "NULL + 1", "NULL = NULL", "NOT NULL", "0 - t.a", "- t.a", "~t.a", "t.a % 0", "t.a & 1", "sqrt(0.0 - 1.0)", "log(0.0)", "pow(0.0, 0.0 - 1.0)",
    "time_from_unix(9223372036854775807)", "time_to_unix(time_from_unix(t.a))", "now()", "panic('x')", "count(t.a)", "count()", "sum()", "t.nosuch", "nosuch(t.a)",
    "t.a -> x", "t.b -> x", "t.a[0]", "[1, 2, 3][0 - 1]", "[1, 2, 3][3]", "[][0]", "[1, 'a'][1]", "len([1, 2])", "CAST(t.a AS String)", "t.a::String", "t.b::Int",
    "t.l[2]", "t.l[0]", "t.l[0 - 1]", "t.l[5]", "len(t.l)", "t.l", "1 IN t.l",
    "INTERVAL 1 SECOND", "now() + INTERVAL 1 DAY", "(t.a", "t.a +", "'unterminated",
]
PLACES = [
    "SELECT {e} AS x FROM mem.t t",
    "SELECT t.a AS a FROM mem.t t WHERE {e}",
    "SELECT t.a AS a FROM mem.t t WHERE ({e}) IS NOT NULL",
    "SELECT t.a AS a, u.c AS c FROM mem.t t JOIN mem.t u ON t.c = u.c AND {e}",
    "SELECT t.a AS a, u.c AS c FROM mem.t t JOIN mem.t u ON {e}",
    "SELECT t.a AS a, u.c AS c FROM mem.t t JOIN mem.t u ON t.c = u.c WHERE {e}",
    "SELECT t.a AS a, u.c AS c FROM mem.t t LEFT JOIN mem.t u ON t.c = u.c WHERE ({e}) IS NULL",
    "SELECT t.a AS a, u.c AS c FROM mem.t t LOOKUP JOIN mem.t u ON t.c = u.c AND ({e}) IS NOT NULL",
    "SELECT {e} AS k, count(*) AS n FROM mem.t t GROUP BY {e}",
    "SELECT t.a AS a FROM mem.t t ORDER BY {e}",
    "SELECT q.x AS x FROM (SELECT {e} AS x FROM mem.t t) q WHERE q.x IS NOT NULL",
    "SELECT t.a AS a FROM mem.t t LIMIT {e}",
    "SELECT DISTINCT {e} AS x FROM mem.t t ORDER BY x LIMIT 2",
]
KEYWORDS = ["SELECT", "FROM", "WHERE", "GROUP BY", "ORDER BY", "LIMIT", "JOIN", "ON", "AND", "OR", "NOT", "NULL", "AS", "DISTINCT", "(", ")", ",", "*", "0", "-1", "''",
            "9223372036854775808", "IS", "IN", "LIKE", "TRIGGER COUNTING 0", "WITH", "=>", "DESCRIPTOR(a)", "TABLE(t)", "[", "]", "->", "::"]


def mutate(rng, sql):
    toks = re.findall(r"'[^']*'|[A-Za-z_][A-Za-z0-9_.]*|\d+|<=|>=|!=|[^\s]", sql)
    if not toks:
        return sql
    k = rng.randrange(4)
    i = rng.randrange(len(toks))
    if k == 0:
        del toks[i]
    elif k == 1:
        toks.insert(i, toks[i])
    elif k == 2:
        j = rng.randrange(len(toks))
        toks[i], toks[j] = toks[j], toks[i]
    else:
        toks[i] = rng.choice(KEYWORDS)
    return " ".join(toks)


def run(ctx):
    thorough = ctx.tier == "thorough"
    rng = random.Random(ctx.seed * 7 + 3)
    corpus = []
    tables = None
    for fam, n in (("single", 150), ("join", 100), ("group", 100), ("opt", 100)):
        ctx.tlc_ok("RelCases", rel.CFG % (fam, n * (4 if thorough else 1)), workers=1, timeout=1800)
        for c in ctx.read_ndjson("rel_cases.ndjson"):
            corpus.append((rel.tables_json(c["db"]), c["sql"], "generated:" + fam))
    nmut = 12 if thorough else 4
    base = list(corpus)
    for t, sql, tag in base:
        for _ in range(nmut):
            corpus.append((t, mutate(rng, sql), "mutated:" + tag.split(":")[1]))
    # edge catalogue over a fixed table
    INT, STR = {"k": "prim", "n": "Int"}, {"k": "prim", "n": "String"}
    NI = {"k": "union", "a": [{"k": "prim", "n": "Null"}, INT]}
    iv = lambda i: {"t": "int", "i": i}
    LST = {"k": "list", "le": INT}
    lv = lambda xs: {"t": "list", "l": [iv(x) for x in xs]}
    edge_t = {"t": {"fields": [["a", NI], ["b", STR], ["c", INT], ["l", LST]],
                    "rows": [[iv(1), {"t": "str", "s": "x"}, iv(1), lv([1, 2])], [{"t": "null"}, {"t": "str", "s": "12"}, iv(2), lv([])], [iv(0), {"t": "str", "s": "é€"}, iv(1), lv([7, 8, 9])],
                             [iv(-7), {"t": "str", "s": ""}, iv(0), lv([5])]]}}
    for e in EDGE_EXPRS:
        for pl in PLACES:
            corpus.append((edge_t, pl.format(e=e), "edge"))
    q = []
    for i, (t, sql, tag) in enumerate(corpus):
        q.append({"id": i, "tables": t, "sql": sql, "optimize": True})
    inp, out = ctx.scratch + "/c07_q.ndjson", ctx.scratch + "/c07_r.ndjson"
    ctx.write_ndjson(inp, q)
    rc, dout = ctx.driver("sql-run", ["-in", inp, "-out", out], timeout=3000, allow_fail=True)
    if rc != 0:
        if "goroutine " not in dout:
            raise core.Machinery("driver sql-run failed:\n" + dout[-2000:])
        # a panic in a goroutine of the engine (e.g. a join input) killed the harness process itself: re-run every case in its own process
        ctx.notes["driver_crashed_rerun_isolated"] = True
        ctx.driver("sql-run", ["-in", inp, "-out", out, "-isolate"], timeout=3000)
    stages = {}
    panics = []
    for (t, sql, tag), x in zip(corpus, ctx.read_ndjson(out)):
        stages[x["stage"] or "ok"] = stages.get(x["stage"] or "ok", 0) + 1
        if x["stage"] == "panic":
            panics.append((sql, tag, x["err"], t))
            where = re.sub(r"0x[0-9a-f]+|\d+", "N", x["err"])[:80]
            ctx.violation({"site": "engine", "panic": where, "corpus": tag.split(":")[0]}, {"sql": sql, "tables": t}, expected="a result or a reported error", observed=x["err"][:300],
                          note="Go panic outside the typechecker (would crash the CLI)")
    ctx.cover(evaluations=len(corpus), distinct=len(set(s for _, s, _ in corpus)), sample={"sql": corpus[-1][1], "tag": corpus[-1][2]})
    ctx.notes["engine"] = {"queries": len(corpus), "stages": stages}
    # ---------------- the real binary: a sample of the corpus + inputs that differ from their preview ----------------
    cli = climod.Cli(ctx)
    d = os.path.join(ctx.scratch, "c07cli")
    os.makedirs(d)
    climod.write_csv(os.path.join(d, "t.csv"), ["a", "b", "c"], [{"a": iv(1), "b": {"t": "str", "s": "x"}, "c": iv(1)}, {"a": {"t": "null"}, "b": {"t": "str", "s": "12"}, "c": iv(2)},
                                                                  {"a": iv(0), "b": {"t": "str", "s": "y"}, "c": iv(1)}])
    later = ['{"a":"str","b":1}', '{"a":[1,2],"b":1}', '{"a":{"x":1},"b":1}', '{"b":1}', '{"a":1,"b":1,"zzz":5}', '{"a":null,"b":null}', '{"a":1.5e300,"b":1}', '{"a":true,"b":"s"}', '[1,2]', '"str"', '{}']
    names = []
    for k, lt in enumerate(later):
        name = "drift%d.json" % k
        with open(os.path.join(d, name), "w") as f:
            f.write("\n".join(['{"a":%d,"b":%d}' % (i, i) for i in range(120)]) + "\n" + lt + "\n")
        names.append(name)
    for k, row in enumerate(["str,1", "1", "1,2,3", ",", '"a""b",1', "1e400,1", " 1,1"]):
        name = "drift%d.csv" % k
        with open(os.path.join(d, name), "w") as f:
            f.write("a,b\n" + "\n".join("%d,%d" % (i, i) for i in range(120)) + "\n" + row + "\n")
        names.append(name)
    jobs, meta = [], []
    for name in names:
        for sql in ("SELECT * FROM {f} t", "SELECT t.a + 1 AS x FROM {f} t", "SELECT t.a AS a, count(*) AS n FROM {f} t GROUP BY t.a", "SELECT * FROM {f} t ORDER BY t.a", "SELECT t.a AS a FROM {f} t WHERE t.b > 5"):
            for mode in ("json", "csv", "batch_table"):
                jobs.append({"args": [sql.format(f=name), "-o", mode], "cwd": d})
                meta.append((sql.format(f=name), mode, "drift"))
    # every output mode must be able to print every kind of value (nested values, NULL-only columns, wide unions, special floats)
    with open(os.path.join(d, "nested.json"), "w") as f:
        f.write('{"l":[1,2],"o":{"x":1,"y":[true,null]},"e":[],"n":null,"m":1,"s":"a,b\\"c\\nd"}\n{"l":["x",[1]],"o":{"x":"s"},"e":[[]],"n":null,"m":"t","s":""}\n')
    with open(os.path.join(d, "special.csv"), "w") as f:
        f.write("f,g\nNaN,1\nInf,\n-Inf,2\n1e308,3\n")
    for sql in ("SELECT * FROM nested.json t", "SELECT t.l AS l, t.o AS o FROM nested.json t ORDER BY t.m", "SELECT t.l[0] AS a, t.o->x AS b, (t.m, t.s) AS tup FROM nested.json t",
                "SELECT (SELECT u.m FROM nested.json u) AS sub FROM nested.json t", "SELECT * FROM special.csv t", "SELECT t.f * 2 AS d, t.g AS g FROM special.csv t ORDER BY t.f"):
        for mode in ("json", "csv", "batch_table", "live_table", "stream_native"):
            jobs.append({"args": [sql, "-o", mode], "cwd": d})
            meta.append((sql, mode, "values"))
    edge_cli = [pl.format(e=e) for e in EDGE_EXPRS for pl in (PLACES if thorough else PLACES[:6])]
    pool = [s for _, s, tag in corpus if tag.startswith("mutated")]
    sample = rng.sample(pool, min(len(pool), 600 if thorough else 120))
    for sql in edge_cli + sample:
        s2 = sql.replace("mem.t ", "t.csv ")
        if "mem." in s2:
            continue
        jobs.append({"args": [s2, "-o", rng.choice(["json", "csv", "batch_table", "stream_native"])], "cwd": d})
        meta.append((s2, jobs[-1]["args"][2], "corpus"))
    for opts in (["--describe"], ["--explain", "1"], ["-o", "nosuchformat"], ["--optimize=false", "-o", "json"]):
        jobs.append({"args": ["SELECT * FROM t.csv t"] + opts, "cwd": d})
        meta.append(("SELECT * FROM t.csv t " + " ".join(opts), "-", "options"))
    outs = cli.run_many(jobs)
    ncli = 0
    for (sql, mode, kind), (rc, o, err) in zip(meta, outs):
        ncli += 1
        if ("panic(" in sql or "panic (" in sql) and "panic:" not in err:
            pass
        if climod.panicked(err) or rc not in (0, 1):
            if "panic(" in sql and "goroutine " not in err:
                continue      # the SQL function panic() reports an ordinary error that contains the word
            where = re.sub(r"0x[0-9a-f]+|\d+", "N", (err.split("panic:")[-1] if "panic:" in err else err)[:90])
            ctx.violation({"site": "cli", "panic": where.strip()[:70], "corpus": kind, "mode": mode}, {"sql": sql, "mode": mode}, expected="exit status 0 or 1 and no Go panic trace",
                          observed={"exit": rc, "stderr": err[-500:]}, note="the process crashed")
    ctx.cover(evaluations=ncli, distinct=ncli)
    ctx.notes["cli"] = {"runs": ncli}
    ctx.coverage["exhaustive"] = False
    ctx.coverage["rule"] = ("queries = TLC-generated SQL of the single/join/group/opt families + seeded token mutations of each + %d edge expressions x %d syntactic places; "
                            "CLI: 18 input files whose row 121 differs from the 100-row preview x 5 queries x 3 modes, the edge catalogue, a sample of the mutated "
                            "corpus and option variants. distinct_nontrivial = distinct query strings" % (len(EDGE_EXPRS), len(PLACES)))
    ctx.assumptions += ["mutations of spec-generated programs, not every query string; stdin and plugin paths are covered by C23/C26"]


def replay(ctx, rec):
    print(json.dumps(rec, indent=1))
    return 0
