"""C23 — file datasources return exactly the file's rows, in order.
M: TLC checks JsonReader.tla (reader goroutine, token channel, shared worker pool, per-reader output channel, reorder queue, consumer,
   early cancel; 1 and 2 readers; nested lookup-join shape): rows produced in file order, complete on normal termination, termination
   under fairness, no deadlock.  Lines.tla specifies separator splitting and exports every (content, separator) case up to MaxLen.
R: the real JSON datasource runs in-process with the JSONWorker hook as a gate forcing every permutation of batch completion for a
   4-batch file, and with seeded delays (T) on files whose row counts cross the batch (64), token (128 batches) and buffer boundaries;
   CSV / TSV with quoting, lines with custom separators, parquet round trip and data piped on stdin run through the real pipeline / CLI.
   The produced id sequence must be exactly 0..n-1 and the rows must carry the generated values."""
import itertools
import json
import os
import random

import cli as climod
import core

LEVEL = "model_checking"

JR_CFG = """SPECIFICATION Spec
CONSTANTS NLines = %d
 B = 2
 W = %d
 CapIn = 1
 CapOut = %d
 CapTok = %d
 Readers = {%s}
 AllowCancel = TRUE
 Nested = %s
INVARIANTS IsPrefixOrder Complete
PROPERTY Termination
"""


def gen_row(rng, i):
    words = ["", "plain", "with space", "quote\"inside", "comma,inside", "tab\tinside", "unicode é€😀", "back\\slash", "new\\nline-escaped", "{\"json\":1}"]
    return {"id": i, "s": rng.choice(words) + str(i % 7), "f": rng.choice([0.5, -1.25, 1e10, 3.0]), "b": rng.choice([True, False]),
            "n": None if i % 5 == 0 else i, "l": [i, i + 1][: i % 3], "o": {"x": i, "y": str(i)}}


def num(v):
    if v is None:
        return None
    t = v.get("t")
    if t == "int":
        return v["i"]
    if t == "float":
        return v["n"] / v["d"] if "n" in v else v.get("x")
    if t == "str":
        return v["s"]
    if t == "null":
        return None
    if t == "bool":
        return v["b"]
    return json.dumps(v)


def run(ctx):
    thorough = ctx.tier == "thorough"
    rng = random.Random(ctx.seed * 13 + 5)
    # ---------------- M ----------------
    models = [(5, 2, 1, 1, "1, 2", "FALSE"), (6, 1, 1, 1, "1", "FALSE"), (5, 2, 1, 1, "1, 2", "TRUE"), (4, 3, 2, 2, "1, 2", "FALSE")]
    if thorough:
        models += [(7, 2, 2, 2, "1, 2", "FALSE"), (6, 3, 1, 2, "1, 2", "TRUE")]
    for k, m in enumerate(models):
        r = ctx.tlc_ok("JsonReader", JR_CFG % m, name="JsonReader_%d" % k, deadlock=True, timeout=2400)
        ctx.cover_tlc(r)
        ctx.notes.setdefault("models", []).append({"NLines": m[0], "W": m[1], "CapOut": m[2], "CapTok": m[3], "Readers": m[4], "Nested": m[5], "distinct_states": r.distinct,
                                                   "checked": "IsPrefixOrder, Complete, Termination, deadlock"})
    d = os.path.join(ctx.scratch, "c23")
    os.makedirs(d)
    # ---------------- R / T: JSON lines through the real datasource in-process ----------------
    counts = [0, 1, 2, 63, 64, 65, 127, 128, 129, 200, 256, 1000] + ([8191, 8192, 8193, 20000] if thorough else [8193])
    cases, expect = [], {}
    for n in counts:
        rows = [gen_row(rng, i) for i in range(n)]
        path = os.path.join(d, "r%d.json" % n)
        with open(path, "w") as f:
            for r_ in rows:
                f.write(json.dumps(r_, ensure_ascii=False) + "\n")
        for seed in range(3 if thorough else 2):
            cid = "json:%d:delay%d" % (n, seed)
            cases.append({"id": cid, "sql": "SELECT t.id AS id, t.s AS s, t.n AS n FROM %s t" % path, "hook": {"kind": "delay", "seed": ctx.seed * 10 + seed}, "full": n <= 256})
            expect[cid] = rows
        if n == 256:
            for perm in itertools.permutations(range(4)):
                cid = "json:256:order" + "".join(map(str, perm))
                cases.append({"id": cid, "sql": "SELECT t.id AS id FROM %s t" % path, "hook": {"kind": "order", "order": list(perm), "batch": 64}})
                expect[cid] = rows
        if n >= 129:
            for k in (1, 64, 65, 130):
                cid = "json:%d:limit%d" % (n, k)
                cases.append({"id": cid, "sql": "SELECT t.id AS id FROM %s t LIMIT %d" % (path, k), "hook": {"kind": "delay", "seed": ctx.seed + k}})
                expect[cid] = rows[:k]
    # two readers sharing the worker pool: a self join
    p200 = os.path.join(d, "r200.json")
    cases.append({"id": "json:join", "sql": "SELECT a.id AS id, b.id AS id2 FROM %s a JOIN %s b ON a.id = b.id" % (p200, p200), "hook": {"kind": "delay", "seed": ctx.seed}})
    # CSV / TSV with quoting, embedded separators and newlines
    import csv as csvmod
    crow = lambda i: [i, rng.choice(["plain", "with,comma", 'with"quote', "multi\nline", " lead", "trail ", "é€", "e"]) + str(i), i * 2]
    for ext, delim in (("csv", ","), ("tsv", "\t")):
        for n in (0, 1, 99, 100, 101, 300):
            rows = [crow(i) for i in range(n)]
            path = os.path.join(d, "c%d.%s" % (n, ext))
            with open(path, "w", newline="") as f:
                w = csvmod.writer(f, delimiter=delim)
                w.writerow(["id", "s", "d"])
                w.writerows(rows)
            cid = "%s:%d" % (ext, n)
            cases.append({"id": cid, "sql": "SELECT t.id AS id, t.s AS s, t.d AS d FROM %s t" % path, "full": True})
            expect[cid] = [{"id": r_[0], "s": r_[1], "d": r_[2]} for r_ in rows]
    # lines with custom separators: every (content, separator) of Lines.tla
    ctx.tlc_ok("Lines", "INIT Init\nNEXT Next\nCONSTANT MaxLen = %d\n" % (6 if thorough else 5), workers=1, timeout=1800)
    lcases = ctx.read_ndjson("c23_lines.ndjson")
    if not thorough:
        lcases = rng.sample(lcases, 500)
    for k, lc in enumerate(lcases):
        path = os.path.join(d, "l%d.lines" % k)
        with open(path, "w") as f:
            f.write("".join(lc["s"]))
        cid = "lines:%d" % k
        cases.append({"id": cid, "sql": "SELECT t.number AS number, t.text AS text FROM `%s?sep=%s` t" % (path, "".join(lc["sep"])), "full": True})
        expect[cid] = [{"number": i, "text": "".join(t)} for i, t in enumerate(lc["rows"])]
    # long contents in run-length form (Lines.tla, LongCases): separators across the scanner's read edges
    longcases = ctx.read_ndjson("c23_lines_long.ndjson")
    for k, lc in enumerate(longcases):
        path = os.path.join(d, "ll%d.lines" % k)
        sep = "".join(lc["sep"])
        with open(path, "w") as f:
            f.write(sep.join("x" * n for n in lc["runs"]))
        cid = "lines:long%d" % k
        cases.append({"id": cid, "sql": "SELECT t.number AS number, t.text AS text FROM `%s?sep=%s` t" % (path, sep), "full": True})
        expect[cid] = [{"number": i, "text": "x" * n} for i, n in enumerate(lc["runs"])]
    inp, out = ctx.scratch + "/c23_q.ndjson", ctx.scratch + "/c23_r.ndjson"
    ctx.write_ndjson(inp, cases)
    ctx.driver("file-run", ["-in", inp, "-out", out], timeout=3000)
    nrows = 0
    for c, x in zip(cases, ctx.read_ndjson(out)):
        cid = c["id"]
        kind = cid.split(":")[0]
        sig = {"site": "datasources." + kind, "case": ":".join(cid.split(":")[2:])[:12] if kind == "json" else ""}
        if x["stage"] == "dead":
            ctx.violation(dict(sig, why="no termination"), {"sql": c["sql"], "hook": c.get("hook")}, observed=x["err"], note="the query did not terminate (C29)")
            continue
        if cid == "json:join":
            ids = sorted(int(num(v)) for v in x["first"] if v)
            if x["stage"] != "" or ids != list(range(200)):
                ctx.violation(dict(sig, why="join of two readers"), {"sql": c["sql"]}, expected="ids 0..199 once each", observed=x["err"] or ids[:10], note="two JSON readers sharing the worker pool")
            continue
        exp = expect[cid]
        if x["stage"] != "":
            if kind == "lines" and x["stage"] in ("parse", "typecheck"):
                continue
            if not exp and x["stage"] == "typecheck":
                continue      # an empty file has no schema: rejecting the column reference is a legitimate answer
            ctx.violation(dict(sig, why="error"), {"sql": c["sql"], "hook": c.get("hook")}, expected="%d rows" % len(exp), observed=x["stage"] + ": " + x["err"][:200], note="reading failed")
            continue
        first = [num(v) for v in x["first"]]
        want_first = [(r_["id"] if "id" in r_ else r_["number"]) for r_ in exp]
        nrows += len(first)
        if [float(a) if a is not None else None for a in first] != [float(a) for a in want_first]:
            bad = next((i for i in range(min(len(first), len(want_first))) if float(first[i]) != float(want_first[i])), min(len(first), len(want_first)))
            ctx.violation(dict(sig, why="order or completeness"), {"sql": c["sql"], "hook": c.get("hook"), "rows_in_file": len(exp)}, expected="ids %s..." % want_first[max(0, bad - 2):bad + 3],
                          observed={"rows": len(first), "around_first_difference": first[max(0, bad - 2):bad + 3]}, note="rows are not exactly the file's rows in file order")
            continue
        if c.get("full") and x["rows"]:
            for i, (row, e) in enumerate(zip(x["rows"], exp)):
                got = [num(v) for v in row]
                if kind == "json":
                    want = [e["id"], e["s"], e["n"]]
                elif kind in ("csv", "tsv"):
                    want = [e["id"], e["s"], e["d"]]
                else:
                    want = [e["number"], e["text"]]
                norm = lambda a: float(a) if isinstance(a, (int, float)) and not isinstance(a, bool) else a
                if [norm(a) for a in got] != [norm(a) for a in want]:
                    ctx.violation(dict(sig, why="row content"), {"sql": c["sql"], "row": i}, expected=want, observed=got, note="a row does not carry the values of the file's row")
                    break
    ctx.cover(evaluations=nrows, distinct=len(cases), sample={"id": cases[3]["id"], "sql": cases[3]["sql"], "hook": cases[3].get("hook")})
    # ---------------- stdin through the real binary (preview + rest) ----------------
    cli = climod.Cli(ctx)
    jobs, meta = [], []
    for n in (0, 1, 99, 100, 101, 5000 if thorough else 1500):
        data = "".join(json.dumps({"id": i, "s": "v%d" % i}) + "\n" for i in range(n))
        jobs.append({"args": ["SELECT t.id AS id FROM stdin.json t", "-o", "csv"], "cwd": d, "stdin": data.encode()})
        meta.append(("stdin.json", n))
        cdata = "id,s\n" + "".join("%d,v%d\n" % (i, i) for i in range(n))
        jobs.append({"args": ["SELECT t.id AS id FROM stdin.csv t", "-o", "csv"], "cwd": d, "stdin": cdata.encode()})
        meta.append(("stdin.csv", n))
    for (name, n), (rc, o, err) in zip(meta, cli.run_many(jobs)):
        got = [l for l in o.splitlines()[1:]]
        if n == 0 and rc != 0:
            continue      # an empty stdin has no schema: an error is a legitimate answer
        if rc != 0 or got != [str(float(i)).rstrip("0").rstrip(".") if name.endswith("json") else str(i) for i in range(n)]:
            if rc == 0 and [float(g) for g in got] == [float(i) for i in range(n)]:
                continue
            ctx.violation({"site": "files.stdin", "case": name}, {"table": name, "rows": n}, expected="ids 0..%d" % (n - 1), observed={"exit": rc, "rows": len(got), "stderr": err[-200:], "head": got[:5]},
                          note="data piped on stdin is not returned completely / in order")
    ctx.cover(evaluations=len(jobs), distinct=len(jobs))
    # ---------------- T: recorded executions of the reader / pool / consumer validated by TLC against JsonReaderTrace.tla ----------------
    tq = []
    sizes = [0, 1, 63, 64, 65, 200, 1000, 9000] + ([20000, 30000] if thorough else [])
    for n_ in sizes:
        pth = os.path.join(d, "trace%d.json" % n_)
        with open(pth, "w") as f:
            for i in range(n_):
                f.write(json.dumps({"id": i, "s": "v%d" % i}) + "\n")
        for seed, slow, lim in ((0, 0, -1), (ctx.seed * 7 + 1, 0, -1), (ctx.seed * 7 + 2, 3, -1), (ctx.seed * 7 + 3, 0, 70)):
            if n_ == 0 and seed:
                continue
            sql = "SELECT t.id AS id FROM %s t" % pth + (" LIMIT %d" % lim if lim >= 0 else "")
            tq.append({"id": len(tq), "sql": sql, "hook": {"kind": "trace", "seed": seed, "slow_every": slow}, "lines": n_, "limit": lim})
    inp, out = ctx.scratch + "/c23_tr_q.ndjson", ctx.scratch + "/c23_tr_r.ndjson"
    ctx.write_ndjson(inp, tq)
    ctx.driver("file-run", ["-in", inp, "-out", out], timeout=3000)
    events = []
    for c, x in zip(tq, ctx.read_ndjson(out)):
        if x["stage"] in ("typecheck", "parse"):
            continue          # an empty file has no schema
        events.append({"e": "new", "lines": c["lines"], "limit": c["limit"], "sql": c["sql"], "hook": c["hook"]})
        events += x.get("trace") or []
        events.append({"e": "end", "ok": x["stage"] == ""})
    tcfg = "SPECIFICATION TSpec\nINVARIANT LayerP\nPOSTCONDITION TraceAccepted\nCONSTANTS B = 64\n CapTok = 128\nCHECK_DEADLOCK FALSE\n"
    is_new = lambda e: e.get("e") == "new"
    fails, res, drifts, ntr = core.validate_trace(ctx, "JsonReaderTrace", tcfg, "json_trace.ndjson", events, is_new, timeout=3000)
    for f_ in fails:
        ctx.violation({"site": "datasources.json", "why": f_["why"][:60], "limit": f_["header"]["limit"] >= 0}, {"sql": f_["header"]["sql"], "hook": f_["header"]["hook"], "lines": f_["header"]["lines"]},
                      expected="rows in file order, each once, all of them (JsonReaderTrace.tla LayerP)", observed=f_["events"][max(0, f_["bad_index"] - 3):f_["bad_index"] + 2], note=f_["why"])
    ctx.cover(states=res.distinct if res else 0, transitions=res.generated if res else 0, traces=ntr, evaluations=len(events), distinct=ntr)
    ctx.notes["trace_validation"] = {"executions": ntr, "events": len(events), "layer_I_drift": drifts, "largest_file_lines": max(sizes)}
    # negative control: two rows swapped must be rejected
    ctl = [{"e": "new", "lines": 2, "limit": -1}, {"e": "read", "first": 0, "n": 2}, {"e": "parsed", "first": 0, "n": 2}, {"e": "take", "first": 0, "n": 2}, {"e": "row", "i": 1}, {"e": "row", "i": 0}, {"e": "end", "ok": True}]
    core.negative_control(ctx, "JsonReaderTrace", tcfg, "json_trace.ndjson", ctl)
    # ---------------- parquet: files written value by value with explicit repetition / definition levels ----------------
    pdir = os.path.join(d, "pq")
    os.makedirs(pdir)
    pcases = ctx.scratch + "/c23_pq_cases.ndjson"
    ctx.driver("parquet-gen", ["-dir", pdir, "-out", pcases, "-n", 40 if thorough else 12, "-rows", 300 if thorough else 60, "-seed", ctx.seed])
    files = ctx.read_ndjson(pcases)
    pq, pmeta = [], []
    for fcase in files:
        cols = fcase["cols"]
        subsets = [cols, [cols[-1]], [cols[-2], cols[0]], cols[1:4], [cols[4]], [cols[2], cols[5 if len(cols) > 5 else 1]]]
        for sub in subsets:
            pq.append({"id": len(pq), "sql": "SELECT %s FROM %s t" % (", ".join("t.%s AS %s" % (c_, c_) for c_ in sub), fcase["path"]), "full": True})
            pmeta.append((fcase, sub))
    inp, out = ctx.scratch + "/c23_pq_q.ndjson", ctx.scratch + "/c23_pq_r.ndjson"
    ctx.write_ndjson(inp, pq)
    ctx.driver("file-run", ["-in", inp, "-out", out], timeout=3000)
    npq = 0
    for (fcase, sub), c, x in zip(pmeta, pq, ctx.read_ndjson(out)):
        idx = [fcase["cols"].index(c_) for c_ in sub]
        want = [[row[i] for i in idx] for row in fcase["rows"]]
        sig = {"site": "datasources.parquet", "shape": fcase["shape"], "projection": "all" if len(sub) == len(fcase["cols"]) else "+".join(sub)}
        if x["stage"] != "":
            ctx.violation(dict(sig, why="error"), {"sql": c["sql"], "rows_in_file": len(want)}, expected="%d rows" % len(want), observed=x["stage"] + ": " + x["err"][:300], note="reading the parquet file failed")
            continue
        npq += len(x["rows"])
        if core.canon(x["rows"]) != core.canon(want):
            bad = next((i for i in range(min(len(want), len(x["rows"]))) if core.canon(want[i]) != core.canon(x["rows"][i])), min(len(want), len(x["rows"])))
            ctx.violation(dict(sig, why="row content" if len(want) == len(x["rows"]) else "row count"), {"sql": c["sql"], "row": bad, "rows_in_file": len(want)},
                          expected=want[bad] if bad < len(want) else "%d rows" % len(want), observed=x["rows"][bad] if bad < len(x["rows"]) else "%d rows" % len(x["rows"]),
                          note="a parquet row does not come back as the values that were written")
    ctx.cover(evaluations=npq, distinct=len(pq))
    ctx.notes["parquet"] = {"files": len(files), "queries": len(pq), "rows_compared": npq}
    ctx.coverage["exhaustive"] = False
    ctx.coverage["rule"] = ("JSON lines files of %s rows with strings (quotes, commas, unicode), floats, booleans, NULLs, lists and objects x seeded worker/reader delays; "
                            "all 24 completion orders of the 4 batches of a 256-row file forced through the JSONWorker gate; LIMIT 1/64/65/130 early stops; a self join "
                            "(two readers, one pool); parquet files (required / optional scalars, repeated scalars, required / optional / repeated groups) written with explicit Dremel levels, read whole and through 5 column projections; CSV and TSV with quoting, embedded separators and newlines around the 100-row preview boundary; every "
                            "(content <= MaxLen over {x ; |}, separator in 5 separators of length 1..3) of Lines.tla; stdin.json / stdin.csv through the real binary. "
                            "distinct_nontrivial = files x schedules" % counts)
    ctx.assumptions += ["parquet files are written with the page writer of the same (vendored) library the datasource reads with; the rows' repetition and definition levels are computed by the harness"]


def replay(ctx, rec):
    print(json.dumps(rec, indent=1))
    return 0
