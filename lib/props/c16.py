"""C16 — triggers change when results appear, never what the final result is.
See props/gb.py: GroupBy.tla Layer I (CustomTriggerGroupBy / SimpleGroupBy + Triggers.tla) against GbBatch at end of stream."""
import json
import props.gb as gb

LEVEL = "model_checking"


def run(ctx):
    gb.run_groupby(ctx, "C16")
    ctx.coverage["rule"] = ("M/R: every valid watermarked input changelog up to MaxLen over the GroupBy universes (time-keyed: 3 (key time, event time) "
                            "pairs x {1, NULL} x +/- ; plain: 2 keys x {1, NULL} x times 0..1 x +/-), for 10 trigger configurations (Counting n, Watermark, "
                            "EndOfStream, Multi combinations, and SimpleGroupBy); T: seeded random valid changelogs. Every script is run on the real node and "
                            "its trace validated by TLC (PFail: final consolidated output = batch GROUP BY of the consolidated input). "
                            "distinct_nontrivial = traces validated.")


def replay(ctx, rec):
    print(json.dumps(rec, indent=1))
    return 0
