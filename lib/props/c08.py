"""C08 — static types are sound.  (expression, static type, value) observations are recorded from the real typecheck -> materialise ->
evaluate pipeline for every function overload on the C12/C13 case catalogues (TLC-exported), with exact and with nullable argument
typings and NULL in each position, and from SQL queries over tables whose values match their schemas; TLC evaluates
ValueInType(value, reported type) (Types.tla, an independent reading of type terms) on every observation."""
import json
import core
import props.c13 as c13
import props.c12 as c12

LEVEL = "model_checking"
CFG = "INIT Init\nNEXT Next\n"


def prim(n):
    return {"k": "prim", "n": n}


def type_of(v):
    t = v.get("t")
    m = {"int": "Int", "float": "Float", "fsp": "Float", "bool": "Boolean", "str": "String", "time": "Time", "dur": "Duration", "null": "Null"}
    if t in m:
        return prim(m[t])
    if t == "list":
        es = [type_of(x) for x in v["l"]]
        uniq = []
        for e in es:
            if e not in uniq:
                uniq.append(e)
        if not uniq:
            return {"k": "listnone"}
        order = ["Null", "Int", "Float", "Boolean", "String", "Time", "Duration"]
        uniq.sort(key=lambda e: order.index(e["n"]) if e.get("k") == "prim" else 99)
        return {"k": "list", "le": uniq[0] if len(uniq) == 1 else {"k": "union", "a": uniq}}
    if t == "tuple":
        return {"k": "tuple", "te": [type_of(x) for x in v["tu"]]}
    return None


def nullable(t):
    if t == prim("Null"):
        return t
    if t.get("k") == "union":
        return t if prim("Null") in t["a"] else {"k": "union", "a": [prim("Null")] + t["a"]}
    return {"k": "union", "a": [prim("Null"), t]}


def fn_cases(ctx):
    """every function overload on the C12 / C13 argument catalogues x argument-type variants (exact, nullable, NULL in each position, 3-way unions)"""
    ctx.tlc_ok("NumericCases", c13.CFG, workers=1, timeout=1800)
    ctx.tlc_ok("StringCases", c12.CFG % (150 if ctx.tier == "quick" else 800), workers=1, timeout=3000, heap="14g")
    q = []
    for c in ctx.read_ndjson("c13_cases.ndjson"):
        if c["fn"] in ("unix_roundtrip", "coalesce_int_parse", "coalesce_float_parse"):
            continue
        args = [c13.conv(a) for a in c["args"]]
        q.append((c["fn"], args))
    for c in ctx.read_ndjson("c12_cases.ndjson"):
        q.append((c["fn"], [c12.arg(a) for a in c["args"]]))
    cases = []
    for fn, args in q:
        ts = [type_of(a) for a in args]
        if any(t is None for t in ts):
            continue
        cases.append({"id": len(cases), "fn": fn, "args": args, "types": ts, "variant": "exact"})
        nts = [nullable(t) for t in ts]
        cases.append({"id": len(cases), "fn": fn, "args": args, "types": nts, "variant": "nullable"})
        for pos in range(len(args)):
            a2 = list(args)
            a2[pos] = {"t": "null"}
            cases.append({"id": len(cases), "fn": fn, "args": a2, "types": nts, "variant": "null@%d" % pos})
        # columns with several alternatives (as CSV/JSON inference produces: NULL | Int | String): overloads are then resolved through
        # the type-assertion fallback of the typechecker
        if all(t.get("k") == "prim" and t["n"] != "Null" for t in ts):
            order = ["Null", "Int", "Float", "Boolean", "String", "Time", "Duration"]
            wide = []
            for t in ts:
                extra = "String" if t["n"] != "String" else "Int"
                alts = sorted({"Null", t["n"], extra}, key=order.index)
                wide.append({"k": "union", "a": [prim(n) for n in alts]})
            cases.append({"id": len(cases), "fn": fn, "args": args, "types": wide, "variant": "union3"})
            for pos in range(len(args)):
                a2 = list(args)
                a2[pos] = {"t": "null"}
                cases.append({"id": len(cases), "fn": fn, "args": a2, "types": wide, "variant": "union3-null@%d" % pos})
    return cases


def run(ctx):
    cases = fn_cases(ctx)
    inp, out = ctx.scratch + "/c08_q.ndjson", ctx.scratch + "/c08_r.ndjson"
    ctx.write_ndjson(inp, cases)
    ctx.driver("fn-eval", ["-in", inp, "-out", out], timeout=3000)
    seen = {}
    n_ok = 0
    for c, x in zip(cases, ctx.read_ndjson(out)):
        if x["stage"] != "":
            continue
        n_ok += 1
        v = x["value"]
        if v.get("t") == "float" and "x" in v:
            v = {"t": "float", "n": 1, "d": 3}      # any non-dyadic finite float: only its kind matters for type membership
        key = core.canon([c["fn"], c["types"], x["type"], v])
        if key not in seen:
            seen[key] = {"type": x["type"], "value": v, "ctx": {"fn": c["fn"], "argtypes": c["types"], "args": c["args"], "variant": c["variant"]}}
    # the same law at the level of whole queries: every value of every result column against the type the plan reports for that column
    # (aggregates over nullable inputs, outer-join padding, projections of subqueries ...)
    import props.rel as rel
    nq = 0
    for fam, n in (("group", 1500 if ctx.tier == "thorough" else 300), ("join", 800 if ctx.tier == "thorough" else 150), ("single", 800 if ctx.tier == "thorough" else 150)):
        qcases, qres = rel.run_family(ctx, fam, n, "C08", "query")
        for i, qc in enumerate(qcases):
            for m in ("o", "n"):
                x = qres["%d:%s" % (i, m)]
                if x["stage"] != "":
                    continue
                nq += 1
                for row in x["rows"]:
                    for (name, typ), v in zip(x["fields"], row["v"]):
                        key = core.canon(["sql", fam, typ, v.get("t"), v.get("t") == "null"])
                        if key not in seen:
                            seen[key] = {"type": typ, "value": v, "ctx": {"fn": "query:" + fam, "sql": qc["sql"], "column": name, "optimize": m == "o", "argtypes": [], "args": [], "variant": "result column"}}
    obs = list(seen.values())
    ctx.write_ndjson("c08_obs.ndjson", obs)
    ctx.tlc_ok("SoundCheck", CFG, workers=1, timeout=3000, heap="14g")
    viol = ctx.read_ndjson("c08_viol.ndjson")
    for v in viol:
        fn = v["ctx"]["fn"]
        if fn.startswith("query:"):
            sql = v["ctx"]["sql"].upper()
            ctx.violation({"site": "result column of a query", "family": fn[6:], "declared": json.dumps(v["type"], sort_keys=True), "value_kind": v["value"].get("t"),
                           "aggregate": next((a for a in ("SUM(", "AVG(", "MIN(", "MAX(", "COUNT(") if a in sql), "").strip("("), "outer_join": any(k in sql for k in ("LEFT JOIN", "RIGHT JOIN", "OUTER JOIN"))},
                          v["ctx"], expected="a value admitted by the reported column type %s" % json.dumps(v["type"]), observed=v["value"], note="a result value does not match the type reported for its column")
            continue
        argk = "+".join((t.get("n") or t.get("k")) if t.get("k") != "union" else "|".join((a.get("n") or a.get("k")) for a in t["a"]) for t in v["ctx"]["argtypes"])
        ctx.violation({"site": "functions." + fn, "declared": json.dumps(v["type"], sort_keys=True), "value_kind": v["value"].get("t"), "argtypes": argk},
                      v["ctx"], expected="a value admitted by the reported type %s" % json.dumps(v["type"]), observed=v["value"],
                      note="value does not match the static type of the expression")
    # negative control
    ctx.write_ndjson("c08_obs.ndjson", obs[:50] + [{"type": prim("Int"), "value": {"t": "null"}, "ctx": {"fn": "control"}}])
    ctx.tlc_ok("SoundCheck", CFG, workers=1, timeout=600)
    if not ctx.read_ndjson("c08_viol.ndjson"):
        raise core.Machinery("negative control not reported")
    ctx.cover(evaluations=n_ok, distinct=len(obs), sample=obs[len(obs) // 2])
    ctx.notes.update({"queries_observed": nq, "function_calls_evaluated": n_ok, "distinct_observations": len(obs), "negative_control_rejected": True})
    ctx.coverage["exhaustive"] = False
    ctx.coverage["rule"] = ("every function overload on the C12/C13 argument catalogues x {exact argument types, nullable argument types, NULL in each position}; an "
                            "observation is (function, static argument types, reported result type, value kind); distinct_nontrivial = distinct observations checked by TLC")


def replay(ctx, rec):
    print(json.dumps(rec, indent=1))
    return 0
