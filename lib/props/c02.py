"""C02 — join results match relational join semantics: CLI-level pipeline (Relational.tla family "join": inner / LEFT / RIGHT / OUTER /
LOOKUP joins, equality on nullable keys, extra conjuncts, key expressions, WHERE above the join) through the in-process engine with the
optimiser on and off, and node level under every schedule and close order (StreamJoin.tla, props/joins.py)."""
import json
import props.rel as rel

LEVEL = "model_checking"


def run(ctx):
    n = 20000 if ctx.tier == "thorough" else 1200
    cases, res = rel.run_family(ctx, "join", n, "C02", "join")
    rel.judge(ctx, cases, res, "C02", "join", modes=("o", "n"))
    rel.scaled_joins(ctx, cases, "C02", ncases=60 if ctx.tier == "thorough" else 16)
    import props.joins as joins
    joins.run_joins(ctx, "C02", tags=["C02"])
    ctx.coverage["exhaustive"] = False
    ctx.coverage["rule"] = ("TLC draws (join query, left table, right table) under its seed: kinds inner/left/right/outer/lookup x 5 ON conditions (key equality either way, "
                            "extra conjunct on either side, key expression) x 5 WHERE clauses, tables of 0..3 rows with keys in {NULL,0,1} (duplicates allowed); both "
                            "optimiser settings must equal the SQL join (NULL keys never match, unmatched outer rows once, NULL padded); 16 (thorough: 60) inner / lookup / LEFT "
                            "cases re-run with the left table repeated to more than 30 000 rows (K x L JOIN R = K x (L JOIN R)). Node level: every script pair "
                            "<= 2 messages per side under every interleaving and close order. distinct_nontrivial = cases with non-empty input + join runs validated")


def replay(ctx, rec):
    print(json.dumps(rec, indent=1))
    return 0
