"""C21 — tumble, range and poll produce their documented streams (Tvf.tla)."""
import json
import props.tvf as tvf
from props.gb import V_int, V_str, V_time

LEVEL = "model_checking"


def run(ctx):
    tvf.run_tvf21(ctx, "C21")
    tvf.control(ctx, "C21", [{"ev": "new", "cfg": {"op": "range", "start": 0, "end": 2}},
                             {"ev": "eos", "out": [{"m": "rec", "v": [V_int(0)], "r": False, "t": 0}]}])
    ctx.coverage["exhaustive"] = True
    ctx.coverage["rule"] = ("tumble: every input sequence up to MaxLen over times 3..8 x event time {none, 4} x +/- with watermarks, for 6 (length, offset) pairs "
                            "incl. negative and > length offsets and two base instants (one before 1970), plus random (length 1..6 s, offset -7..9 s); "
                            "range: all (start, end) in -2..3 squared plus random; poll: all sequences of <= 3 snapshots drawn from 4 snapshot shapes plus random, "
                            "the real poll node stopped by an error from its source after the last round (wall-clock instants renamed 1,2,.. by first appearance). "
                            "TLC checks each trace against Tvf.tla. distinct_nontrivial = traces validated")
    ctx.assumptions += ["window lengths are whole seconds 1..6 (they divide the distance between Go's zero time and the base instants, so the origin of "
                        "'multiple of the window length' does not matter); poll is observed by rounds, not by clock values"]


def replay(ctx, rec):
    print(json.dumps(rec, indent=1))
    return 0
