"""C06 — runtime errors are never swallowed (ErrorProp.tla).
TLC enumerates operator chains of height <= MaxH (filter, map, distinct, order by, group by, either side of stream / outer / lookup
joins, subquery expression, LIMIT) x the row at which the source fails, decides MustFail (the fault is reached under every evaluation
order) and renders the SQL; the query runs through the real pipeline over a source that returns an error at that row (engine), and
through the real binary over input files with a malformed JSON row, a CSV row with the wrong number of fields, an over-long line, and
failing expressions (panic(), a failed type assertion); whenever MustFail holds the run must end with an error (non-zero exit and a
message on stderr for the CLI)."""
import json
import os

import cli as climod
import core

LEVEL = "fault_enumeration"
CFG = "INIT Init\nNEXT Next\nCONSTANTS MaxH = %d\n"
INT = {"k": "prim", "n": "Int"}
STR = {"k": "prim", "n": "String"}


def iv(i):
    return {"t": "int", "i": i}


def sv(s):
    return {"t": "str", "s": s}


ROWS = [[iv(1), sv("x"), iv(1)], [iv(2), sv("y"), iv(2)], [iv(1), sv("z"), iv(1)], [iv(3), sv("x"), iv(2)]]
UROWS = [[iv(7), sv("u"), iv(1)], [iv(8), sv("v"), iv(2)]]
FIELDS = [["a", INT], ["b", STR], ["c", INT]]


def run(ctx):
    thorough = ctx.tier == "thorough"
    ctx.tlc_ok("ErrorCases", CFG % (3 if thorough else 2), workers=1, timeout=1800)
    cases = ctx.read_ndjson("c06_cases.ndjson")
    q = []
    MIXED = {"k": "union", "a": [INT, STR]}
    # directed: a strict function whose earlier argument is NULL in the very row where a later argument fails its type assertion
    for k, sql in enumerate(["SELECT z + a AS x FROM mem.t q", "SELECT a + z AS x FROM mem.t q", "SELECT DISTINCT z + a AS x FROM mem.t q"]):
        cases.append({"kind": "expr_null", "chain": ["strict call with NULL sibling"], "p": 2, "n": 4, "sql": sql, "mustfail": True})
    for i, c in enumerate(cases):
        if c["kind"] == "deep":
            # n = 20 000 rows (the 4 rows repeated), fault at row p; every row of t matches 3 rows of u, so that a join above the fault
            # consumes its input more slowly than the source produces it and the join's input channel is full when the fault occurs
            t = {"t": {"fields": FIELDS, "rows": ROWS, "repeat": c["n"] // len(ROWS), "fail_at": c["p"]}, "u": {"fields": FIELDS, "rows": UROWS, "repeat": 3}}
        elif c["kind"] == "source":
            t = {"t": {"fields": FIELDS, "rows": ROWS, "fail_at": c["p"]}, "u": {"fields": FIELDS, "rows": UROWS}}
        else:
            rows = [list(r) for r in ROWS]
            if c["p"] <= len(rows):
                rows[c["p"] - 1][0] = sv("oops")
            fields = [["a", MIXED], ["b", STR], ["c", INT]]
            if c["kind"] == "expr_null":
                fields = fields + [["z", {"k": "union", "a": [{"k": "prim", "n": "Null"}, INT]}]]
                rows = [r + [{"t": "null"}] for r in rows]
            t = {"t": {"fields": fields, "rows": rows}, "u": {"fields": FIELDS, "rows": UROWS}}
        for opt in (True, False):
            q.append({"id": "%d:%s" % (i, "o" if opt else "n"), "tables": t, "sql": c["sql"], "optimize": opt, "count_only": c["kind"] == "deep"})
    inp, out = ctx.scratch + "/c06_q.ndjson", ctx.scratch + "/c06_r.ndjson"
    ctx.write_ndjson(inp, q)
    ctx.driver("sql-run", ["-in", inp, "-out", out], timeout=3000)
    res = {x["id"]: x for x in ctx.read_ndjson(out)}
    must = 0
    rejected = 0
    for i, c in enumerate(cases):
        for m in ("o", "n"):
            x = res["%d:%s" % (i, m)]
            if x["stage"] in ("parse", "typecheck", "materialize"):
                rejected += 1
                continue
            if not c["mustfail"]:
                continue
            must += 1
            if x["stage"] not in ("run", "panic"):
                swallowing = [op for op in c["chain"]]
                ctx.violation({"site": "engine", "fault": c["kind"], "chain": "/".join(c["chain"]), "optimize": m == "o"}, {"sql": c["sql"], "fault_at_row": c["p"], "rows": c["n"]},
                              expected="the query fails with an error", observed={"rows_returned": x.get("nrows", len(x["rows"]))},
                              note="%s fault at row %d of %d but the query ended without an error" % (c["kind"], c["p"], c["n"]))
    if rejected > 0.2 * 2 * len(cases):
        raise core.Machinery("too many chains rejected by the typechecker: %d of %d: %s" % (rejected, 2 * len(cases),
                             [res["%d:o" % i]["err"] for i in range(len(cases)) if res["%d:o" % i]["stage"] in ("parse", "typecheck", "materialize")][:3]))
    ctx.cover(evaluations=2 * len(cases), distinct=must, sample={"chain": cases[5]["chain"], "sql": cases[5]["sql"], "fails_at": cases[5]["p"], "mustfail": cases[5]["mustfail"]})
    ctx.notes["engine"] = {"cases": len(cases), "mustfail_runs": must, "rejected": rejected}
    # ---------------- CLI: real files, real process exit status ----------------
    cli = climod.Cli(ctx)
    d = os.path.join(ctx.scratch, "c06cli")
    os.makedirs(d)
    good = ['{"a":1,"b":"x","c":1}', '{"a":2,"b":"y","c":2}', '{"a":1,"b":"z","c":1}', '{"a":3,"b":"x","c":2}']
    files = {}
    for p in range(1, 5):
        lines = list(good)
        lines[p - 1] = '{"a":1,"b":"x","c":'          # malformed JSON row
        files["badjson%d.json" % p] = "\n".join(lines) + "\n"
        lines = list(good)
        lines[p - 1] = '{"a":"oops","b":"x","c":1}'   # a value that differs from what + 1 needs: failed type assertion at run time
        files["mixed%d.json" % p] = "\n".join(lines) + "\n"
        rows = ["1,x,1", "2,y,2", "1,z,1", "3,x,2"]
        rows[p - 1] = "1,x"                           # wrong number of fields
        files["badcsv%d.csv" % p] = "a,b,c\n" + "\n".join(rows) + "\n"
        ls = ["l1", "l2", "l3", "l4"]
        ls[p - 1] = "x" * (1100 * 1024)                # longer than the line scanner's buffer
        files["long%d.lines" % p] = "\n".join(ls) + "\n"
    files["u.json"] = '{"a":7,"b":"u","c":1}\n{"a":8,"b":"v","c":2}\n'
    for name, content in files.items():
        with open(os.path.join(d, name), "w") as f:
            f.write(content)
    shapes = {
        "plain": "SELECT * FROM {T} t",
        "distinct": "SELECT DISTINCT * FROM {T} t",
        "orderby": "SELECT * FROM {T} t ORDER BY {C}",
        "groupby": "SELECT count(*) AS n FROM {T} t",
        "subquery": "SELECT * FROM (SELECT DISTINCT * FROM {T} t) q",
        "join": "SELECT * FROM {T} t JOIN u.json u ON t.{C} = u.{UC}",
        "subqexpr": "SELECT u.a FROM u.json u WHERE u.c IN (SELECT {C2} FROM {T} t)",
    }
    jobs, meta = [], []
    for p in range(1, 5):
        for kind, (fname, col, ucol, col2) in {"malformed JSON row": ("badjson%d.json" % p, "c", "c", "t.c"), "CSV row with a missing field": ("badcsv%d.csv" % p, "c", "c", "t.c"),
                                                "over-long line": ("long%d.lines" % p, "number", "a", "t.number")}.items():
            for sname, sql in shapes.items():
                for mode in ("json", "batch_table"):
                    jobs.append({"args": [sql.format(T=fname, C=col, UC=ucol, C2=col2), "-o", mode], "cwd": d})
                    meta.append((kind, sname, mode, p, jobs[-1]["args"][0]))
        for sname, sql in {"failed type assertion": "SELECT t.a + 1.0 AS x FROM mixed%d.json t" % p, "failed type assertion under DISTINCT": "SELECT DISTINCT t.a + 1.0 AS x FROM mixed%d.json t" % p,
                           "failed type assertion under ORDER BY": "SELECT t.a + 1.0 AS x FROM mixed%d.json t ORDER BY x" % p,
                           "panic()": "SELECT panic(t.b) AS x FROM u.json t", "panic() under DISTINCT": "SELECT DISTINCT panic(t.b) AS x FROM u.json t",
                           "panic() in WHERE under GROUP BY": "SELECT count(*) AS n FROM u.json t WHERE panic(t.b) = 'x'"}.items():
            for mode in ("json", "batch_table"):
                jobs.append({"args": [sql, "-o", mode], "cwd": d})
                meta.append(("failing expression", sname, mode, p, sql))
    outs = cli.run_many(jobs)
    nfail = 0
    for (kind, sname, mode, p, sql), (rc, out, err) in zip(meta, outs):
        nfail += 1
        if climod.panicked(err) and "panic(" not in sql:
            ctx.violation({"site": "cli", "why": "crash", "fault": kind, "shape": sname}, {"sql": sql, "mode": mode, "fault_row": p}, observed=err[-300:], note="process crashed (C07)")
        elif rc == 0 or not err.strip():
            ctx.violation({"site": "cli", "why": "swallowed", "fault": kind, "shape": sname, "mode": mode}, {"sql": sql, "mode": mode, "fault_row": p},
                          expected="non-zero exit status and an error message", observed={"exit": rc, "stderr": err[-200:], "stdout": out[-200:]},
                          note="%s at row %d under %s: exit status %d" % (kind, p, sname, rc))
    ctx.cover(evaluations=nfail, distinct=nfail)
    ctx.notes["cli"] = {"runs": nfail}
    ctx.coverage["exhaustive"] = True
    ctx.coverage["rule"] = ("engine: every chain of height <= MaxH over 11 operators + LIMIT 1/3 x fault position 1..5 of a 4-row source x optimiser on/off, and 38 chains "
                            "(every operator; joins below / above streaming operators and joins) over a 20 000-row source failing at rows 10 001, 10 002, 20 000; "
                            "CLI: 3 input-fault kinds x 4 positions x 7 query shapes x 2 output modes, plus failing expressions. distinct_nontrivial = runs in which "
                            "the fault must surface (MustFail)")


def replay(ctx, rec):
    print(json.dumps(rec, indent=1))
    return 0
