"""C13 — numeric, time and conversion functions (Numeric.tla / NumericCases.tla): TLC exports every overload of + - * / abs ceil floor
sqrt log* pow int float string, duration and time arithmetic, IN / NOT IN, list indexing and COALESCE on a boundary catalogue with the
result the definitions give (exact, Approx within 1e-9, or Unpinned); each case runs through the real typecheck -> materialise ->
evaluate path and is compared with the expectation."""
import json
import math
import core

LEVEL = "model_checking"
CFG = "INIT Init\nNEXT Next\n"
INTN = {"k": "union", "a": [{"k": "prim", "n": "Null"}, {"k": "prim", "n": "Int"}]}


def conv(v):
    if v.get("t") == "durs":
        return {"t": "dur", "du": v["sec"] * 1000000000}
    if v.get("t") in ("list", "tuple", "obj"):
        k = {"list": "l", "tuple": "tu", "obj": "o"}[v["t"]]
        return {"t": v["t"], k: [conv(x) for x in v[k]]}
    return v


def fval(x):
    """numeric value of an observed/expected float-ish abstract value, or None"""
    if x.get("t") == "float":
        return x["n"] / x["d"] if "n" in x else x.get("x")
    if x.get("t") == "fsp":
        return {"nan": float("nan"), "+inf": float("inf"), "-inf": float("-inf"), "-0": -0.0, "+0": 0.0}[x["s"]]
    return None


def matches(exp, got, f64):
    if "approx" in exp:
        if got.get("t") not in ("float", "fsp"):
            return False
        g = float(f64) if f64 is not None else fval(got)
        e = exp["n"] / exp["d"]
        return g == e or abs(g - e) <= 1e-9 * max(1.0, abs(e))
    if exp.get("t") in ("float", "fsp") and got.get("t") in ("float", "fsp"):
        e, g = fval(exp), float(f64) if f64 is not None else fval(got)
        if math.isnan(e):
            return math.isnan(g)
        return e == g
    return core.canon(conv(exp)) == core.canon(got)


def features(c):
    txt = json.dumps(c["args"])
    return {"extreme_int": "min64" in txt or "max64" in txt, "special_float": '"fsp"' in txt, "zero_divisor": c["fn"] == "/" and len(c["args"]) == 2 and
            (c["args"][1].get("i") == 0 or c["args"][1].get("du") == 0), "negative_index": c["fn"] == "[]" and c["args"][1].get("i", 0) < 0,
            "argkinds": "+".join(a.get("t", "?") for a in c["args"])}


def run(ctx):
    ctx.tlc_ok("NumericCases", CFG, workers=1, timeout=1800)
    cases = ctx.read_ndjson("c13_cases.ndjson")
    fn_cases, sql_cases, variants = [], [], []
    for i, c in enumerate(cases):
        if c["fn"] in ("unix_roundtrip", "coalesce_int_parse", "coalesce_float_parse"):
            sql_cases.append((i, c))
            continue
        q = {"id": i, "fn": c["fn"], "args": [conv(a) for a in c["args"]]}
        if c["fn"] == "coalesce":
            q["types"] = [INTN for _ in c["args"]]
            # the same call with other static typings of its arguments: exact (a NULL argument has type NULL, e.g. a NULL literal or a column that only held
            # NULLs), and wide (NULL | Int | String, as file schema inference produces)
            exact = [{"k": "prim", "n": "Null"} if a.get("t") == "null" else {"k": "prim", "n": "Int"} for a in q["args"]]
            wide = [{"k": "union", "a": [{"k": "prim", "n": "Null"}, {"k": "prim", "n": "Int"}, {"k": "prim", "n": "String"}]} for _ in q["args"]]
            variants.append((i, dict(q, id="%d:exact" % i, types=exact)))
            variants.append((i, dict(q, id="%d:wide" % i, types=wide)))
        fn_cases.append(q)
    inp, out = ctx.scratch + "/c13_q.ndjson", ctx.scratch + "/c13_r.ndjson"
    ctx.write_ndjson(inp, fn_cases + [v for _, v in variants])
    ctx.driver("fn-eval", ["-in", inp, "-out", out], timeout=1800)
    res = {x["id"]: x for x in ctx.read_ndjson(out)}
    # composite expression through the SQL engine
    sq = []
    for k, (i, c) in enumerate(sql_cases):
        if c["fn"] == "unix_roundtrip":
            t = {"t": {"fields": [["x", {"k": "prim", "n": "Int"}]], "rows": [[c["args"][0]]]}}
            sq.append({"id": i, "tables": t, "sql": "SELECT time_to_unix(time_from_unix(x)) AS r FROM mem.t"})
        else:
            num = "Int" if c["fn"] == "coalesce_int_parse" else "Float"
            t = {"t": {"fields": [["s", {"k": "prim", "n": "String"}], ["d", {"k": "prim", "n": num}]], "rows": [[c["args"][0], c["args"][1]]]}}
            sq.append({"id": i, "tables": t, "sql": "SELECT COALESCE(%s(s), d) AS r FROM mem.t" % num.lower()})
    inp2, out2 = ctx.scratch + "/c13_sq.ndjson", ctx.scratch + "/c13_sr.ndjson"
    ctx.write_ndjson(inp2, sq)
    ctx.driver("sql-run", ["-in", inp2, "-out", out2])
    for x in ctx.read_ndjson(out2):
        v = x["rows"][0]["v"][0] if x["stage"] == "" and x["rows"] else {"error": x["stage"] + ": " + x["err"]}
        res[x["id"]] = {"id": x["id"], "stage": x["stage"], "err": x["err"], "value": v}
        if isinstance(v, dict) and v.get("t") == "float" and "n" in v:
            res[x["id"]]["f64"] = repr(v["n"] / v["d"])
    pinned = skipped = 0
    for i, c in enumerate(cases):
        x = res[i]
        sig = dict({"site": "functions." + c["fn"]}, **features(c))
        shown = {"fn": c["fn"], "args": c["args"]}
        if x["stage"] == "panic":
            ctx.violation(dict(sig, law="no panic"), shown, expected="a value or a reported error", observed=x["err"], note="function panicked")
            continue
        if "unpinned" in c["exp"]:
            continue
        if x["stage"] in ("typecheck", "materialize"):
            skipped += 1
            continue
        pinned += 1
        if x["stage"] != "":
            ctx.violation(dict(sig, law="result"), shown, expected=c["exp"], observed=x["stage"] + ": " + x["err"], note="failed where the definition gives a result")
            continue
        if not matches(c["exp"], x["value"], x.get("f64")):
            ctx.violation(dict(sig, law="result"), shown, expected=c["exp"], observed={"value": x["value"], "f64": x.get("f64")}, note="%s differs from its definition" % c["fn"])
    for i, v in variants:
        c, x = cases[i], res[v["id"]]
        if "unpinned" in c["exp"] or x["stage"] in ("typecheck", "materialize"):
            continue
        pinned += 1
        if x["stage"] != "" or not matches(c["exp"], x["value"], x.get("f64")):
            ctx.violation(dict({"site": "functions.coalesce", "typing": v["id"].split(":")[1]}, **features(c)), {"fn": c["fn"], "args": c["args"], "argtypes": v["types"]}, expected=c["exp"],
                          observed=x["value"] if x["stage"] == "" else x["stage"] + ": " + x["err"], note="COALESCE differs from its definition under this static typing of its arguments")
    if skipped > 0.2 * len(cases):
        raise core.Machinery("too many cases rejected by the typechecker: %d" % skipped)
    ctx.cover(evaluations=len(cases), distinct=pinned, sample={"fn": cases[7]["fn"], "args": cases[7]["args"], "exp": cases[7]["exp"]})
    ctx.notes.update({"cases": len(cases), "pinned": pinned, "typecheck_rejected": skipped})
    ctx.coverage["exhaustive"] = True
    ctx.coverage["rule"] = ("every overload x boundary catalogue: ints -3..3, +-7, Min/MaxInt64 (wrap-around laws); floats n/d with d in {1,2,4}, NaN, +-Inf, -0, powers of "
                            "2 and 10; durations; times; decimal / non-numeric / open strings; lists and tuples with NULLs; indices -1..3; COALESCE over {1,2,NULL}^2..3; "
                            "time_to_unix(time_from_unix(x)) through the SQL engine. distinct_nontrivial = cases with a pinned result")
    ctx.assumptions += ["accuracy of math.Log/Pow/Sqrt beyond exactly representable cases is not decided (Unpinned)"]


def replay(ctx, rec):
    print(json.dumps(rec, indent=1))
    return 0
