"""C11 — three-valued logic and NULL propagation (Logic.tla).

M: TLC checks that the specified AND/OR/NOT are Kleene's strong logic (min/max/reversal on F < N < T, De Morgan, associativity,
   distributivity).
R: TLC exports every boolean expression tree of depth <= 2 (151 424 trees; a seeded sample in the quick tier) over two boolean columns, three comparisons of two integer columns and
   the constants TRUE/FALSE/NULL with its SQL text and the expected value for all 81 assignments (nullable columns) and all 16
   assignments of non-nullable columns; each is run through the real parser -> typechecker -> materialiser -> evaluator as a
   projection and as a WHERE clause and compared for equality.  Every strict function overload of functions.FunctionMap() is called
   through the same pipeline with NULL in each argument position."""
import json
import core

LEVEL = "model_checking"
CFG = "INIT Init\nNEXT Next\nCONSTANTS Depth = %d\n Sample = %d\n"

BOOLN = {"k": "union", "a": [{"k": "prim", "n": "Null"}, {"k": "prim", "n": "Boolean"}]}
BOOL = {"k": "prim", "n": "Boolean"}
INT = {"k": "prim", "n": "Int"}


def tv(x):
    return {"t": "null"} if x == "N" else {"t": "bool", "b": x == "T"}


def of_value(v):
    if v.get("t") == "null":
        return "N"
    if v.get("t") == "bool":
        return "T" if v["b"] else "F"
    return "?" + json.dumps(v)


def prim(n):
    return {"k": "prim", "n": n}


def nullable(t):
    return {"k": "union", "a": [prim("Null"), t]}


SAMPLE = {"Int": {"t": "int", "i": 3}, "Float": {"t": "float", "n": 3, "d": 2}, "Boolean": {"t": "bool", "b": True}, "String": {"t": "str", "s": "a"},
          "Time": {"t": "time", "ts": 5}, "Duration": {"t": "dur", "du": 7}}


def sample_of(t):
    if t["k"] == "prim":
        return SAMPLE.get(t["n"])
    if t["k"] == "list":
        x = sample_of(t["le"])
        return None if x is None else {"t": "list", "l": [x]}
    if t["k"] == "any":
        return SAMPLE["Int"]
    if t["k"] == "union":
        for a in t["a"]:
            if a != prim("Null"):
                return sample_of(a)
    return None


def run(ctx):
    thorough = ctx.tier == "thorough"
    r = ctx.tlc_ok("LogicCases", CFG % (2, 0 if thorough else 4000), workers=1, timeout=2400, heap="12g")
    envs = ctx.read_ndjson("c11_envs.ndjson")[0]
    cases = ctx.read_ndjson("c11_cases.ndjson")
    INTN = {"k": "union", "a": [{"k": "prim", "n": "Null"}, INT]}
    iv = lambda x: {"t": "null"} if x == 0 else {"t": "int", "i": x}
    fields_n = [["id", INT], ["a", BOOLN], ["b", BOOLN], ["p", INTN], ["q", INTN]]
    fields_q = [["id", INT], ["a", BOOL], ["b", BOOL], ["p", INT], ["q", INT]]
    rows_n = [[{"t": "int", "i": i + 1}, tv(e["a"]), tv(e["b"]), iv(e["p"]), iv(e["q"])] for i, e in enumerate(envs["nullable"])]
    rows_q = [[{"t": "int", "i": i + 1}, tv(e["a"]), tv(e["b"]), iv(e["p"]), iv(e["q"])] for i, e in enumerate(envs["nonnull"])]
    tables = {"tn": {"fields": fields_n, "rows": rows_n}, "tq": {"fields": fields_q, "rows": rows_q}}
    q = []
    for i, c in enumerate(cases):
        first = {"tables": tables} if i == 0 else {}
        q.append(dict(first, id="%d:n" % i, sql="SELECT %s AS r FROM mem.tn" % c["sql"]))
        q.append({"id": "%d:q" % i, "sql": "SELECT %s AS r FROM mem.tq" % c["sql"]})
        q.append({"id": "%d:w" % i, "sql": "SELECT id FROM mem.tn WHERE %s" % c["sql"]})
    inp = ctx.scratch + "/c11_q.ndjson"
    ctx.write_ndjson(inp, q)
    out = ctx.scratch + "/c11_r.ndjson"
    ctx.driver("sql-run", ["-in", inp, "-out", out], timeout=3000)
    res = {x["id"]: x for x in ctx.read_ndjson(out)}
    skipped = 0
    evals = 0
    for i, c in enumerate(cases):
        for kind, exp in (("n", c["expn"]), ("q", c["expnn"])):
            x = res["%d:%s" % (i, kind)]
            if x["stage"] in ("parse", "typecheck"):
                skipped += 1
                continue
            evals += len(exp)
            got = [of_value(rw["v"][0]) for rw in x["rows"]] if x["stage"] == "" else x["stage"] + ": " + x["err"]
            if got != exp:
                bad = [k for k in range(min(len(exp), len(got)))] if isinstance(got, list) else []
                bad = [k for k in bad if got[k] != exp[k]]
                ctx.violation({"site": "expression evaluation", "shape": "AND/OR/NOT/IS NULL/=", "nullable_columns": kind == "n"},
                              {"sql": x["id"] and ("SELECT %s AS r" % c["sql"]), "assignment": (envs["nullable"] if kind == "n" else envs["nonnull"])[bad[0]] if bad else None},
                              expected=exp, observed=got, note="projection differs from Kleene evaluation")
        x = res["%d:w" % i]
        if x["stage"] in ("parse", "typecheck"):
            skipped += 1
            continue
        evals += len(c["expn"])
        exp_ids = [k + 1 for k, v in enumerate(c["expn"]) if v == "T"]
        got = sorted(rw["v"][0].get("i") for rw in x["rows"]) if x["stage"] == "" else x["stage"] + ": " + x["err"]
        if got != exp_ids:
            ctx.violation({"site": "nodes.Filter", "shape": "WHERE keeps TRUE only"}, {"sql": "SELECT id FROM t WHERE %s" % c["sql"]}, expected=exp_ids, observed=got,
                          note="WHERE kept a different set of rows than those whose predicate is TRUE")
    if skipped > 0.2 * 3 * len(cases):
        raise core.Machinery("too many expression cases rejected by the parser/typechecker: %d of %d" % (skipped, 3 * len(cases)))
    ctx.cover(evaluations=evals, distinct=len(cases), sample={"sql": cases[len(cases) // 2]["sql"], "expected_for_81_assignments": cases[len(cases) // 2]["expn"]})
    # ---- strict functions: NULL in, NULL out; IS [NOT] NULL never NULL
    cat = ctx.scratch + "/fn_cat.ndjson"
    ctx.driver("fn-catalogue", ["-out", cat])
    fcases = []
    for d in ctx.read_ndjson(cat):
        if d["typefn"]:
            cands = []
            prims = [prim(n) for n in ("Int", "Float", "Boolean", "String", "Time", "Duration")]
            if d["fn"] in ("<", "<=", ">", ">=", "=", "!="):
                cands = [[p, p] for p in prims]
            elif d["fn"] in ("in", "not in"):
                cands = [[prim("Int"), {"k": "list", "le": prim("Int")}], [prim("String"), {"k": "list", "le": prim("String")}]]
            elif d["fn"] == "len":
                cands = [[{"k": "list", "le": prim("Int")}], [prim("String")]]
            else:
                cands = [[p] for p in prims] + [[p, p] for p in prims]
        else:
            cands = [d["args"]]
        for ats in cands:
            svals = [sample_of(t) for t in ats]
            if any(v is None for v in svals) or not ats:
                continue
            for pos in range(len(ats)):
                args = list(svals)
                args[pos] = {"t": "null"}
                fcases.append({"id": len(fcases), "fn": d["fn"], "strict": d["strict"], "pos": pos, "args": args, "types": [nullable(t) for t in ats]})
    fin = ctx.scratch + "/c11_f.ndjson"
    ctx.write_ndjson(fin, fcases)
    fout = ctx.scratch + "/c11_fr.ndjson"
    ctx.driver("fn-eval", ["-in", fin, "-out", fout])
    nstrict = 0
    for c, x in zip(fcases, ctx.read_ndjson(fout)):
        if x["stage"] in ("typecheck", "materialize"):
            continue
        isnull = x["stage"] == "" and x["value"].get("t") == "null"
        if c["fn"] in ("is null", "is not null"):
            nstrict += 1
            if isnull or x["stage"] != "":
                ctx.violation({"site": "functions." + c["fn"], "law": "IS [NOT] NULL never returns NULL"}, c, expected="TRUE/FALSE", observed=x, note="IS [NOT] NULL returned NULL or failed")
        elif c["strict"]:
            nstrict += 1
            if not isnull:
                ctx.violation({"site": "functions." + c["fn"], "law": "strict function returns NULL on NULL argument"}, c, expected={"t": "null"}, observed=x,
                              note="strict function did not return NULL for a NULL argument")
    ctx.cover(evaluations=nstrict, distinct=nstrict)
    ctx.notes.update({"trees_total_depth2": 151424, "trees_run": len(cases), "typecheck_rejected_queries": skipped, "strict_overload_null_positions": nstrict})
    ctx.coverage["exhaustive"] = thorough
    ctx.coverage["rule"] = ("boolean expression trees of depth <= 2 over columns a,b / p<q / p<=q / p=q / TRUE / FALSE / NULL with NOT, IS NULL, IS NOT NULL, AND, OR, = "
                            "(all 151 424 in thorough, a seeded RandomSubset in quick) x {nullable, non-nullable column typing} x {projection, WHERE}; "
                            "a tree is one distinct non-trivial case; evaluations counts (tree, assignment) pairs compared. Plus every strict overload "
                            "x NULL position.")


def replay(ctx, rec):
    print(json.dumps(rec, indent=1))
    return 0
