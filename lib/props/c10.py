"""C10 — type algebra laws (Types.tla / TypesCheck.tla): TLC exports the type universe TU and the value universe VU; the
harness calls the real Type.Is / Equals / TypeSum / TypeIntersection / NonNullable on every ordered pair of TU and
Value.Type on every value of VU; TLC evaluates the laws of the statement on the observed results, including their
set-theoretic reading (ValueInType), and writes every violated instance."""
import json
import shutil
import core

LEVEL = "model_checking"
CFG = 'INIT Init\nNEXT Next\nCONSTANT Mode = "%s"\n'


def shape(t):
    k = t.get("k")
    if k == "union":
        return "union(" + ",".join(sorted(shape(a) for a in t["a"])) + ")"
    if k == "prim":
        return t["n"]
    if k == "list":
        return "list"
    return k


def classify(v):
    ex = v.get("extra")
    kinds = []
    if isinstance(ex, list):
        kinds = [x.get("k") for x in ex if isinstance(x, dict)]
    elif isinstance(ex, dict):
        kinds = [ex.get("k") or ex.get("t")]
    widths = None
    if isinstance(ex, list) and len(ex) == 2 and all(isinstance(x, dict) for x in ex):
        a, b = ex
        if a.get("k") == b.get("k") == "obj":
            widths = "same-fields" if [f[0] for f in a["f"]] == [f[0] for f in b["f"]] else "different-fields"
        if a.get("k") == b.get("k") == "tuple":
            widths = "same-length" if len(a.get("te", [])) == len(b.get("te", [])) else "different-length"
    # do the types involve objects with different field lists or tuples of different lengths (at any depth)?
    objs, tups = set(), set()

    def walk(t):
        if not isinstance(t, dict):
            return
        if t.get("k") == "obj":
            objs.add(tuple(f[0] for f in t["f"]))
            for f in t["f"]:
                walk(f[1])
        elif t.get("k") == "tuple":
            tups.add(len(t.get("te", [])))
            for x in t.get("te", []):
                walk(x)
        elif t.get("k") == "union":
            for x in t["a"]:
                walk(x)
        elif t.get("k") == "list":
            walk(t["le"])
    for x in (ex if isinstance(ex, list) else [ex]):
        walk(x)
    return {"site": "octosql.Type", "law": v["law"], "kinds": "+".join(sorted(str(k) for k in kinds)), "shape": widths,
            "layouts_differ": len(objs) > 1 or len(tups) > 1}


def run(ctx):
    ctx.tlc_ok("TypesCheck", CFG % "export", workers=1, timeout=900)
    obs = ctx.scratch + "/c10_obs.ndjson"
    ctx.driver("type-obs", ["-types", ctx.specfile("c10_types.ndjson"), "-values", ctx.specfile("c10_values.ndjson"), "-out", obs])
    shutil.copy(obs, ctx.specfile("c10_obs.ndjson"))
    ctx.tlc_ok("TypesCheck", CFG % "check", workers=1, timeout=3000, heap="16g")
    viol = ctx.read_ndjson("c10_viol.ndjson")
    lines = [json.loads(l) for l in open(obs)]
    for e in lines:
        if "panic" in e:
            ctx.violation({"site": "octosql.Type", "law": "no panic", "kinds": e["k"]}, e, observed=e["panic"], note="type algebra panicked")
    for v in viol:
        ctx.violation(classify(v), {"law": v["law"], "types_or_value": v["extra"], "observed": v["obs"]}, expected=v["law"],
                      observed={k: v["obs"].get(k) for k in ("is", "sum", "a_is_sum", "b_is_sum", "sum_comm", "inter", "nn", "type")}, note=v["law"])
    nt = len(ctx.read_ndjson("c10_types.ndjson"))
    nv = len(ctx.read_ndjson("c10_values.ndjson"))
    ctx.cover(evaluations=len(lines), distinct=nt * nt, sample={"types": nt, "values": nv, "example": ctx.read_ndjson("c10_types.ndjson")[::9]})
    # negative control
    k = next(i for i, e in enumerate(lines) if e["k"] == "type")
    lines[k]["refl"] = 0
    ctx.write_ndjson("c10_obs.ndjson", lines)
    ctx.tlc_ok("TypesCheck", CFG % "check", workers=1, timeout=3000, heap="16g")
    if not ctx.read_ndjson("c10_viol.ndjson"):
        raise core.Machinery("negative control: corrupted observation not reported")
    ctx.notes.update({"types": nt, "values": nv, "observations": len(lines), "violated_law_instances": len(viol), "negative_control_rejected": True})
    ctx.coverage["exhaustive"] = True
    ctx.coverage["rule"] = ("TU = %d types (7 primitives, Any, lists incl. the element-less list and nested/nullable elements, objects over fields x,y in both "
                            "orders and widths, tuples of length 0..2, normalised unions of 2..4 alternatives incl. composite alternatives); every ordered pair "
                            "goes through the real Is/TypeSum/TypeIntersection/Equals, every type through NonNullable, every value of VU (%d values) through "
                            "Value.Type; TLC checks the laws and their set-theoretic reading over VU. distinct_nontrivial = ordered pairs" % (nt, nv))
    ctx.assumptions += ["types are those constructible through the public constructors, TypeSum and file schema inference (normalised unions)"]


def replay(ctx, rec):
    print(json.dumps(rec, indent=1))
    return 0
