"""C18 — watermarks never go backwards and operators do not create late data; event-time buffers release in order.
Layer-P clauses tagged C18 in Ops.tla (MonotoneWm, NoLate on the output given NoLate on the input, BufferReleased) are
evaluated by TLC on every trace of every operator family."""
import json
import props.gb as gb

LEVEL = "model_checking"


def run(ctx):
    gb.run_basic(ctx, "C18")
    gb.run_groupby(ctx, "C18")
    gb.run_ext(ctx, "C18")
    gb.run_pipes(ctx, "C18")
    try:
        import props.joins as joins
        joins.run_joins(ctx, "C18")
    except ImportError:
        ctx.notes["joins"] = "not built yet"
    try:
        import props.tvf as tvf
        tvf.run_tvf(ctx, "C18")
    except ImportError:
        ctx.notes["tvf"] = "not built yet"
    ctx.coverage["rule"] = ("every valid, non-late input changelog with strictly increasing watermarks up to MaxLen over small universes per operator "
                            "configuration, plus seeded random long ones, run on the real nodes; TLC checks on each trace: forwarded watermarks are "
                            "non-decreasing, no output record with a non-zero event time at or below a watermark already forwarded, and (event-time buffer) "
                            "every buffered record is released unchanged, in event-time order, before the first watermark at or above its time, the rest at "
                            "end of stream. distinct_nontrivial = traces validated")
    ctx.assumptions += ["inputs have no late records and strictly increasing watermarks (the statement's premise)"]


def replay(ctx, rec):
    print(json.dumps(rec, indent=1))
    return 0
