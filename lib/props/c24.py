"""C24 — file datasources produce values that match their inferred schema (Schema.tla).
TLC generates files under its seed: per column the cells cycled through the 100-row inference preview and the cells of the rows after it,
from a catalogue of 64 CSV cell texts (each with the set of its readings) and JSON documents to depth 2.  The real datasources run
SELECT * over each file in-process; the reported column types, the produced rows and the failure status go back to TLC (SchemaCheck.tla),
which decides Layer P: every produced value is a reading of its cell that belongs to the reported type, a row with a cell that has no such
reading fails the run instead of being converted, representable files do not fail, and preview rows are always representable.
A sample runs through the binary (--describe text, exit status, -o json rows)."""
import csv
import io
import json
import os

import cli as climod
import core

LEVEL = "exploration"     # cases are drawn from the specification under the TLC seed (a sample of a large space), expected results computed by TLC
CFG = "INIT Init\nNEXT Next\nCONSTANTS N = %d\n"
PREVIEW = 100


def cell_at(col, r):
    if r <= PREVIEW and col["A"]:
        return col["A"][(r - 1) % len(col["A"])]
    return col["B"][(r - 1) % len(col["B"])]


def jtext(j):
    k = j["j"]
    if k == "null":
        return "null"
    if k == "num":
        return j["text"]
    if k == "str":
        return json.dumps(j["s"])
    if k == "bool":
        return j["b"]
    if k == "arr":
        return "[" + ",".join(jtext(x) for x in j["l"]) + "]"
    if k == "obj":
        return "{" + ",".join("%s:%s" % (json.dumps(n), jtext(x)) for n, x in zip(j["names"], j["l"])) + "}"
    raise ValueError(k)


def write_case(d, c):
    names = ["c%d" % (i + 1) for i in range(len(c["cols"]))]
    if c["kind"] == "csv":
        p = os.path.join(d, "f%d.csv" % c["id"])
        buf = io.StringIO()
        w = csv.writer(buf, lineterminator="\n")
        w.writerow(names)
        for r in range(1, c["n"] + 1):
            w.writerow([cell_at(col, r)["text"] for col in c["cols"]])
        with open(p, "w", encoding="utf-8", newline="") as f:
            f.write(buf.getvalue())
    else:
        p = os.path.join(d, "g%d.json" % c["id"])
        with open(p, "w", encoding="utf-8") as f:
            for r in range(1, c["n"] + 1):
                parts = []
                for nm, col in zip(names, c["cols"]):
                    j = cell_at(col, r)
                    if j["j"] != "missing":
                        parts.append('"%s":%s' % (nm, jtext(j)))
                f.write("{" + ",".join(parts) + "}\n")
    return p, names


def cls(kind, cell):
    if kind == "csv":
        return "+".join(sorted(r["k"] for r in cell["reads"]))
    return cell["j"]


def run(ctx):
    thorough = ctx.tier == "thorough"
    n = 6000 if thorough else 300
    ctx.tlc_ok("SchemaCases", CFG % n, workers=1, timeout=3000, heap="8g")
    cases = ctx.read_ndjson("c24_cases.ndjson")
    for i, c in enumerate(cases):
        c["id"] = i
    d = os.path.join(ctx.scratch, "c24")
    os.makedirs(d)
    q = []
    for c in cases:
        c["path"], c["names"] = write_case(d, c)
        q.append({"id": c["id"], "path": c["path"]})
    inp, out = ctx.scratch + "/c24_q.ndjson", ctx.scratch + "/c24_r.ndjson"
    ctx.write_ndjson(inp, q)
    res, rest, crashes = [], q, 0
    while rest:     # a crash of the datasource's worker goroutine kills the harness process: note the file, continue after it
        ctx.write_ndjson(inp, rest)
        rc, text = ctx.driver("schema-obs", ["-in", inp, "-out", out], timeout=3000, allow_fail=True)
        part = ctx.read_ndjson(out) if os.path.exists(out) else []
        res += part
        if rc == 0:
            break
        if "panic" not in text and "fatal error" not in text:
            raise core.Machinery("schema-obs failed:\n" + text[-2000:])
        crashes += 1
        if crashes > 40 or len(part) >= len(rest):
            raise core.Machinery("schema-obs keeps crashing:\n" + text[-2000:])
        frames = [l.strip() for l in text.splitlines() if "octosql/datasources" in l]
        res.append({"id": rest[len(part)]["id"], "stage": "panic", "err": text[text.find("panic:"):][:200] + " @ " + (frames[0] if frames else "")})
        rest = rest[len(part) + 1:]
    obs, skipped = [], 0
    for c, x in zip(cases, res):
        if x["stage"] == "panic":
            later = sorted(set(cls(c["kind"], b) for col in c["cols"] for b in col["B"]))
            ctx.violation({"site": "datasources." + c["kind"], "why": "panic", "where": x["err"].split(" @ ")[-1].split("(")[0][-60:]},
                          {"file": os.path.basename(c["path"]), "preview_cells": [[jtext(a) if c["kind"] == "json" and a["j"] != "missing" else a.get("text", "<missing>") for a in col["A"]] for col in c["cols"]],
                           "later_cells": [[jtext(a) if c["kind"] == "json" and a["j"] != "missing" else a.get("text", "<missing>") for a in col["B"]] for col in c["cols"]], "rows": c["n"]},
                          expected="rows or an error", observed=x["err"][:400], note="the datasource crashed the process")
            continue
        if x["stage"] in ("parse", "typecheck", "materialize"):
            skipped += 1      # e.g. no column at all in the preview rows
            c["skipped"] = x["err"]
            continue
        sc = [x["names"].index(nm) + 1 if nm in x["names"] else 0 for nm in c["names"]]
        cols = [{"A": col["A"], "B": col["B"], "sc": s} for col, s in zip(c["cols"], sc)]
        obs.append({"id": c["id"], "kind": c["kind"], "n": c["n"], "cols": cols, "types": x["types"], "rows": x["rows"], "failed": x["stage"] != ""})
        c["obs"] = x
    if skipped > 0.3 * len(cases):
        raise core.Machinery("too many files rejected before execution: %s" % [c.get("skipped") for c in cases if "skipped" in c][:3])
    ctx.write_ndjson("c24_obs.ndjson", obs)
    ctx.tlc_ok("SchemaCheck", "INIT Init\nNEXT Next\n", workers=1, timeout=3000, heap="12g")
    verdicts = {v["id"]: v for v in ctx.read_ndjson("c24_verdicts.ndjson")}
    if len(verdicts) != len(obs):
        raise core.Machinery("SchemaCheck judged %d of %d observations" % (len(verdicts), len(obs)))
    byid = {c["id"]: c for c in cases}
    beyond = 0
    for o in obs:
        c, v = byid[o["id"]], verdicts[o["id"]]
        beyond += c["n"] > PREVIEW
        if v["why"] == "":
            continue
        x = c["obs"]
        row, col = v["row"], v["col"]
        cells = {}
        if row:
            cells = {nm: (cell_at(cc, row)["text"] if c["kind"] == "csv" else jtext(cell_at(cc, row)) if cell_at(cc, row)["j"] != "missing" else "<missing>") for nm, cc in zip(c["names"], c["cols"])}
        # the column at fault: the named one, else the first whose cell class is not among the preview classes
        k = col - 1 if col else 0
        if not col and row:
            for i, cc in enumerate(c["cols"]):
                pc = set(cls(c["kind"], a) for a in cc["A"])
                if row > PREVIEW and cls(c["kind"], cell_at(cc, row)) not in pc:
                    k = i
                    break
        cc = c["cols"][k]
        tstr = x["typestr"][x["names"].index(c["names"][k])] if c["names"][k] in x["names"] else "<not in schema>"
        sig = {"site": "datasources." + c["kind"], "why": v["why"], "cell": cls(c["kind"], cell_at(cc, row)) if row else "", "type": tstr, "after_preview": row > PREVIEW}
        got = x["rows"][row - 1] if row and row <= len(x["rows"]) else None
        ctx.violation(sig, {"file": os.path.basename(c["path"]), "rows": c["n"], "row": row, "cells_of_row": cells, "preview_cells": {nm: [cls(c["kind"], a) for a in cc2["A"]] for nm, cc2 in zip(c["names"], c["cols"])},
                            "reported_types": dict(zip(x["names"], x["typestr"]))},
                      expected=v["why"], observed={"row_values": got, "failed": x["stage"] != "", "err": x["err"][:200], "rows_produced": len(x["rows"])}, note=v["why"])
    # ---------------- the binary: --describe, exit status, printed rows ----------------
    cli = climod.Cli(ctx)
    sample = [c for c in cases if "obs" in c][: (800 if thorough else 80)]
    jobs = []
    for c in sample:
        jobs.append({"args": ["SELECT * FROM %s t" % os.path.basename(c["path"]), "--describe", "-o", "json"], "cwd": d})
        jobs.append({"args": ["SELECT * FROM %s t" % os.path.basename(c["path"]), "-o", "json"], "cwd": d})
    outs = cli.run_many(jobs)
    for i, c in enumerate(sample):
        x = c["obs"]
        (rc1, o1, e1), (rc2, o2, e2) = outs[2 * i], outs[2 * i + 1]
        if climod.panicked(e1) or climod.panicked(e2):
            ctx.violation({"site": "cli", "why": "panic", "kind": c["kind"]}, {"file": os.path.basename(c["path"])}, expected="rows or an error", observed=(e1 + e2)[-400:], note="octosql crashed")
            continue
        try:
            desc = {r["name"]: r["type"] for r in (json.loads(l) for l in o1.splitlines() if l.strip())}
        except Exception:
            desc = None
        want = dict(zip(x["names"], x["typestr"]))
        if rc1 != 0 or desc != want:
            raise core.Machinery("--describe disagrees with the in-process schema for %s: %s vs %s (%s)" % (c["path"], desc, want, e1[-200:]))
        failed = x["stage"] != ""
        if (rc2 != 0) != failed:
            ctx.violation({"site": "cli", "why": "exit status differs from the in-process run", "kind": c["kind"]}, {"file": os.path.basename(c["path"]), "reported_types": want},
                          expected="failure" if failed else "success", observed={"exit": rc2, "stderr": e2[-300:]}, note="the binary and the in-process datasource disagree")
        elif not failed and len([l for l in o2.splitlines() if l.strip()]) != len(x["rows"]):
            ctx.violation({"site": "cli", "why": "row count differs", "kind": c["kind"]}, {"file": os.path.basename(c["path"])}, expected=len(x["rows"]), observed=len(o2.splitlines()), note="row count printed")
    ncells = sum(len(o["rows"]) * len(o["cols"]) for o in obs)
    ctx.cover(evaluations=ncells, distinct=len(obs), sample={"file": os.path.basename(cases[0]["path"]), "cols": cases[0]["cols"], "n": cases[0]["n"]})
    ctx.notes.update({"files": len(cases), "files_judged": len(obs), "files_with_rows_beyond_preview": beyond, "rejected_before_execution": skipped, "cells_checked": ncells,
                      "runs_that_failed": sum(1 for o in obs if o["failed"]), "cli_runs": len(jobs)})
    ctx.coverage["exhaustive"] = False
    ctx.coverage["rule"] = ("files generated by SchemaCases.tla under the TLC seed: 1-3 columns, per column 1-3 cells cycled through the 100 preview rows and 1-2 cells for the rows after, "
                            "from 64 CSV cell texts (ints incl. +3/007/int64 bounds, floats incl. .5/5./hex/Inf/NaN, 9 bool spellings, RFC 3339 times, look-alikes) and JSON documents "
                            "to depth 2 (null, missing key, numbers, strings incl. time-like, booleans, arrays, objects); lengths 3..165 rows. evaluations = cells judged by TLC; "
                            "distinct_nontrivial = files judged")
    ctx.assumptions += ["a cell's readings are those of Go's strconv / RFC 3339 as listed in Schema.tla; which reading the datasource picks is not pinned, only that it is one and belongs to the reported type",
                        "extra keys of a JSON object that the reported type does not mention are not required to be an error"]


def replay(ctx, rec):
    print(json.dumps(rec, indent=1))
    return 0
