"""C27 — plugin installation survives a crash at any point (PluginInstall.tla).
The model walks `plugin install` / `plugin repository add` one file-system step at a time and allows a kill between any two steps and in the middle of
the long ones (download, unarchive, file write); TLC checks Layer P (CrashSafe) on every state a kill can leave, for the three prior states (nothing
installed, a lower version installed, the same version installed), and exports every kill scenario with the predicted file-system state.
Fault enumeration on the real binary (decides): for every scenario the matching crash point (build tag verif: VERIF_CRASH_AT, torn prefixes zero /
half / all-but-last byte, truncated download / unpacked files) kills the real `octosql plugin install` / `repository add` talking to a loopback HTTP
repository; afterwards real invocations must start, the configured database must resolve to a complete plugin (the previous or the new version), a file
with the plugin's extension must not be routed to a broken plugin, the repositories must load, and re-running the interrupted command must succeed.
The observed file-system state is also compared with the model's prediction (Layer I, drift only)."""
import glob
import io
import json
import os
import shutil
import tarfile

import cli as climod
import core
from props.c28 import serve, home_env

LEVEL = "fault_enumeration"
CFG = 'SPECIFICATION Spec\nINVARIANTS CrashSafe Completes\nCONSTANTS Design = "%s"\n Priors = {"none", "older", "same"}\n'
PAD = "".join(": padding line %03d so that a truncated copy of this file loses its last line\n" % i for i in range(12))
SCRIPT = "#!/bin/sh\n" + PAD + "echo \"$0\" >> \"$VERIF_MARKER\"\nexit 1\n"
TORN = ("zero", "half", "allbutlast")
# action map: crash point of the code -> position of the kill in the model (pc, inside a long step)
INSTALL_POINTS = [("install:start", 1, False), ("install:staging-created", 2, False), ("install:archive-created", 3, False), ("install:archive-partial", 3, True),
                  ("install:archive-downloaded", 4, False), ("install:unarchive-partial", 4, True), ("install:unarchived", 5, False), ("install:archive-removed", 6, False),
                  ("install:old-version-removed", 7, False), ("install:moved-into-place", 8, False)] + \
                 [("write:.octosql:tmp:" + t, 8, True) for t in TORN] + [("write:.octosql:tmp-written", 9, False), ("write:.octosql:renamed", 10, False), ("install:done", 10, False)]
REPO_POINTS = [("write:repositories:tmp:" + t, 1, True) for t in TORN] + [("write:repositories:tmp-written", 2, False), ("write:repositories:renamed", 3, False)]
BROKEN = ("couldn't find binary", "is not installed", "couldn't start plugin", "exec format", "permission denied", "no such file", "json-decode", "couldn't decode", "couldn't parse plugin", "couldn't list")


def targz(name, content):
    buf = io.BytesIO()
    with tarfile.open(fileobj=buf, mode="w:gz") as tf:
        data = content.encode()
        ti = tarfile.TarInfo(name)
        ti.size, ti.mode = len(data), 0o755
        tf.addfile(ti, io.BytesIO(data))
    return buf.getvalue()


def dir_state(d, arch_size, bin_size):
    if not os.path.isdir(d):
        return "absent"
    names = os.listdir(d)
    if not names:
        return "empty"
    arch = os.path.join(d, "archive.tar.gz")
    bins = [n for n in names if n.startswith("octosql-plugin-")]
    if bins:
        ok = os.path.getsize(os.path.join(d, bins[0])) == bin_size
        return ("extracted" if os.path.exists(arch) else "complete") if ok else "extracted_partial"
    if os.path.exists(arch):
        return "archive_full" if os.path.getsize(arch) == arch_size else "archive_partial"
    return "other:" + ",".join(names)


def json_state(paths):
    if not paths:
        return "absent"
    try:
        json.load(open(paths[0]))
        return "full"
    except Exception:
        return "torn"


def run(ctx):
    thorough = ctx.tier == "thorough"
    # ---------------- M: the design ----------------
    r = ctx.tlc_ok("PluginInstallCases", CFG % "staged", name="PluginInstall_staged", deadlock=False, timeout=600)
    ctx.cover_tlc(r)
    scen = ctx.read_ndjson("c27_scenarios.ndjson")
    r2 = ctx.tlc("PluginInstall", CFG % "inplace", name="PluginInstall_inplace", deadlock=False, timeout=600)
    ctx.notes["model"] = {"staged_design_states": r.distinct, "staged_design": "CrashSafe holds (re-install window tolerated and listed)",
                          "inplace_design_(the_pinned_code)": "CrashSafe violated" if "CrashSafe is violated" in r2.out else "NOT violated (unexpected)"}
    if "CrashSafe is violated" not in r2.out:
        raise core.Machinery("negative control: the in-place design must violate CrashSafe in the model")
    bypos = {(s["prior"], s["op"], s["pc"], s["inside"]): s for s in scen}
    plan = []
    for prior in ("none", "older", "same"):
        for point, pc, inside in INSTALL_POINTS:
            plan.append((prior, "install", point, pc, inside))
    for point, pc, inside in REPO_POINTS:
        plan.append(("none", "repo-add", point, pc, inside))
    covered = set((p, o, pc, i) for p, o, _, pc, i in plan)
    missing = [k for k in bypos if k not in covered and not (k[1] == "repo-add" and k[2] == 1 and not k[3])]
    if missing or any((p, o, pc, i) not in bypos for p, o, _, pc, i in plan):
        raise core.Machinery("crash points and model positions do not line up: %s" % (missing or "plan has positions the model lacks"))
    # ---------------- R: the real binary ----------------
    cli = climod.Cli(ctx)
    root = os.path.join(ctx.scratch, "c27")
    www = os.path.join(root, "www")
    os.makedirs(www)
    arch = {}
    for v in ("0.1.0", "0.2.0"):
        arch[v] = targz("octosql-plugin-demo", SCRIPT + "# version %s\n" % v)
        with open(os.path.join(www, "demo-%s.tar.gz" % v), "wb") as f:
            f.write(arch[v])
    bin_size = len((SCRIPT + "# version 0.1.0\n").encode())
    srv = serve(www)
    base = "http://127.0.0.1:%d" % srv.server_address[1]
    with open(os.path.join(www, "repo.json"), "w") as f:
        json.dump({"name": "official", "description": "", "slug": "core", "plugins": [{"name": "demo", "description": "", "file_extensions": ["demoext"], "manifest_url": base + "/manifest.json"}]}, f)
    with open(os.path.join(www, "manifest.json"), "w") as f:
        json.dump({"binary_download_url_pattern": base + "/demo-{{version}}.tar.gz", "versions": [{"number": "0.1.0"}, {"number": "0.2.0"}]}, f)
    with open(os.path.join(www, "extra.json"), "w") as f:
        json.dump({"name": "extra", "description": "", "slug": "extra", "plugins": []}, f)
    nrun = nok = drift = 0
    drifts = []
    for k, (prior, op, point, pc, inside) in enumerate(plan):
        h = os.path.join(root, "s%d" % k)
        pd = os.path.join(h, "plugins")
        os.makedirs(os.path.join(h, ".octosql"))
        with open(os.path.join(h, "t.csv"), "w") as f:
            f.write("a\n1\n")
        with open(os.path.join(h, "f.demoext"), "w") as f:
            f.write("x\n")
        with open(os.path.join(h, ".octosql", "file_extension_handlers.json"), "w") as f:
            json.dump({"otherext": "other"}, f)
        env = home_env(h, {"OCTOSQL_PLUGIN_DIR": pd, "OCTOSQL_PLUGIN_REPOSITORY_OFFICIAL_URL": base + "/repo.json"})

        def oc(args, extra=None, marker=None):
            e = dict(env)
            e.update(extra or {})
            e["VERIF_MARKER"] = marker or os.path.join(h, "marker_unused")
            return cli.run(args, cwd=h, env=e, timeout=60)

        def probe(sql, tag):
            m = os.path.join(h, "marker_%s_%d" % (tag, len(os.listdir(h))))
            rc, o, err = oc([sql, "-o", "json"], marker=m)
            started = open(m).read().split() if os.path.exists(m) else []
            return rc, o, err, started
        # prior state through real, uninterrupted installs
        if prior in ("older", "same"):
            v0 = "0.1.0" if prior == "older" else "0.2.0"
            rc, o, err = oc(["plugin", "install", "demo@" + v0])
            if rc != 0:
                raise core.Machinery("setting up the prior state failed: " + err[-500:])
            with open(os.path.join(h, ".octosql", "octosql.yml"), "w") as f:
                f.write("databases:\n  - name: d\n    type: core/demo\n")
        # what the probing queries did before the interrupted command: afterwards they must do that, or use the completely installed new version
        def errline(e):
            return e.strip().splitlines()[-1] if e.strip() else ""
        base_db = probe("SELECT * FROM demo.x", "b_db")
        base_ext = probe("SELECT * FROM f.demoext", "b_ext")
        cmd = ["plugin", "install", "demo@0.2.0"] if op == "install" else ["plugin", "repository", "add", base + "/extra.json"]
        rc, o, err = oc(cmd, {"VERIF_CRASH_AT": point})
        nrun += 1
        shown = {"prior": prior, "command": "octosql " + " ".join(cmd), "killed_at": point}
        sig = {"site": "plugin " + ("install" if op == "install" else "repository add"), "prior": prior, "killed_at": point.rsplit(":", 1)[0] if point.split(":")[-1] in TORN else point,
               "torn": point.split(":")[-1] if point.split(":")[-1] in TORN else ""}
        if rc != 97:
            raise core.Machinery("crash point %s was not reached (exit %d): %s" % (point, rc, (o + err)[-400:]))
        # ---- Layer I: observed file system vs the model's prediction (drift only)
        model = bypos[(prior, op, pc, inside)]
        vd = os.path.join(pd, "core", "octosql-plugin-demo")
        stag = glob.glob(os.path.join(vd, ".staging-*"))
        regf = os.path.join(h, ".octosql", "file_extension_handlers.json")
        obs = {"ver_new": dir_state(os.path.join(vd, "0.2.0"), len(arch["0.2.0"]), bin_size), "staging": dir_state(stag[0], len(arch["0.2.0"]), bin_size) if stag else "absent",
               "reg": "torn" if json_state([regf]) == "torn" else "parses", "regtmp": json_state(glob.glob(os.path.join(h, ".octosql", ".file_extension_handlers.json.tmp-*"))),
               "repo": {"absent": "absent", "full": "ok", "torn": "torn"}[json_state(glob.glob(os.path.join(h, ".octosql", "repositories", "extra")))],
               "repotmp": json_state(glob.glob(os.path.join(h, ".octosql", "repositories", ".extra.tmp-*")))}
        fs = model["fs"]
        pred = {"ver_new": fs["ver"]["new"], "staging": fs["staging"], "reg": "torn" if fs["reg"] == "torn" else "parses", "regtmp": fs["regtmp"], "repo": fs["repo"], "repotmp": fs["repotmp"]}
        if obs != pred:
            drift += 1
            drifts.append({"scenario": shown, "model": pred, "observed": obs})
        # ---- Layer P on the real binary (decides)
        bad = []
        rc, o, err, _ = probe("SELECT * FROM t.csv", "start")
        if rc != 0 or climod.panicked(err):
            bad.append(("later invocations do not start", err[-300:]))
        if prior in ("older", "same"):
            rc, o, err, started = probe("SELECT * FROM d.x", "db")
            fine = len(started) == 1 and os.path.dirname(started[0]) in (os.path.join(vd, "0.1.0"), os.path.join(vd, "0.2.0")) and os.path.getsize(started[0]) == bin_size
            if not fine:
                bad.append(("the configured database no longer resolves to a runnable plugin version", {"started": started, "stderr": err[-300:]}))
        else:
            rc, o, err, started = probe("SELECT * FROM demo.x", "db")
            if (not started and (any(b in err for b in BROKEN) or errline(err) != errline(base_db[2]))) or climod.panicked(err):
                bad.append(("a half-installed plugin is visible", {"before": errline(base_db[2]), "after": errline(err)}))
        rc, o, err, started = probe("SELECT * FROM f.demoext", "ext")
        if (not started and (any(b in err for b in BROKEN) or errline(err) != errline(base_ext[2]))) or climod.panicked(err) or (prior != "none" and not started):
            bad.append(("the plugin's file extension is routed to a plugin that cannot run", {"started": started, "before": errline(base_ext[2]), "after": errline(err)}))
        rc, o, err, _ = probe("SELECT r.slug FROM plugins.repositories r", "repos")
        if rc != 0:
            bad.append(("the repositories no longer load", err[-300:]))
        rc, o, err = oc(cmd)
        if rc != 0:
            bad.append(("re-running the interrupted command fails", err[-300:]))
        elif op == "install":
            rc, o, err, started = probe("SELECT * FROM demo.x", "after")
            if not (len(started) == 1 and os.path.dirname(started[0]) == os.path.join(vd, "0.2.0")):
                bad.append(("after re-running the install the new version is not used", {"started": started, "stderr": err[-300:]}))
        else:
            rc, o, err, _ = probe("SELECT r.slug FROM plugins.repositories r", "after")
            if rc != 0 or "extra" not in o:
                bad.append(("after re-running repository add the repository is not listed", (o + err)[-300:]))
        if bad:
            ctx.violation(dict(sig, why=bad[0][0]), shown, expected="Layer P of PluginInstall.tla (model verdict for this state: %s%s)" % ("safe" if model["safe"] else "unsafe", ", re-install window" if model["window"] else ""),
                          observed={"failed": bad, "file_system": obs}, note="after the kill: " + "; ".join(b[0] for b in bad))
        else:
            nok += 1
        if not os.environ.get("VERIF_KEEP"):
            shutil.rmtree(h, ignore_errors=True)
    srv.shutdown()
    ctx.cover(evaluations=nrun, distinct=nok, sample={"prior": plan[8][0], "killed_at": plan[8][2]})
    ctx.notes.update({"kill_scenarios": nrun, "scenarios_safe_on_real_binary": nok, "model_scenarios": len(scen), "layer_I_drift": drift, "drift_examples": drifts[:3]})
    ctx.coverage["exhaustive"] = True
    ctx.coverage["rule"] = ("every kill position of the model (between any two file-system steps, inside download / unarchive / file write) x prior states {nothing installed, lower version installed, "
                            "same version installed} for `plugin install`, and all positions of `plugin repository add`; file writes torn at 0 bytes, half, all but the last byte; "
                            "evaluations = kills of the real binary, each followed by 5 probing invocations and a re-run of the command")
    ctx.assumptions += ["a kill is emulated by os.Exit at the crash point (no deferred function runs); a kill inside the third-party unarchiver by truncating every unpacked file",
                        "process kill only: reordering of unsynced writes by a power loss is out of scope"]


def replay(ctx, rec):
    print(json.dumps(rec, indent=1))
    return 0
