"""C14 — aggregates are invariant under retraction histories.

M: TLC checks Aggregates.tla (Layer I refines Layer P on every valid history <= MaxLen over 3 atoms).
R: the same TLC run exports every maximal valid history with the expected value after each step; the harness
   steps the real aggregates (every kind x Int/Float/Duration overload) and compares after every step.
T: random long histories over a larger domain are recorded from the real aggregates and validated by TLC
   against AggregatesTrace.tla (Layer P evaluated in every state).
"""
import json

LEVEL = "model_checking"

MC = """---------------------------- MODULE AggregatesMC ----------------------------
EXTENDS Aggregates
McDom == {-1, 1, 2}
ASSUME ExportCases("agg_cases.ndjson", MaxLen)
=============================================================================
"""
MC_CFG = """SPECIFICATION Spec
CONSTANTS Dom <- McDom
 MaxLen = %d
INVARIANTS Refines BagMatches
"""
TR = """---------------------------- MODULE AggregatesTraceMC ----------------------------
EXTENDS AggregatesTrace
TrDom == -%d..%d
=============================================================================
"""
TR_CFG = """SPECIFICATION TSpec
CONSTANTS Dom <- TrDom
 MaxLen = 0
INVARIANTS LayerP ValidInput Refines
POSTCONDITION TraceAccepted
"""


def classify(kind, vk, h):
    return {"site": "aggregates." + kind, "vk": vk}


def validate_trace(ctx, events, dom, expect_reject=False):
    ctx.write_ndjson("agg_trace.ndjson", events)
    r = ctx.tlc("AggregatesTraceMC", TR_CFG, workers=1, files={"AggregatesTraceMC.tla": TR % (dom, dom)}, timeout=900)
    return r


def first_bad(r):
    import re
    m = re.findall(r"/\\ bad = (\d+)", r.out)
    bad = [int(x) for x in m if int(x) > 0]
    return bad[0] if bad else None


def run(ctx):
    thorough = ctx.tier == "thorough"
    maxlen = 6 if thorough else 5
    # ---- M + export
    r = ctx.tlc_ok("AggregatesMC", MC_CFG % maxlen, files={"AggregatesMC.tla": MC}, timeout=1500)
    ctx.cover_tlc(r)
    ctx.notes["model"] = {"module": "Aggregates.tla", "Dom": [-1, 1, 2], "MaxLen": maxlen, "distinct_states": r.distinct,
                          "invariants": ["Refines", "BagMatches"], "path_exhaustive": True}
    # ---- R
    out = ctx.scratch + "/agg_results.ndjson"
    ctx.driver("agg-replay", ["-in", ctx.specfile("agg_cases.ndjson"), "-out", out])
    res = ctx.read_ndjson(out)
    summ = [x for x in res if x.get("summary")][0]
    if summ["cases"] == 0 or summ["runs"] == 0:
        raise core.Machinery("agg-replay exercised nothing")
    for m in res:
        if m.get("mis"):
            ctx.violation(classify(m["kind"], m["vk"], m["h"]), {"kind": m["kind"], "vk": m["vk"], "history": m["h"], "step": m["step"]},
                          expected=m["expected"], observed=m["observed"],
                          note="real aggregate differs from AggOf(net multiset) after step %d" % m["step"])
    ctx.cover(evaluations=summ["steps"], distinct=summ["runs"])
    ctx.notes["replay"] = summ
    cases = ctx.read_ndjson("agg_cases.ndjson")
    ctx.cover(sample={"history": cases[len(cases) // 2]["h"], "expected_avg": cases[len(cases) // 2]["exp"]["avg"]})
    # ---- T
    dom = 20
    n = 5000 if thorough else 300
    tr = ctx.scratch + "/agg_trace.ndjson"
    ctx.driver("agg-trace", ["-out", tr, "-n", n, "-len", 80 if thorough else 40, "-dom", dom, "-seed", ctx.seed])
    events = ctx.read_ndjson(tr)
    ntr = sum(1 for e in events if e["ev"] == "new")
    remaining = events
    offset = 0
    rounds = 0
    while True:
        rounds += 1
        r = validate_trace(ctx, remaining, dom)
        if r.ok:
            break
        if r.invariant == "ValidInput":
            raise core.Machinery("trace driver produced an invalid history")
        if r.invariant != "LayerP":
            raise core.Machinery("trace validation failed for a reason other than Layer P:\n" + r.out[-3000:])
        bad = first_bad(r)
        if bad is None:
            raise core.Machinery("cannot locate failing event:\n" + r.out[-2000:])
        # the failing event belongs to the trace started by the closest preceding "new"
        start = max(i for i in range(bad) if remaining[i]["ev"] == "new")
        end = next((i for i in range(bad, len(remaining)) if remaining[i]["ev"] == "new"), len(remaining))
        hdr = remaining[start]
        hist = remaining[start + 1:bad]
        ctx.violation(classify(hdr["kind"], hdr["vk"], hist), {"kind": hdr["kind"], "vk": hdr["vk"], "history": [{"r": e["r"], "v": e["v"]} for e in hist]},
                      expected="AggOf(net multiset) per AggregatesTrace.tla", observed=remaining[bad - 1]["out"],
                      note="trace rejected by Layer P at event %d of its history" % (bad - 1 - start))
        remaining = remaining[:start] + remaining[end:]   # drop that history, keep validating the rest
        if rounds > 40:
            break
    ctx.cover(states=r.distinct, transitions=r.generated, traces=ntr, evaluations=len(events))
    # negative control: corrupt one logged output, the trace must be rejected
    ctrl = [dict(e) for e in events[:200]]
    idx = next(i for i, e in enumerate(ctrl) if e["ev"] == "add" and "i" in e["out"])
    ctrl[idx] = dict(ctrl[idx], out={"i": ctrl[idx]["out"]["i"] + 1})
    rc = validate_trace(ctx, ctrl, dom)
    if rc.ok or rc.invariant != "LayerP":
        raise core.Machinery("negative control (corrupted trace) was not rejected")
    ctx.notes["trace"] = {"histories": ntr, "events": len(events), "negative_control_rejected": True, "atoms": "-%d..%d" % (dom, dom)}
    ctx.coverage["rule"] = ("R: every maximal valid add/retract history of length MaxLen over atoms {-1,1,2} (prefixes checked step by step), "
                            "each run through every aggregate kind x {Int, Float a/4, Duration} overload and with the atoms scaled by 2^53+1 (Int, Duration: sums and averages beyond "
                            "the integers a float64 holds exactly; expectation trunc(K*n/d) from TLC's exact rational n/d); a run is non-trivial (it has at least one "
                            "retraction or duplicate). T: seeded random valid histories over atoms -20..20 validated by TLC. "
                            "distinct_nontrivial counts (history, kind, overload) runs.")
    ctx.coverage["exhaustive"] = True
    ctx.assumptions += ["valid histories only (a value is retracted only while present), DESIGN.md section 5",
                        "atoms map to Int a, Float a/4, Duration a ns; int64 wrap-around of sums is not exercised (TLC integers are 32 bit)",
                        "float results compared within 1e-9 relative (R) / 1e-4 absolute (T)"]


import core  # noqa: E402


def replay(ctx, rec):
    c = rec["case"]
    print(json.dumps(rec, indent=1))
    return 0
