"""C22 — the internally-consistent output wrapper forwards exactly the settled changes (ConsistentOutput.tla)."""
import json
import props.tvf as tvf
from props.gb import V_int, V_str, V_time

LEVEL = "model_checking"


def run(ctx):
    tvf.run_cout(ctx, "C22")
    row = [V_time(1), V_str("a"), V_int(1)]
    rec = {"m": "rec", "v": row, "r": False, "t": 1}
    tvf.control(ctx, "C22", [{"ev": "new", "cfg": {"op": "cout"}}, {"ev": "in", "msg": rec, "out": []},
                             {"ev": "in", "msg": {"m": "wm", "w": 1}, "out": [{"m": "wm", "w": 1}]}])
    ctx.coverage["exhaustive"] = True
    ctx.coverage["rule"] = ("every valid input changelog up to MaxLen over 2 rows x +/- x event times 0..2 with watermarks 1..2 (late records included), "
                            "plus seeded random long changelogs (3 rows, times 0..5), run on the real wrapper; TLC evaluates after every event: at each "
                            "forwarded watermark W the consolidated output = consolidated input at or below W, nothing emitted that was not received, "
                            "all emitted by end of stream. distinct_nontrivial = traces validated")
    ctx.assumptions += ["valid input changelogs (never retract an absent row, also in event-time order)"]


def replay(ctx, rec):
    print(json.dumps(rec, indent=1))
    return 0
