"""C17 — triggers fire exactly when specified.

Part 1 (trigger objects): TLC model-checks Triggers.tla (Layer I within the Layer-P bounds Must <= polled <= May for every
event history <= MaxLen x 9 trigger configurations) and exports the histories; the harness replays each on the real
execution.Trigger objects and records what Poll returned; TLC validates the recorded traces (plus seeded random long
histories) against TriggersTrace.tla.
Part 2 (group-by node, ordering 'trigger, then forward watermark'): see props/gb.py (shared with C16)."""
import core
from core import validate_trace, negative_control

LEVEL = "model_checking"

MC_CFG = "SPECIFICATION Spec\nCONSTANTS MaxLen = %d\nINVARIANTS Bounds\n"
TR_CFG = "SPECIFICATION TSpec\nINVARIANTS LayerP\nPOSTCONDITION TraceAccepted\n"


def sig_of(f):
    kinds = "+".join(c["k"] + (str(c.get("n", "")) if c["k"] == "count" else "") for c in f["header"]["cfg"])
    return {"site": "execution.Trigger", "cfg": kinds, "why": f["why"]}


def run(ctx):
    thorough = ctx.tier == "thorough"
    r = ctx.tlc_ok("TriggersMC", MC_CFG % (6 if thorough else 5), timeout=1500)
    ctx.cover_tlc(r)
    ctx.notes["model"] = {"module": "Triggers.tla/TriggersMC.tla", "MaxLen": 6 if thorough else 5, "configs": 9,
                          "distinct_states": r.distinct, "invariant": "Bounds (Must <= polled <= May)"}
    tr = ctx.scratch + "/trig_trace.ndjson"
    ctx.driver("trig-run", ["-in", ctx.specfile("trig_hists.ndjson"), "-out", tr, "-random", 3000 if thorough else 400,
                            "-len", 60 if thorough else 30, "-seed", ctx.seed])
    events = ctx.read_ndjson(tr)
    for e in events:
        if "panic" in e:
            ctx.violation({"site": "execution.Trigger", "why": "panic"}, e, observed=e["panic"], note="trigger panicked")
    is_new = lambda e: e.get("ev") == "new"
    fails, res, drifts, ntr = validate_trace(ctx, "TriggersTrace", TR_CFG, "trig_trace.ndjson", events, is_new)
    for f in fails:
        ctx.violation(sig_of(f), {"cfg": f["header"]["cfg"], "events": f["events"][:f["bad_index"] + 1]},
                      expected="Must(cfg,h) <= polled <= May(cfg,h) (Triggers.tla)", observed=f["events"][f["bad_index"]],
                      note=f["why"])
    ctx.cover(states=res.distinct, transitions=res.generated, traces=ntr, evaluations=len(events), distinct=ntr)
    # negative control: drop one polled key from a counting-1 history
    ctrl = [{"ev": "new", "cfg": [{"k": "count", "n": 1}]},
            {"ev": "key", "key": [{"t": "time", "ts": 1}, {"t": "str", "s": "a"}], "polled": []}]
    negative_control(ctx, "TriggersTrace", TR_CFG, "trig_trace.ndjson", ctrl)
    ctx.notes["trace"] = {"traces": ntr, "events": len(events), "layer_I_drift_events": drifts, "negative_control_rejected": True}
    ctx.cover(sample={"cfg": events[0].get("cfg"), "events": events[1:4]})
    ctx.coverage["rule"] = ("every event history (KeyReceived over 3 keys / WatermarkReceived 1..2 monotone / EndOfStream last) up to MaxLen "
                            "for each of 9 trigger configurations (Counting 1..3, Watermark, EndOfStream and Multi combinations), each event followed "
                            "by Poll, replayed on the real trigger objects; plus seeded random histories (4 key times x 3 names, Counting 1..4). "
                            "distinct_nontrivial = number of (configuration, history) traces validated")
    ctx.coverage["exhaustive"] = True
    ctx.assumptions += ["calling protocol of the group-by: one Poll after every trigger event",
                        "watermarks passed to the trigger are non-decreasing"]
    # part 2: group-by node level
    import props.gb as gb
    gb.run_groupby(ctx, "C17")


def replay(ctx, rec):
    import json
    print(json.dumps(rec, indent=1))
    return 0
