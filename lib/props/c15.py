"""C15 — operators keep a valid changelog and compute incrementally what batch computes.
Single-input operators (filter, map, distinct, event-time buffer, group by with every trigger) through props/gb.py; joins
through props/joins.py; order by (OrderSensitiveTransform), limit, lookup join and unnest through gb.run_ext."""
import json
import props.gb as gb

LEVEL = "model_checking"


def run(ctx):
    gb.run_basic(ctx, "C15")
    gb.run_groupby(ctx, "C15")
    gb.run_ext(ctx, "C15")
    gb.run_pipes(ctx, "C15")
    try:
        import props.joins as joins
        joins.run_joins(ctx, "C15")
    except ImportError:
        ctx.notes["joins"] = "not built yet"
    ctx.coverage["rule"] = ("every valid input changelog (additions/retractions/watermarks, late and zero-time records included) up to MaxLen over small "
                            "universes, per operator configuration (filter, map x2, distinct, event-time buffer, group by x10 trigger configurations, order by x4, limit x3, lookup join, unnest; stream and outer joins under every schedule), plus "
                            "seeded random long changelogs; each is run on the real node and the trace validated by TLC: the output never retracts an absent "
                            "row (every prefix) and its consolidation equals the operator applied to the consolidated input at end of stream. "
                            "distinct_nontrivial = traces validated")


def replay(ctx, rec):
    print(json.dumps(rec, indent=1))
    return 0
