"""Running the real octosql binary (built from /repo's working tree with -tags verif): isolated HOME per worker thread, no telemetry,
parallel execution, and decoders for the five output modes."""
import csv
import io
import json
import os
import re
import subprocess
import threading
from concurrent.futures import ThreadPoolExecutor

_local = threading.local()


class Cli:
    def __init__(self, ctx, race=False):
        self.ctx = ctx
        self.bin = ctx.build_cli(race=race)
        self.root = os.path.join(ctx.scratch, "cli")
        os.makedirs(self.root, exist_ok=True)
        self.n = 0
        self.lock = threading.Lock()

    def _home(self):
        h = getattr(_local, "home", None)
        if h is None or not h.startswith(self.root):
            with self.lock:
                self.n += 1
                h = os.path.join(self.root, "home%d" % self.n)
            os.makedirs(h, exist_ok=True)
            _local.home = h
        return h

    def run(self, args, cwd, stdin=None, timeout=60, env=None, raw=False):
        h = self._home()
        e = dict(os.environ)
        e.update({"HOME": h, "OCTOSQL_NO_TELEMETRY": "1", "XDG_CONFIG_HOME": h + "/.config", "XDG_DATA_HOME": h + "/.data", "XDG_CACHE_HOME": h + "/.cache"})
        if env:
            e.update(env)
        try:
            p = subprocess.run([self.bin] + args, cwd=cwd, env=e, input=stdin, stdout=subprocess.PIPE, stderr=subprocess.PIPE, timeout=timeout)
            return p.returncode, p.stdout if raw else p.stdout.decode("utf-8", "replace"), p.stderr.decode("utf-8", "replace")
        except subprocess.TimeoutExpired as ex:
            return -9, (ex.stdout or b"") if raw else (ex.stdout or b"").decode("utf-8", "replace"), "TIMEOUT after %ss" % timeout

    def run_many(self, jobs, workers=16):
        """jobs: list of dict(args, cwd, stdin?, timeout?) -> list of (rc, out, err) in order"""
        with ThreadPoolExecutor(max_workers=workers) as ex:
            return list(ex.map(lambda j: self.run(j["args"], j["cwd"], j.get("stdin"), j.get("timeout", 60), j.get("env"), j.get("raw", False)), jobs))


def panicked(err):
    """a Go runtime panic / fatal error trace (an error *message* that merely mentions 'runtime error' is a reported error)"""
    return ("goroutine " in err and ("panic:" in err or "fatal error:" in err)) or "[signal SIG" in err


def cell(v):
    """abstract value -> the cell text written into a CSV input file"""
    t = v["t"]
    if t == "null":
        return ""
    if t == "int":
        return str(v["i"])
    if t == "str":
        return v["s"]
    if t == "bool":
        return "true" if v["b"] else "false"
    raise ValueError(v)


def write_csv(path, cols, rows):
    with open(path, "w", newline="") as f:
        w = csv.writer(f)
        w.writerow(cols)
        for r in rows:
            w.writerow([cell(r[c]) for c in cols])


# ---- decoders: each returns a list of rows, a row being a list of strings with None for NULL ----
def parse_json(out, cols):
    rows = []
    for line in out.splitlines():
        if not line.strip():
            continue
        d = json.loads(line)
        rows.append([None if d.get(c) is None else (json.dumps(d[c]) if not isinstance(d[c], str) else d[c]) for c in cols])
    return rows


def parse_csv(out, cols):
    r = list(csv.reader(io.StringIO(out)))
    if not r:
        return []
    hdr = r[0]
    idx = [hdr.index(c) for c in cols]
    return [[None if row[i] == "" else row[i] for i in idx] for row in r[1:]]


_ANSI = re.compile(r"\x1b\[[0-9;]*[A-Za-z]")


def parse_table(out, cols):
    """batch_table / live_table: the rows of the last table frame"""
    text = _ANSI.sub("", out)
    lines = [l for l in text.splitlines()]
    # find the last header line (the line after a border that lists the column names)
    frames = []
    cur = None
    for l in lines:
        s = l.strip()
        if s.startswith("+") and s.endswith("+"):
            continue
        if s.startswith("|") and s.endswith("|"):
            cells = [c.strip() for c in s[1:-1].split("|")]
            if cells == cols or [c.split(".")[-1] for c in cells] == cols:
                cur = []
                frames.append(cur)
            elif cur is not None:
                cur.append(cells)
    if not frames:
        return []
    rows = []
    for cells in frames[-1]:
        row = []
        for c in cells:
            if c == "<null>":
                row.append(None)
            elif len(c) >= 2 and c[0] == "'" and c[-1] == "'":
                row.append(c[1:-1])
            else:
                row.append(c)
        rows.append(row)
    return rows


def parse_native(out, ncols):
    """stream_native: {+time| v1, v2 |} ; returns (rows, retractions)"""
    rows, retr = [], 0
    for line in out.splitlines():
        m = re.match(r"^\{([+-])[^|]*\| (.*) \|\}$", line.strip())
        if not m:
            continue
        cells = [c.strip() for c in m.group(2).split(", ")] if ncols > 0 else []
        row = [None if c == "<null>" else (c[1:-1] if len(c) >= 2 and c[0] == "'" and c[-1] == "'" else c) for c in cells]
        if m.group(1) == "-":
            retr += 1
            if row in rows:
                rows.remove(row)
        else:
            rows.append(row)
    return rows, retr


def expected_cells(row):
    """abstract row -> the same string form the decoders produce"""
    out = []
    for v in row:
        t = v["t"]
        if t == "null":
            out.append(None)
        elif t == "int":
            out.append(str(v["i"]))
        elif t == "str":
            out.append(v["s"])
        elif t == "bool":
            out.append("true" if v["b"] else "false")
        else:
            out.append(json.dumps(v))
    return out
