------------------------- MODULE PluginInstallCases -------------------------
(* exports, for the design under test, every kill scenario of PluginInstall.tla (prior state, operation, position of the kill) with the file
   system state the model predicts and the verdict of Layer P on it; the harness kills the real binary at the matching crash point *)
EXTENDS PluginInstall, Json, SequencesExt
RECURSIVE Run(_, _, _)
Run(s, steps, k) == IF k = 0 THEN s ELSE Apply(Run(s, steps, k - 1), steps[k])
Scenario(p, o, k, inside) ==
  LET steps == StepsOf(o)
      s0 == Run(Prior(p), steps, k - 1)
      s  == IF inside THEN Half(s0, steps[k]) ELSE s0
  IN [prior |-> p, op |-> o, pc |-> k, inside |-> inside, step |-> IF k <= Len(steps) THEN steps[k] ELSE "end", fs |-> s, safe |-> Safe(s, p), window |-> ReinstallWindow(s, p)]
Positions(o) == {<<k, i>> \in (1..(Len(StepsOf(o)) + 1)) \X BOOLEAN : i => (k <= Len(StepsOf(o)) /\ StepsOf(o)[k] \in Long)}
Scenarios == {Scenario(p, "install", x[1], x[2]) : p \in Priors, x \in Positions("install")} \cup {Scenario("none", "repo-add", x[1], x[2]) : x \in Positions("repo-add")}
ASSUME ndJsonSerialize("c27_scenarios.ndjson", SetToSeq(Scenarios))
=============================================================================
