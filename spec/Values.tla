-------------------------------- MODULE Values --------------------------------
(***************************************************************************)
(* C09 — value ordering, equality and hashing (octosql/values.go).         *)
(*                                                                         *)
(* U is a bounded universe of abstract values (DESIGN.md 4.5).  SpecCmp is *)
(* the reference order where the documentation pins it: NULL first, then   *)
(* by type (Int, Float, Boolean, String, Time, Duration, List, Object,     *)
(* Tuple), numbers numerically, strings bytewise, composites               *)
(* lexicographically with a proper prefix first.  The position of NaN is   *)
(* left open (Pinned = FALSE for pairs involving NaN); -0 and +0 are equal.*)
(*                                                                         *)
(* The laws are evaluated by TLC on the *observed* comparison matrix and   *)
(* hash classes of the real octosql.Value (ValuesCheck.tla).               *)
(***************************************************************************)
EXTENDS Integers, Sequences, FiniteSets, TLC

IntV(n)   == [t |-> "int", i |-> n]
BigInt(s) == [t |-> "int", big |-> s]                          \* "min64" | "max64" (TLC integers are 32 bit)
FloatV(n, d) == [t |-> "float", n |-> n, d |-> d]
FSp(s)    == [t |-> "fsp", s |-> s]                            \* "nan", "-inf", "+inf", "-0", "+0"
BoolV(b)  == [t |-> "bool", b |-> b]
StrV(s)   == [t |-> "str", s |-> s]
TimeV(n)  == [t |-> "time", ts |-> n]
TimeZ(n, z) == [t |-> "time", ts |-> n, z |-> z]                \* the same instant as TimeV(n), expressed in the zone UTC+z hours
DurV(n)   == [t |-> "dur", du |-> n]
ListV(l)  == [t |-> "list", l |-> l]
ObjV(l)   == [t |-> "obj", o |-> l]
TupV(l)   == [t |-> "tuple", tu |-> l]
NullV     == [t |-> "null"]

(* strings of the universe, listed in bytewise (UTF-8) order; the harness re-checks that order with bytes.Compare *)
Strs == <<"", "A", "B", "a", "aa", "ab", "b", "p", "q", "u", "v", "x", "y", "é">>
StrRank(s) == CHOOSE i \in 1..Len(Strs) : Strs[i] = s

Scalars == {NullV,
            IntV(-1), IntV(0), IntV(1), BigInt("min64"), BigInt("max64"),
            FloatV(-3, 2), FloatV(0, 1), FloatV(1, 1), FloatV(3, 2), FSp("-0"), FSp("nan"), FSp("-inf"), FSp("+inf"),
            BoolV(FALSE), BoolV(TRUE),
            TimeV(1), TimeV(2), TimeZ(1, 2), TimeZ(2, -7), DurV(-1), DurV(0), DurV(5)}
           \cup {StrV(Strs[i]) : i \in 1..Len(Strs)}
Small == {NullV, IntV(0), IntV(1), FloatV(0, 1), FSp("nan"), FSp("-0"), StrV("a"), StrV("aa")}
Seqs1 == {<<>>} \cup {<<x>> : x \in Small} \cup {<<x, y>> : x \in {IntV(0), IntV(1), NullV}, y \in {IntV(0), IntV(1), FSp("nan")}}
Nested == {ListV(<<ListV(<<>>)>>), ListV(<<ListV(<<IntV(1)>>)>>), ListV(<<ListV(<<IntV(1)>>), IntV(0)>>),
           TupV(<<ListV(<<IntV(1)>>), StrV("a")>>), ObjV(<<TupV(<<IntV(0)>>), NullV>>)}
U == Scalars \cup {ListV(s) : s \in Seqs1} \cup {ObjV(s) : s \in Seqs1} \cup {TupV(s) : s \in Seqs1} \cup Nested

TypeRank(v) == CASE v.t = "null" -> 0 [] v.t = "int" -> 1 [] v.t \in {"float", "fsp"} -> 2 [] v.t = "bool" -> 3
                 [] v.t = "str" -> 4 [] v.t = "time" -> 5 [] v.t = "dur" -> 6 [] v.t = "list" -> 7 [] v.t = "obj" -> 8 [] v.t = "tuple" -> 9

IsNaN(v) == v.t = "fsp" /\ v.s = "nan"
RECURSIVE HasNaN(_)
Elems(v) == CASE v.t = "list" -> v.l [] v.t = "obj" -> v.o [] v.t = "tuple" -> v.tu [] OTHER -> <<>>
HasNaN(v) == IsNaN(v) \/ \E i \in 1..Len(Elems(v)) : HasNaN(Elems(v)[i])

Sign(x) == IF x < 0 THEN -1 ELSE IF x > 0 THEN 1 ELSE 0
IClass(v) == IF "big" \in DOMAIN v THEN (IF v.big = "min64" THEN -1 ELSE 1) ELSE 0
CmpInt(a, b) == IF IClass(a) # IClass(b) THEN Sign(IClass(a) - IClass(b)) ELSE IF IClass(a) # 0 THEN 0 ELSE Sign(a.i - b.i)
(* floats: specials and exact fractions n/d (d > 0) *)
FClass(v) == IF v.t = "fsp" THEN (CASE v.s = "-inf" -> -2 [] v.s = "+inf" -> 2 [] OTHER -> 0) ELSE 0
FNum(v) == IF v.t = "fsp" THEN 0 ELSE v.n            \* -0 / +0 count as 0
FDen(v) == IF v.t = "fsp" THEN 1 ELSE v.d
CmpFloat(a, b) == IF FClass(a) # FClass(b) THEN Sign(FClass(a) - FClass(b))
                  ELSE IF FClass(a) # 0 THEN 0 ELSE Sign(FNum(a) * FDen(b) - FNum(b) * FDen(a))

RECURSIVE SpecCmp(_, _)
CmpSeq(x, y) == LET n == IF Len(x) < Len(y) THEN Len(x) ELSE Len(y)
                    D == {i \in 1..n : SpecCmp(x[i], y[i]) # 0} IN
                IF D = {} THEN Sign(Len(x) - Len(y))
                ELSE SpecCmp(x[CHOOSE i \in D : \A j \in D : i <= j], y[CHOOSE i \in D : \A j \in D : i <= j])
SpecCmp(a, b) ==
  IF TypeRank(a) # TypeRank(b) THEN Sign(TypeRank(a) - TypeRank(b))
  ELSE CASE a.t = "null" -> 0
         [] a.t = "int"  -> CmpInt(a, b)
         [] a.t \in {"float", "fsp"} -> CmpFloat(a, b)
         [] a.t = "bool" -> Sign((IF a.b THEN 1 ELSE 0) - (IF b.b THEN 1 ELSE 0))
         [] a.t = "str"  -> Sign(StrRank(a.s) - StrRank(b.s))
         [] a.t = "time" -> Sign(a.ts - b.ts)
         [] a.t = "dur"  -> Sign(a.du - b.du)
         [] OTHER        -> CmpSeq(Elems(a), Elems(b))

(* the order is pinned by the documentation unless a NaN is involved at the deciding position; we simply exclude values
   containing NaN on either side *)
Pinned(a, b) == ~HasNaN(a) /\ ~HasNaN(b)

(* the spec's own order is a total preorder on the pinned part *)
SpecLaws == /\ \A a \in U : SpecCmp(a, a) = 0
            /\ \A a, b \in U : SpecCmp(a, b) = -SpecCmp(b, a)
            /\ \A a, b, c \in U : (Pinned(a, b) /\ Pinned(b, c) /\ SpecCmp(a, b) <= 0 /\ SpecCmp(b, c) <= 0) => SpecCmp(a, c) <= 0
=============================================================================
