------------------------------- MODULE Triggers -------------------------------
(***************************************************************************)
(* C17 (trigger objects) — execution/triggers.go.                          *)
(*                                                                         *)
(* A trigger configuration is a sequence of [k |-> "count", n |-> N] |     *)
(* [k |-> "wm"] | [k |-> "eos"]; more than one element is a MultiTrigger.  *)
(* Keys are <<TimeV(kt), StrV(name)>>; the watermark trigger looks at      *)
(* key[1].ts.  Calling protocol (as the group-by uses it): every           *)
(* KeyReceived / WatermarkReceived / EndOfStreamReached is followed by     *)
(* exactly one Poll.                                                       *)
(*                                                                         *)
(* Layer I: TrInit / TrKey / TrWm / TrEos / TrPoll, shaped like the code.  *)
(* Layer P: after each event, Must \subseteq polled \subseteq May where    *)
(*   COUNTING n : before end of stream exactly {k} when this is the n-th,  *)
(*                2n-th ... record of k (Must = May); at end of stream     *)
(*                every key with a pending count must fire;                *)
(*   WATERMARK  : before end of stream exactly the keys received since     *)
(*                their last firing whose time is <= the watermark;        *)
(*                at end of stream all pending keys;                       *)
(*   END OF STREAM : nothing before the end; at the end every key received.*)
(* May additionally allows re-polling keys already fired (harmless).       *)
(***************************************************************************)
EXTENDS Changelog

KeyTime(key) == key[1].ts

(* ---------------- Layer I ---------------- *)
TrInit1(c) == CASE c.k = "count" -> [cnt |-> <<>>, fire |-> <<>>, eos |-> FALSE]
                [] c.k = "wm"    -> [keys |-> {}, wm |-> 0, eos |-> FALSE]
                [] c.k = "eos"   -> [keys |-> {}, eos |-> FALSE]

TrKey1(c, s, key) ==
  CASE c.k = "count" -> LET n2 == BagGet(s.cnt, key) + 1 IN
                        IF n2 = c.n THEN [s EXCEPT !.cnt = FnRemove(s.cnt, key), !.fire = Append(s.fire, key)]
                        ELSE [s EXCEPT !.cnt = FnPut(s.cnt, key, n2)]
    [] c.k = "wm"    -> [s EXCEPT !.keys = @ \cup {key}]
    [] c.k = "eos"   -> [s EXCEPT !.keys = @ \cup {key}]

TrWm1(c, s, w) == IF c.k = "wm" THEN [s EXCEPT !.wm = w] ELSE s
TrEos1(c, s)   == [s EXCEPT !.eos = TRUE]

(* returns [s |-> new state, out |-> sequence of polled keys] *)
TrPoll1(c, s) ==
  CASE c.k = "count" -> [s |-> [s EXCEPT !.fire = <<>>],
                         out |-> s.fire \o (IF s.eos THEN SeqOf(DOMAIN s.cnt) ELSE <<>>)]
    [] c.k = "wm"    -> LET due == IF s.eos THEN s.keys ELSE {key \in s.keys : KeyTime(key) <= s.wm} IN
                        [s |-> [s EXCEPT !.keys = @ \ due], out |-> SeqOf(due)]
    [] c.k = "eos"   -> [s |-> s, out |-> IF s.eos THEN SeqOf(s.keys) ELSE <<>>]

TrInit(cfg)      == [i \in 1..Len(cfg) |-> TrInit1(cfg[i])]
TrKey(cfg, s, k) == [i \in 1..Len(cfg) |-> TrKey1(cfg[i], s[i], k)]
TrWm(cfg, s, w)  == [i \in 1..Len(cfg) |-> TrWm1(cfg[i], s[i], w)]
TrEos(cfg, s)    == [i \in 1..Len(cfg) |-> TrEos1(cfg[i], s[i])]
TrPoll(cfg, s)   == LET ps == [i \in 1..Len(cfg) |-> TrPoll1(cfg[i], s[i])] IN
                    [s |-> [i \in 1..Len(cfg) |-> ps[i].s], out |-> Flatten([i \in 1..Len(cfg) |-> ps[i].out])]

(* ---------------- Layer P: bounds derived from the event history only ---------------- *)
(* h = sequence of events [e |-> "key", key |-> k] | [e |-> "wm", w |-> n] | [e |-> "eos"]; the bounds are for the
   Poll following the last event of h, given that every earlier event was followed by a conforming Poll. *)
KeysIn(h)    == {h[i].key : i \in {j \in 1..Len(h) : h[j].e = "key"}}
CountOf(h, k) == Cardinality({i \in 1..Len(h) : h[i].e = "key" /\ h[i].key = k})
EosIn(h)     == \E i \in 1..Len(h) : h[i].e = "eos"
WmOf(h)      == LET I == {i \in 1..Len(h) : h[i].e = "wm"} IN IF I = {} THEN 0 ELSE h[CHOOSE i \in I : \A j \in I : j <= i].w
LastEv(h)      == h[Len(h)]

(* the Poll following event i clears key k (fires it if it is pending) under the watermark trigger *)
WmDueAt(h, i, k) == EosIn(SubSeq(h, 1, i)) \/ KeyTime(k) <= WmOf(SubSeq(h, 1, i))
PendingWm(h, k) == \* k was received after the last Poll at which it was due (looking at h without its last event)
  LET n == Len(h) - 1
      dueIdx == {i \in 1..n : WmDueAt(h, i, k)}
      lastDue == IF dueIdx = {} THEN 0 ELSE CHOOSE i \in dueIdx : \A j \in dueIdx : j <= i
  IN \E j \in (lastDue + 1)..Len(h) : h[j].e = "key" /\ h[j].key = k

Must1(c, h) ==
  CASE c.k = "count" -> IF EosIn(h) THEN {k \in KeysIn(h) : CountOf(h, k) % c.n # 0}
                        ELSE IF LastEv(h).e = "key" /\ CountOf(h, LastEv(h).key) % c.n = 0 THEN {LastEv(h).key} ELSE {}
    [] c.k = "wm"    -> IF EosIn(h) THEN {k \in KeysIn(h) : PendingWm(h, k)}
                        ELSE {k \in KeysIn(h) : PendingWm(h, k) /\ KeyTime(k) <= WmOf(h)}
    [] c.k = "eos"   -> IF EosIn(h) THEN KeysIn(h) ELSE {}
May1(c, h) ==
  CASE c.k = "count" -> IF EosIn(h) THEN KeysIn(h) ELSE Must1(c, h)
    [] c.k = "wm"    -> IF EosIn(h) THEN KeysIn(h) ELSE {k \in KeysIn(h) : KeyTime(k) <= WmOf(h)}
    [] c.k = "eos"   -> Must1(c, h)
Must(cfg, h) == UNION {Must1(cfg[i], h) : i \in 1..Len(cfg)}
May(cfg, h)  == UNION {May1(cfg[i], h) : i \in 1..Len(cfg)}

SeqToSet(s) == {s[i] : i \in 1..Len(s)}
=============================================================================
