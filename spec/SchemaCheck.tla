----------------------------- MODULE SchemaCheck -----------------------------
(* judges the observations of the real datasources (reported types, produced rows, failure) against Layer P of Schema.tla *)
EXTENDS Schema, Json, SequencesExt
Obs == ndJsonDeserialize("c24_obs.ndjson")
Verdicts == [i \in 1..Len(Obs) |-> [id |-> Obs[i].id] @@ Verdict(Obs[i])]
ASSUME ndJsonSerialize("c24_verdicts.ndjson", Verdicts)
ASSUME PrintT(<<"VP:obs", Len(Obs)>>)
VARIABLE x
Init == x = 0
Next == x' = x
=============================================================================
