---------------------------------- MODULE Tvf ----------------------------------
(***************************************************************************)
(* C20 / C21 — table_valued_functions/{max_diff_watermark,tumble,range,    *)
(* poll}.go.  Times are integers (seconds from the harness base instant);  *)
(* the universes keep every watermark >= 1 because 0 is "no event time".   *)
(*                                                                         *)
(* mdw    cfg = [op |-> "mdw", col |-> c, maxdiff |-> d, res |-> r]        *)
(* tumble cfg = [op |-> "tumble", col |-> c, len |-> n, off |-> o]         *)
(* range  cfg = [op |-> "range", start |-> a, end |-> b]    (no input)     *)
(* poll   cfg = [op |-> "poll", rounds |-> <<snapshot_1, ...>>] (no input) *)
(***************************************************************************)
EXTENDS Changelog

RoundDown(t, r) == (t \div r) * r          \* floor: "rounded down to the resolution"

(* ---- max_diff_watermark: st = [max |-> largest rounded time seen, cur |-> current watermark] ---- *)
MdwInit == [max |-> 0, cur |-> 0]
MdwStep(cfg, st, msg) ==
  IF IsWm(msg) THEN [st |-> st, out |-> <<>>]                         \* source watermarks are not forwarded
  ELSE LET tv  == msg.v[cfg.col].ts
           rec == IF tv > st.cur THEN <<Rec(msg.v, msg.r, tv)>> ELSE <<>>       \* dropped iff at or below the current watermark
           rd  == RoundDown(tv, cfg.res)
       IN IF rd > st.max THEN [st |-> [max |-> rd, cur |-> rd - cfg.maxdiff], out |-> rec \o <<Wm(rd - cfg.maxdiff)>>]
          ELSE [st |-> st, out |-> rec]

(* ---- tumble ---- *)
WinStart(tv, len, off) == ((tv - off) \div len) * len + off
TumbleStep(cfg, st, msg) ==
  IF IsWm(msg) THEN [st |-> st, out |-> <<msg>>]
  ELSE LET tv == msg.v[cfg.col].ts
           ws == WinStart(tv, cfg.len, cfg.off)
       IN [st |-> st, out |-> <<Rec(msg.v \o <<TimeV(ws), TimeV(ws + cfg.len)>>, msg.r, msg.t)>>]

(* the three clauses of the statement, on an emitted row (independent of WinStart) *)
TumbleRowOk(cfg, inRec, outRec) ==
  LET n  == Len(inRec.v)
      tv == inRec.v[cfg.col].ts
      ws == outRec.v[n + 1].ts
      we == outRec.v[n + 2].ts
  IN /\ Len(outRec.v) = n + 2 /\ SubSeq(outRec.v, 1, n) = inRec.v /\ outRec.r = inRec.r /\ outRec.t = inRec.t
     /\ ws <= tv /\ tv < we /\ we - ws = cfg.len /\ (ws - cfg.off) % cfg.len = 0

(* ---- range ---- *)
RangeOut(cfg) == IF cfg.end > cfg.start THEN [i \in 1..(cfg.end - cfg.start) |-> Rec(<<IntV(cfg.start + i - 1)>>, FALSE, 0)] ELSE <<>>

(* ---- poll: round k = retract snapshot k-1 (stamped k-1), emit snapshot k (stamped k), then watermark k ---- *)
PollRow(k, row) == <<TimeV(k)>> \o row
RECURSIVE PollOut(_, _)
PollOut(cfg, k) ==
  IF k = 0 THEN <<>>
  ELSE PollOut(cfg, k - 1)
       \o (IF k > 1 THEN [i \in 1..Len(cfg.rounds[k - 1]) |-> Rec(PollRow(k - 1, cfg.rounds[k - 1][i]), TRUE, k - 1)] ELSE <<>>)
       \o [i \in 1..Len(cfg.rounds[k]) |-> Rec(PollRow(k, cfg.rounds[k][i]), FALSE, k)]
       \o <<Wm(k)>>
(* what the harness observes: rounds 1..n complete, then round n+1 opens with the retraction of snapshot n and the scripted
   source stops the (otherwise endless) node by returning an error *)
PollObserved(cfg) == LET n == Len(cfg.rounds) IN
  PollOut(cfg, n) \o [i \in 1..Len(cfg.rounds[n]) |-> Rec(PollRow(n, cfg.rounds[n][i]), TRUE, n)]
=============================================================================
