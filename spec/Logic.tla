--------------------------------- MODULE Logic ---------------------------------
(***************************************************************************)
(* C11 — three-valued logic and NULL propagation.                          *)
(*                                                                         *)
(* Truth values "T", "F", "N" (NULL).  Boolean expression trees over the *)
(* boolean columns a, b, the comparisons p < q, p <= q, p = q of integer   *)
(* columns and the constants TRUE, FALSE, NULL with NOT, IS NULL,          *)
(* IS NOT NULL, AND, OR, = .  Eval is Kleene logic; = is strict (NULL if   *)
(* an operand is NULL); IS [NOT] NULL is never NULL.  Render gives the SQL *)
(* text of a tree (fully parenthesised).  WHERE keeps exactly the rows     *)
(* whose predicate is "T".                                                 *)
(***************************************************************************)
EXTENDS Integers, Sequences, FiniteSets, TLC

TV == <<"T", "F", "N">>
Not3(x)    == CASE x = "T" -> "F" [] x = "F" -> "T" [] OTHER -> "N"
And3(x, y) == IF x = "F" \/ y = "F" THEN "F" ELSE IF x = "N" \/ y = "N" THEN "N" ELSE "T"
Or3(x, y)  == IF x = "T" \/ y = "T" THEN "T" ELSE IF x = "N" \/ y = "N" THEN "N" ELSE "F"
Eq3(x, y)  == IF x = "N" \/ y = "N" THEN "N" ELSE IF x = y THEN "T" ELSE "F"
IsNull3(x) == IF x = "N" THEN "T" ELSE "F"

(* textbook Kleene strong logic: the order F < N < T, AND = min, OR = max, NOT reverses it *)
Rank(x) == CASE x = "F" -> 0 [] x = "N" -> 1 [] x = "T" -> 2
OfRank(n) == CASE n = 0 -> "F" [] n = 1 -> "N" [] n = 2 -> "T"
Min(a, b) == IF a < b THEN a ELSE b
Max(a, b) == IF a > b THEN a ELSE b
KleeneLaws ==
  LET S == {"T", "F", "N"} IN
  /\ \A x, y \in S : And3(x, y) = OfRank(Min(Rank(x), Rank(y))) /\ Or3(x, y) = OfRank(Max(Rank(x), Rank(y)))
  /\ \A x \in S : Not3(x) = OfRank(2 - Rank(x)) /\ Not3(Not3(x)) = x
  /\ \A x, y \in S : Not3(And3(x, y)) = Or3(Not3(x), Not3(y)) /\ Not3(Or3(x, y)) = And3(Not3(x), Not3(y))
  /\ \A x, y, z \in S : And3(x, And3(y, z)) = And3(And3(x, y), z) /\ Or3(x, Or3(y, z)) = Or3(Or3(x, y), z)
  /\ \A x, y, z \in S : And3(x, Or3(y, z)) = Or3(And3(x, y), And3(x, z))

Col(c)   == [e |-> "col", c |-> c]
Const(v) == [e |-> "const", v |-> v]
Un(op, x) == [e |-> op, x |-> x]
Bin(op, x, y) == [e |-> op, x |-> x, y |-> y]

(* integer columns p, q take the values 1, 2 or NULL (written 0 here); comparisons on them are strict (NULL if an operand is NULL) *)
Cmp(op) == [e |-> "cmp", op |-> op]
CmpOps == {"<", "<=", "="}
Leaves == {Col("a"), Col("b"), Const("T"), Const("F"), Const("N")} \cup {Cmp(op) : op \in CmpOps}
UnOps  == {"not", "isnull", "isnotnull"}
BinOps == {"and", "or", "eq"}
RECURSIVE Trees(_)
Trees(d) == IF d = 0 THEN Leaves
            ELSE LET S == Trees(d - 1) IN
                 S \cup {Un(op, x) : op \in UnOps, x \in S} \cup {Bin(op, x, y) : op \in BinOps, x \in S, y \in S}

RECURSIVE Eval(_, _)
Eval(t, env) ==
  CASE t.e = "col"   -> env[t.c]
    [] t.e = "const" -> t.v
    [] t.e = "cmp"   -> IF env.p = 0 \/ env.q = 0 THEN "N"
                        ELSE IF (CASE t.op = "<" -> env.p < env.q [] t.op = "<=" -> env.p <= env.q [] OTHER -> env.p = env.q) THEN "T" ELSE "F"
    [] t.e = "not"   -> Not3(Eval(t.x, env))
    [] t.e = "isnull" -> IsNull3(Eval(t.x, env))
    [] t.e = "isnotnull" -> Not3(IsNull3(Eval(t.x, env)))
    [] t.e = "and"   -> And3(Eval(t.x, env), Eval(t.y, env))
    [] t.e = "or"    -> Or3(Eval(t.x, env), Eval(t.y, env))
    [] t.e = "eq"    -> Eq3(Eval(t.x, env), Eval(t.y, env))

RECURSIVE Render(_)
Render(t) ==
  CASE t.e = "col"   -> t.c
    [] t.e = "const" -> (CASE t.v = "T" -> "TRUE" [] t.v = "F" -> "FALSE" [] OTHER -> "NULL")
    [] t.e = "cmp"   -> "(p " \o t.op \o " q)"
    [] t.e = "not"   -> "(NOT " \o Render(t.x) \o ")"
    [] t.e = "isnull" -> "(" \o Render(t.x) \o " IS NULL)"
    [] t.e = "isnotnull" -> "(" \o Render(t.x) \o " IS NOT NULL)"
    [] t.e = "and"   -> "(" \o Render(t.x) \o " AND " \o Render(t.y) \o ")"
    [] t.e = "or"    -> "(" \o Render(t.x) \o " OR " \o Render(t.y) \o ")"
    [] t.e = "eq"    -> "(" \o Render(t.x) \o " = " \o Render(t.y) \o ")"

(* environments in a fixed order: (a, b) over truth values, (p, q) over integer values; first with NULLs allowed
   (nullable columns), then without (non-nullable columns) *)
EnvSeq(bs, is) == LET nb == Len(bs) ni == Len(is) IN
  [i \in 1..(nb * nb * ni * ni) |->
     [a |-> bs[((i - 1) \div (nb * ni * ni)) + 1],
      b |-> bs[(((i - 1) \div (ni * ni)) % nb) + 1],
      p |-> is[(((i - 1) \div ni) % ni) + 1],
      q |-> is[((i - 1) % ni) + 1]]]
EnvsNullable == EnvSeq(TV, <<1, 2, 0>>)          \* integer 0 stands for NULL
EnvsNonNull  == EnvSeq(<<"T", "F">>, <<1, 2>>)
Vector(t, envs) == [i \in 1..Len(envs) |-> Eval(t, envs[i])]
(* WHERE t keeps exactly the rows (by index) whose predicate is TRUE *)
Kept(t, envs) == {i \in 1..Len(envs) : Eval(t, envs[i]) = "T"}
=============================================================================
