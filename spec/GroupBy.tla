------------------------------- MODULE GroupBy -------------------------------
(***************************************************************************)
(* C16 / C17 (node level) / C03 / C15 / C18 for GROUP BY.                  *)
(*                                                                         *)
(* cfg == [op |-> "gb", keys |-> <<column indices (1-based)>>,             *)
(*         aggs |-> << [k |-> "count"|"sum"|"min"|"max", c |-> column] >>, *)
(*         ktidx |-> 0 | index into the key of the event-time key column,  *)
(*         trig |-> trigger configuration (Triggers.tla),                  *)
(*         simple |-> BOOLEAN ]   (simple = SimpleGroupBy, hash map, EOS)  *)
(*                                                                         *)
(* Layer P (GbBatch): one row per key present in the consolidated input:   *)
(* key values followed by each aggregate over the group's non-NULL inputs, *)
(* NULL when there is none.                                                *)
(* Layer I (GbStep): execution/nodes/custom_trigger_group_by.go with the   *)
(* EventTimeBuffer in front, and simple_group_by.go.                       *)
(***************************************************************************)
EXTENDS Triggers

Proj(row, cols) == [i \in 1..Len(cols) |-> row[cols[i]]]

(* ---------- aggregate of a bag of (non-NULL) values ---------- *)
RECURSIVE SumBag(_, _)
SumBag(b, D) == IF D = {} THEN 0 ELSE LET x == CHOOSE y \in D : TRUE IN x.i * b[x] + SumBag(b, D \ {x})
CountBag(b)  == BagSize(b)
AggVal(kind, b) ==       \* b: bag of IntV values, all multiplicities > 0
  IF DOMAIN b = {} THEN NullV
  ELSE CASE kind = "count" -> IntV(CountBag(b))
         [] kind = "sum"   -> IntV(SumBag(b, DOMAIN b))
         [] kind = "min"   -> CHOOSE x \in DOMAIN b : \A y \in DOMAIN b : x.i <= y.i
         [] kind = "max"   -> CHOOSE x \in DOMAIN b : \A y \in DOMAIN b : x.i >= y.i

(* ---------- Layer P ---------- *)
KeysOfBag(cfg, inBag) == {Proj(row, cfg.keys) : row \in {r \in DOMAIN inBag : inBag[r] > 0}}
GroupVals(cfg, inBag, key, a) ==      \* bag of the non-NULL inputs of aggregate a in the group of key
  LET rows == {r \in DOMAIN inBag : inBag[r] > 0 /\ Proj(r, cfg.keys) = key /\ ~IsNullV(r[cfg.aggs[a].c])}
      vals == {r[cfg.aggs[a].c] : r \in rows}
  IN [v \in vals |-> LET RECURSIVE S(_) S(R) == IF R = {} THEN 0 ELSE LET r == CHOOSE y \in R : TRUE IN inBag[r] + S(R \ {r})
                     IN S({r \in rows : r[cfg.aggs[a].c] = v})]
GbRow(cfg, inBag, key) == key \o [a \in 1..Len(cfg.aggs) |-> AggVal(cfg.aggs[a].k, GroupVals(cfg, inBag, key, a))]
GbBatch(cfg, inBag) == [row \in {GbRow(cfg, inBag, key) : key \in KeysOfBag(cfg, inBag)} |-> 1]

(* ---------- Layer I ---------- *)
(* group == [n |-> overall record count, bags |-> <<bag of non-NULL inputs per aggregate>>] *)
GbInit(cfg) == [buf |-> <<>>, groups |-> <<>>, prev |-> <<>>, trig |-> TrInit(cfg.trig)]

NewGroup(cfg) == [n |-> 0, bags |-> [a \in 1..Len(cfg.aggs) |-> <<>>]]
GroupRow(cfg, key, g) == key \o [a \in 1..Len(cfg.aggs) |-> AggVal(cfg.aggs[a].k, Norm(g.bags[a]))]

UpdGroup(cfg, g, rec) ==
  [n |-> g.n + Sgn(rec),
   bags |-> [a \in 1..Len(cfg.aggs) |-> LET x == rec.v[cfg.aggs[a].c] IN
                                         IF IsNullV(x) THEN g.bags[a] ELSE BagPut(g.bags[a], x, Sgn(rec))]]

(* one iteration of trigger() for one polled key *)
FireKey(cfg, st, key, cur) ==
  LET exists == key \in DOMAIN st.groups
      row    == IF exists THEN GroupRow(cfg, key, st.groups[key]) ELSE <<>>
      t0     == IF exists /\ cfg.ktidx # 0 /\ cur > key[cfg.ktidx].ts THEN key[cfg.ktidx].ts ELSE cur
      retr   == IF key \in DOMAIN st.prev THEN <<Rec(st.prev[key], TRUE, t0)>> ELSE <<>>
      add    == IF exists THEN <<Rec(row, FALSE, t0)>> ELSE <<>>
      prev2  == IF exists THEN FnPut(st.prev, key, row) ELSE FnRemove(st.prev, key)
  IN [st |-> [st EXCEPT !.prev = prev2], out |-> retr \o add]

RECURSIVE FireKeys(_, _, _, _)
FireKeys(cfg, st, keys, cur) ==
  IF keys = <<>> THEN [st |-> st, out |-> <<>>]
  ELSE LET a == FireKey(cfg, st, Head(keys), cur)
           b == FireKeys(cfg, a.st, Tail(keys), cur)
       IN [st |-> b.st, out |-> a.out \o b.out]

Fire(cfg, st, cur) == LET p == TrPoll(cfg.trig, st.trig) IN FireKeys(cfg, [st EXCEPT !.trig = p.s], p.out, cur)

(* the produce callback of CustomTriggerGroupBy.Run for one record released by the buffer *)
Process(cfg, st, rec) ==
  LET key == Proj(rec.v, cfg.keys)
      g   == IF key \in DOMAIN st.groups THEN st.groups[key] ELSE NewGroup(cfg)
      g2  == UpdGroup(cfg, g, rec)
      gs2 == IF g2.n = 0 THEN FnRemove(st.groups, key) ELSE FnPut(st.groups, key, g2)
      st2 == [st EXCEPT !.groups = gs2, !.trig = TrKey(cfg.trig, st.trig, key)]
  IN Fire(cfg, st2, rec.t)

RECURSIVE ProcessAll(_, _, _)
ProcessAll(cfg, st, recs) ==
  IF recs = <<>> THEN [st |-> st, out |-> <<>>]
  ELSE LET a == Process(cfg, st, Head(recs))
           b == ProcessAll(cfg, a.st, Tail(recs))
       IN [st |-> b.st, out |-> a.out \o b.out]

GbStepCustom(cfg, st, msg) ==
  IF IsRec(msg) THEN
    IF msg.t = 0 THEN Process(cfg, st, msg)
    ELSE [st |-> [st EXCEPT !.buf = Append(@, msg)], out |-> <<>>]
  ELSE LET a == ProcessAll(cfg, [st EXCEPT !.buf = KeepAbove(st.buf, msg.w)], ReleaseUpTo(st.buf, msg.w))
           b == Fire(cfg, [a.st EXCEPT !.trig = TrWm(cfg.trig, a.st.trig, msg.w)], msg.w)
       IN [st |-> b.st, out |-> a.out \o b.out \o <<Wm(msg.w)>>]

GbEosCustom(cfg, st) ==
  LET a == ProcessAll(cfg, [st EXCEPT !.buf = <<>>], ReleaseUpTo(st.buf, MaxTs))
      b == Fire(cfg, [a.st EXCEPT !.trig = TrEos(cfg.trig, a.st.trig)], MaxTs)
  IN [st |-> b.st, out |-> a.out \o b.out]

(* SimpleGroupBy: no buffer, no trigger, watermarks forwarded at once, everything emitted at the end with no time *)
GbStepSimple(cfg, st, msg) ==
  IF IsRec(msg) THEN
    LET key == Proj(msg.v, cfg.keys)
        g   == IF key \in DOMAIN st.groups THEN st.groups[key] ELSE NewGroup(cfg)
        g2  == UpdGroup(cfg, g, msg)
    IN [st |-> [st EXCEPT !.groups = IF g2.n = 0 THEN FnRemove(@, key) ELSE FnPut(@, key, g2)], out |-> <<>>]
  ELSE [st |-> st, out |-> <<msg>>]
GbEosSimple(cfg, st) ==
  [st |-> st, out |-> [i \in 1..Cardinality(DOMAIN st.groups) |->
                         LET key == SeqOf(DOMAIN st.groups)[i] IN Rec(GroupRow(cfg, key, st.groups[key]), FALSE, 0)]]

GbStep(cfg, st, msg) == IF cfg.simple THEN GbStepSimple(cfg, st, msg) ELSE GbStepCustom(cfg, st, msg)
GbEos(cfg, st)       == IF cfg.simple THEN GbEosSimple(cfg, st) ELSE GbEosCustom(cfg, st)

(* ---------- Layer P, C17 at node level ---------- *)
HasKind(cfg, kind) == \E i \in 1..Len(cfg.trig) : cfg.trig[i].k = kind
RowsOfKey(cfg, outBag, key) == [row \in {r \in DOMAIN outBag : SubSeq(r, 1, Len(cfg.keys)) = key} |-> outBag[row]]

(* the records the group-by has processed when it forwards watermark w: zero-time ones and those at or below w *)
ProcessedBag(ins, w) == ConsUpTo(ins, w)

(* ON WATERMARK: when w is forwarded, every key with time <= w shows exactly its current result; without a
   COUNTING trigger no key beyond w has been emitted *)
C17Watermark(cfg, ins, outs, w) ==
  LET pb == ProcessedBag(ins, w)
      ob == Consol(outs)
      want == GbBatch(cfg, pb)
  IN /\ \A key \in KeysOfBag(cfg, pb) \cup {SubSeq(r, 1, Len(cfg.keys)) : r \in DOMAIN ob} :
          key[cfg.ktidx].ts <= w => Norm(RowsOfKey(cfg, ob, key)) = Norm(RowsOfKey(cfg, want, key))
     /\ ~HasKind(cfg, "count") => \A r \in DOMAIN ob : r[cfg.ktidx].ts <= w

(* COUNTING n alone, zero-time records: the step of the n-th, 2n-th ... record of a key emits that key's current
   result, and no other step emits anything *)
C17Counting(cfg, ins, outs, stepOut) ==
  LET m    == ins[Len(ins)]
      key  == Proj(m.v, cfg.keys)
      nkey == Cardinality({i \in 1..Len(ins) : IsRec(ins[i]) /\ Proj(ins[i].v, cfg.keys) = key})
      n    == cfg.trig[1].n
  IN IF nkey % n = 0
     THEN Norm(RowsOfKey(cfg, Consol(outs), key)) = Norm(RowsOfKey(cfg, GbBatch(cfg, Consol(ins)), key))
     ELSE stepOut = <<>>
=============================================================================
