--------------------------- MODULE AggregatesTrace ---------------------------
(***************************************************************************)
(* Trace validation for C14: events recorded from the real aggregates.     *)
(*   {"ev":"new","kind":k,"vk":"int"|"float"|"dur"}                        *)
(*   {"ev":"add","r":bool,"v":atom,"out":O}                                *)
(* O = {"none":true} (bag empty, Trigger not called), {"i":n} for Int and  *)
(* Duration results (atoms), {"fx":n} for Float results (value * 10^4,     *)
(* rounded), {"l":[atoms]} for lists.  Layer P is checked in every state:  *)
(* the logged output equals AggOf(kind, bag) for the bag rebuilt from the  *)
(* logged inputs (floats within 1e-4, as the statement allows rounding).   *)
(***************************************************************************)
EXTENDS Aggregates

Trace == ndJsonDeserialize("agg_trace.ndjson")

VARIABLES l, kind, vk, bad          \* plus hist, bag, impl of Aggregates (bag is rebuilt from the logged inputs)
tvars == <<l, kind, vk, bad, hist, bag, impl>>

Abs(x) == IF x < 0 THEN -x ELSE x

(* does the logged output o agree with the expected result e (an AggOf value or None)? *)
Agrees(o, e, valueKind, k) ==
  IF e = None THEN "none" \in DOMAIN o
  ELSE IF "l" \in DOMAIN e THEN "l" \in DOMAIN o /\ o.l = e.l
  ELSE IF valueKind = "float" /\ BaseOf(k) # "count"
       THEN "fx" \in DOMAIN o /\ Abs(o.fx * 4 * e.d - e.n * 10000) <= 4 * e.d
       ELSE "i" \in DOMAIN o /\ o.i = e.tr        \* Int / Duration: integer result, AVG truncates toward zero

TInit == l = 1 /\ kind = "count" /\ vk = "int" /\ bad = 0 /\ Init

TNew == /\ l <= Len(Trace) /\ Trace[l].ev = "new"
        /\ kind' = Trace[l].kind /\ vk' = Trace[l].vk
        /\ bag' = Bag0 /\ impl' = [k \in Kinds |-> IInit(k)]
        /\ l' = l + 1 /\ UNCHANGED <<bad, hist>>

TAdd == /\ l <= Len(Trace) /\ Trace[l].ev = "add"
        /\ LET e  == Trace[l]
               b2 == BagAdd(bag, e.r, e.v) IN
           /\ bag' = b2
           /\ impl' = [k \in Kinds |-> IAdd(k, impl[k], e.r, e.v)]     \* Layer I runs alongside (Refines is checked too)
           /\ bad' = IF bad = 0 /\ ~Agrees(e.out, Expected(kind, b2), vk, kind) THEN l ELSE bad
        /\ l' = l + 1 /\ UNCHANGED <<kind, vk, hist>>

TNext == TNew \/ TAdd
TSpec == TInit /\ [][TNext]_tvars

LayerP == bad = 0                       \* C14 on the observed execution
ValidInput == \A v \in Dom : bag[v] >= 0   \* the driver must only produce valid histories (else: machinery)
TraceAccepted == TLCGet("stats").diameter - 1 = Len(Trace)
=============================================================================
