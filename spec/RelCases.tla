-------------------------------- MODULE RelCases --------------------------------
(* exports (query, database, expected result) cases for C01 (single source), C02 (joins), C03 (group by); C04 and C05 reuse them *)
EXTENDS Relational, SequencesExt, Randomization

CONSTANTS Family, N      \* Family in {"single", "join", "group"}; N = number of sampled cases (TLC -seed)

Pick(S) == RandomElement(S)
PickSeq(S, maxLen) == LET n == RandomElement(0..maxLen) IN [i \in 1..n |-> RandomElement(S)]

(* ---- tables ---- *)
TRows == {[a |-> a, b |-> b, c |-> c] : a \in {NullV, IntV(0), IntV(1)}, b \in {NullV, StrV("x"), StrV("y")}, c \in {IntV(1), IntV(2)}}
LRows == {[k |-> k, x |-> x] : k \in {NullV, IntV(0), IntV(1)}, x \in {StrV("p"), StrV("q")}}
RRows == {[k |-> k, y |-> y] : k \in {NullV, IntV(0), IntV(1)}, y \in {StrV("u"), StrV("v")}}
GRows == {[k |-> k, j |-> j, v |-> v] : k \in {NullV, IntV(0), IntV(1)}, j \in {StrV("x"), StrV("y")}, v \in {NullV, IntV(0), IntV(2), IntV(-2), IntV(-3), IntV(5)}}
MkDB(i) == [t |-> [cols |-> <<"a", "b", "c">>, rows |-> PickSeq(TRows, 4)],
         l |-> [cols |-> <<"k", "x">>, rows |-> PickSeq(LRows, 3)],
         r |-> [cols |-> <<"k", "y">>, rows |-> PickSeq(RRows, 3)],
         g |-> [cols |-> <<"k", "j", "v">>, rows |-> PickSeq(GRows, 5)]]

(* few groups, many repeats: counts keep changing, so rows leave and re-enter the top n of a nested ORDER BY ... LIMIT *)
GRowsNarrow == {[k |-> k, j |-> StrV("x"), v |-> v] : k \in {NullV, IntV(0), IntV(1)}, v \in {IntV(2), IntV(-2), NullV}}
MkDBFor(i) == IF Family = "grouplimit" THEN [MkDB(i) EXCEPT !.g.rows = PickSeq(GRowsNarrow, 9)] ELSE MkDB(i)

(* ---- single-source queries over t (or over a subquery / WITH producing columns a, b, c) ---- *)
A == Col("", "a")  B == Col("", "b")  Cc == Col("", "c")
Wheres == {None, Bin("=", A, IntE(1)), Un("isnull", A), Bin("or", Bin("=", A, IntE(0)), Bin("=", B, StrE("x"))), Un("not", Bin("=", A, IntE(1))),
           Bin("<", A, Cc), Bin("and", Un("isnotnull", B), Bin("=", Cc, IntE(1))), Bin(">", Bin("+", A, Cc), IntE(1)), Bin("<=", B, StrE("x")),
           Un("not", Bin("and", Bin("=", A, IntE(1)), Bin("=", B, StrE("x")))), Un("not", Bin("or", Bin("=", B, StrE("x")), Bin("=", A, IntE(1))))}
P(e, as) == [e |-> e, as |-> as]
Projs == {<<P(A, "a"), P(B, "b"), P(Cc, "c")>>, <<P(Bin("+", A, Cc), "s")>>, <<P(B, "b")>>, <<P(Bin("*", Cc, IntE(2)), "d"), P(A, "a")>>,
          <<P(Un("isnull", A), "n"), P(B, "b")>>, <<P(Un("neg", A), "m"), P(Cc, "c")>>, <<P(IntE(7), "k"), P(B, "b")>>,
          <<P(Bin("and", Bin("=", A, IntE(1)), Bin("=", B, StrE("x"))), "p"), P(Bin("or", Bin("=", A, IntE(1)), Bin("=", B, StrE("x"))), "o")>>}
O(e, d) == [e |-> e, dir |-> d]
OrdersFor(proj) == LET c1 == Col("", proj[1].as)
                       allAsc == [i \in 1..Len(proj) |-> O(Col("", proj[i].as), "asc")] IN
                   {<<>>, <<O(c1, "asc")>>, <<O(c1, "desc")>>, allAsc, [i \in 1..Len(proj) |-> O(Col("", proj[i].as), IF i = 1 THEN "desc" ELSE "asc")]}
Base == [k |-> "table", name |-> "t", as |-> "t"]
Sel(from, where, proj, distinct, order, limit) == [k |-> "select", from |-> from, where |-> where, proj |-> proj, distinct |-> distinct, order |-> order, limit |-> limit]
Ident == <<P(A, "a"), P(B, "b"), P(Cc, "c")>>
Inner == {Sel(Base, None, Ident, FALSE, <<>>, -1),
          Sel(Base, Un("isnotnull", A), Ident, FALSE, <<>>, -1),
          Sel(Base, None, Ident, TRUE, <<>>, -1),
          Sel(Base, None, Ident, FALSE, <<O(Col("", "c"), "desc"), O(Col("", "a"), "asc"), O(Col("", "b"), "asc")>>, 2),
          Sel(Base, None, <<P(Bin("+", A, IntE(1)), "a"), P(B, "b"), P(Cc, "c")>>, FALSE, <<>>, -1)}
Froms == {Base} \cup {[k |-> "sub", q |-> i, as |-> "q"] : i \in Inner} \cup {[k |-> "with", q |-> i, as |-> "w"] : i \in Inner}
MkSingle(i) == LET p == Pick(Projs) IN Sel(Pick(Froms), Pick(Wheres), p, Pick(BOOLEAN), Pick(OrdersFor(p)), Pick({-1, -1, 0, 1, 2, 3}))

(* ---- joins (C02) ---- *)
LK == Col("l", "k")  RK == Col("r", "k")
Ons == {Bin("=", LK, RK), Bin("and", Bin("=", LK, RK), Bin("=", Col("l", "x"), StrE("p"))), Bin("and", Bin("=", LK, RK), Bin("<=", Col("r", "y"), StrE("u"))),
        Bin("=", Bin("+", LK, IntE(1)), RK), Bin("=", RK, LK)}
JoinFrom(kind, on) == [k |-> "join", kind |-> kind, l |-> [k |-> "table", name |-> "l", as |-> "l"], r |-> [k |-> "table", name |-> "r", as |-> "r"], on |-> on]
JProj == <<P(LK, "lk"), P(Col("l", "x"), "x"), P(RK, "rk"), P(Col("r", "y"), "y")>>
JWheres == {None, None, Un("isnotnull", Col("l", "x")), Bin("=", Col("r", "y"), StrE("u")), Bin("or", Un("isnull", RK), Bin("=", LK, IntE(1)))}
(* OctoSQL's outer joins accept only conjunctions of equalities between the two sides in ON *)
OuterOns == {Bin("=", LK, RK), Bin("=", Bin("+", LK, IntE(1)), RK), Bin("=", RK, LK), Bin("and", Bin("=", LK, RK), Bin("=", Col("l", "x"), Col("r", "y")))}
MkJoin(i) == LET kind == Pick({"inner", "inner", "left", "right", "outer", "lookup"}) IN
          Sel(JoinFrom(kind, IF kind \in {"left", "right", "outer"} THEN Pick(OuterOns) ELSE Pick(Ons)), Pick(JWheres), JProj, FALSE, <<>>, -1)

(* ---- group by (C03) ---- *)
GK == Col("", "k")  GJ == Col("", "j")  GV == Col("", "v")
Ag(fn, e, as, d, star) == [fn |-> fn, e |-> e, as |-> as, distinct |-> d, star |-> star]
AggSet == {Ag("count", GV, "c", FALSE, TRUE), Ag("count", GV, "cv", FALSE, FALSE), Ag("sum", GV, "s", FALSE, FALSE), Ag("avg", GV, "av", FALSE, FALSE),
           Ag("min", GV, "mi", FALSE, FALSE), Ag("max", GV, "ma", FALSE, FALSE), Ag("array_agg", GV, "ar", FALSE, FALSE),
           Ag("count", GV, "cd", TRUE, FALSE), Ag("sum", GV, "sd", TRUE, FALSE), Ag("avg", GV, "ad", TRUE, FALSE), Ag("array_agg", GV, "ard", TRUE, FALSE),
           Ag("sum", Bin("+", GV, IntE(1)), "s1", FALSE, FALSE)}
KeySets == {<<P(GK, "k")>>, <<P(GJ, "j")>>, <<P(GK, "k"), P(GJ, "j")>>, <<P(Bin("+", GK, IntE(1)), "k1")>>, <<>>}
GFrom == [k |-> "table", name |-> "g", as |-> "g"]
GWheres == {None, None, Un("isnotnull", GV), Bin("=", GJ, StrE("x"))}
(* the source may itself be a grouping with a custom trigger: its output stream contains retractions, its meaning is the same *)
InnerGroup(trig) == [k |-> "group", from |-> GFrom, where |-> None, keys |-> <<P(GK, "k"), P(GJ, "j")>>,
                     aggs |-> <<Ag("max", GV, "v", FALSE, FALSE)>>, distinct |-> FALSE, order |-> <<>>, limit |-> -1, trig |-> trig]
GFroms == {GFrom, GFrom, [k |-> "sub", q |-> InnerGroup("COUNTING 1"), as |-> "g"], [k |-> "sub", q |-> InnerGroup("COUNTING 2, ON END OF STREAM"), as |-> "g"]}
MkGroup(i) == LET a1 == Pick(AggSet) a2 == Pick(AggSet \ {a1}) a3 == Pick(AggSet \ {a1, a2}) IN
           [k |-> "group", from |-> Pick(GFroms), where |-> Pick(GWheres), keys |-> Pick(KeySets), aggs |-> <<a1, a2, a3>>, distinct |-> FALSE, order |-> <<>>, limit |-> -1,
            trig |-> Pick({"", "", "COUNTING 1", "COUNTING 3"})]

(* ---- shapes aimed at the optimiser's rewrites (C04) ---- *)
(* (a) unused aggregates / keys of a grouping subquery, (b) constant and one-sided predicates above a join, (c) filter above filter,
   (d) join whose inputs are filtered subqueries with unused columns *)
GSub == [k |-> "sub", q |-> [k |-> "group", from |-> GFrom, where |-> None, keys |-> <<P(GK, "k")>>,
                             aggs |-> <<Ag("count", GV, "c", FALSE, TRUE), Ag("sum", GV, "s", FALSE, FALSE), Ag("max", GV, "m", FALSE, FALSE), Ag("avg", GV, "av", FALSE, FALSE)>>,
                             distinct |-> FALSE, order |-> <<>>, limit |-> -1, trig |-> ""], as |-> "q"]
OptProjs == {<<P(Col("q", "k"), "k"), P(Col("q", "s"), "s")>>, <<P(Col("q", "s"), "s")>>, <<P(Col("q", "m"), "m"), P(Col("q", "c"), "c")>>, <<P(Col("q", "av"), "av")>>,
             <<P(Col("q", "k"), "k")>>}
OptWheres == {None, Bin(">", Col("q", "c"), IntE(1)), Un("isnotnull", Col("q", "m")), Bin("=", IntE(1), IntE(0))}
MkOptGroup(i) == Sel(GSub, Pick(OptWheres), Pick(OptProjs), Pick(BOOLEAN), <<>>, -1)
OptJWheres == {Bin("=", IntE(1), IntE(0)), Bin("=", IntE(1), IntE(1)), Bin("and", Bin("=", Col("l", "x"), StrE("p")), Bin("=", Col("r", "y"), StrE("u"))),
               Bin("and", Bin("=", LK, RK), Un("isnotnull", Col("l", "x"))), Bin("or", Bin("=", Col("l", "x"), StrE("p")), Bin("=", Col("r", "y"), StrE("u"))),
               Bin("and", Bin("<", LK, IntE(1)), Bin("=", IntE(2), IntE(2)))}
OptJProjs == {JProj, <<P(Col("l", "x"), "x")>>, <<P(RK, "rk"), P(Col("l", "x"), "x")>>, <<P(Col("r", "y"), "y")>>}
LSub == [k |-> "sub", q |-> Sel([k |-> "table", name |-> "l", as |-> "l"], Un("isnotnull", Col("", "x")), <<P(Col("", "k"), "k"), P(Col("", "x"), "x"), P(Bin("+", Col("", "k"), IntE(1)), "k1")>>, FALSE, <<>>, -1), as |-> "l"]
OptJFrom(kind, on) == [k |-> "join", kind |-> kind, l |-> Pick({[k |-> "table", name |-> "l", as |-> "l"], LSub}), r |-> [k |-> "table", name |-> "r", as |-> "r"], on |-> on]
MkOptJoin(i) == LET kind == Pick({"inner", "inner", "lookup", "left"}) IN
             Sel(OptJFrom(kind, IF kind = "left" THEN Pick(OuterOns) ELSE Pick(Ons \cup {Bin("<", LK, RK)})), Pick(OptJWheres), Pick(OptJProjs), Pick(BOOLEAN), <<>>, -1)
MkOptNested(i) == LET inner == Sel(Base, Pick(Wheres), Ident, FALSE, <<>>, -1) IN
               Sel([k |-> "sub", q |-> Sel([k |-> "sub", q |-> inner, as |-> "q"], Pick(Wheres), Ident, FALSE, <<>>, -1), as |-> "z"], Pick(Wheres), Pick(Projs), FALSE, <<>>, -1)
(* (e) DISTINCT * in a subquery (no projection node between the DISTINCT and its source) whose outer query uses some of the columns only: every
   column takes part in the DISTINCT, none may be pruned; also below a join *)
DStar(n, as) == [k |-> Pick({"dstar", "dstar", "star"}), name |-> n, as |-> as]
MkOptStar(i) == IF Pick(BOOLEAN) THEN Sel(DStar("t", "q"), Pick(Wheres), Pick(Projs), Pick(BOOLEAN), <<>>, -1)
                ELSE Sel([k |-> "join", kind |-> Pick({"inner", "lookup"}), l |-> DStar("l", "l"), r |-> DStar("r", "r"), on |-> Pick(Ons)],
                         Pick(JWheres), Pick(OptJProjs), Pick(BOOLEAN), <<>>, -1)
MkOpt(i) == LET c == Pick(1..4) IN CASE c = 1 -> MkOptGroup(i) [] c = 2 -> MkOptJoin(i) [] c = 3 -> MkOptNested(i) [] c = 4 -> MkOptStar(i)

(* ORDER BY + LIMIT inside a subquery over a grouping with a custom trigger (a retracting source): the pruning of the ORDER BY buffer must
   not lose rows that re-enter the top n later *)
MkGroupLimit(i) == LET inner == [k |-> "group", from |-> GFrom, where |-> None, keys |-> <<P(GK, "k"), P(GJ, "j")>>,
                              aggs |-> <<Ag("count", GV, "c", FALSE, TRUE), Ag("sum", GV, "s", FALSE, FALSE)>>, distinct |-> FALSE,
                              order |-> Pick({<<O(Col("", "c"), "asc"), O(Col("", "k"), "asc"), O(Col("", "j"), "asc")>>, <<O(Col("", "s"), "desc"), O(Col("", "k"), "asc"), O(Col("", "j"), "asc")>>}),
                              limit |-> Pick(1..3), trig |-> Pick({"COUNTING 1", "COUNTING 1", "COUNTING 2", ""})] IN
                Sel([k |-> "sub", q |-> inner, as |-> "q"], None, <<P(Col("q", "k"), "k"), P(Col("q", "j"), "j"), P(Col("q", "c"), "c"), P(Col("q", "s"), "s")>>, FALSE, <<>>, -1)

MkQuery(i) == CASE Family = "grouplimit" -> MkGroupLimit(i) [] Family = "single" -> MkSingle(i) [] Family = "join" -> MkJoin(i) [] Family = "group" -> MkGroup(i) [] Family = "opt" -> MkOpt(i)
\* (unused) Usable(q, DB) == ~(q.k = "group" /\ q.keys = <<>> /\ (IF IsNone(q.where) THEN DB.g.rows ELSE SelectSeq(DB.g.rows, LAMBDA r : TRUE)) = <<>>)
CaseOf(q, DB) == [sql |-> RenderQ(q), db |-> DB, groups |-> ResultGroups(q, DB), sub |-> ~LimitDetermined(q, DB),
                  n |-> Len(EvalQuery(q, DB).rel.rows), all |-> AllRows(q, DB), ordered |-> Ordered(q)]
(* ---- C05: LIMIT / ORDER BY in every output mode and nesting: an exhaustive family ---- *)
L5Rows == {[a |-> IntV(0), b |-> StrV("x"), c |-> IntV(1)], [a |-> IntV(1), b |-> StrV("x"), c |-> IntV(1)], [a |-> NullV, b |-> StrV("y"), c |-> IntV(2)]}
RECURSIVE SeqsUpTo(_, _)
SeqsUpTo(S, n) == IF n = 0 THEN {<<>>} ELSE LET Prev == SeqsUpTo(S, n - 1) IN Prev \cup {Append(s, x) : s \in {y \in Prev : Len(y) = n - 1}, x \in S}
L5Proj == <<P(A, "a"), P(Cc, "c")>>
L5Orders == {<<>>, <<O(Col("", "a"), "asc")>>, <<O(Col("", "a"), "desc")>>, <<O(Col("", "c"), "desc"), O(Col("", "a"), "asc")>>}
L5Top(ord, n) == Sel(Base, None, L5Proj, FALSE, ord, n)
L5Sub(ord, n) == Sel([k |-> "sub", q |-> L5Top(ord, n), as |-> "q"], None, <<P(Col("q", "a"), "a"), P(Col("q", "c"), "c")>>, FALSE, <<>>, -1)
L5Queries == {L5Top(o, n) : o \in L5Orders, n \in 0..4} \cup {L5Sub(o, n) : o \in L5Orders, n \in 0..4}
L5DBs == {[t |-> [cols |-> <<"a", "b", "c">>, rows |-> rs]] : rs \in SeqsUpTo(L5Rows, 4)}
L5All == {CaseOf(q, DB) : q \in L5Queries, DB \in L5DBs}

Cases == IF Family = "limit" THEN (IF N = 0 THEN L5All ELSE RandomSubset(N, L5All))
         ELSE {LET q == MkQuery(i) DB == MkDBFor(i) IN CaseOf(q, DB) : i \in 1..N}
ASSUME ndJsonSerialize("rel_cases.ndjson", SetToSeq(Cases))
VARIABLE x
Init == x = 0
Next == x' = x
=============================================================================
