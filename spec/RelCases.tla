-------------------------------- MODULE RelCases --------------------------------
(* exports (query, database, expected result) cases for C01 (single source), C02 (joins), C03 (group by); C04 and C05 reuse them *)
EXTENDS Relational, SequencesExt, Randomization

CONSTANTS Family, N      \* Family in {"single", "join", "group"}; N = number of sampled cases (TLC -seed)

Pick(S) == RandomElement(S)
PickSeq(S, maxLen) == LET n == RandomElement(0..maxLen) IN [i \in 1..n |-> RandomElement(S)]

(* ---- tables ---- *)
TRows == {[a |-> a, b |-> b, c |-> c] : a \in {NullV, IntV(0), IntV(1)}, b \in {NullV, StrV("x"), StrV("y")}, c \in {IntV(1), IntV(2)}}
LRows == {[k |-> k, x |-> x] : k \in {NullV, IntV(0), IntV(1)}, x \in {StrV("p"), StrV("q")}}
RRows == {[k |-> k, y |-> y] : k \in {NullV, IntV(0), IntV(1)}, y \in {StrV("u"), StrV("v")}}
GRows == {[k |-> k, j |-> j, v |-> v] : k \in {NullV, IntV(0), IntV(1)}, j \in {StrV("x"), StrV("y")}, v \in {NullV, IntV(2), IntV(-3), IntV(5)}}
MkDB == [t |-> [cols |-> <<"a", "b", "c">>, rows |-> PickSeq(TRows, 4)],
         l |-> [cols |-> <<"k", "x">>, rows |-> PickSeq(LRows, 3)],
         r |-> [cols |-> <<"k", "y">>, rows |-> PickSeq(RRows, 3)],
         g |-> [cols |-> <<"k", "j", "v">>, rows |-> PickSeq(GRows, 5)]]

(* ---- single-source queries over t (or over a subquery / WITH producing columns a, b, c) ---- *)
A == Col("", "a")  B == Col("", "b")  Cc == Col("", "c")
Wheres == {None, Bin("=", A, IntE(1)), Un("isnull", A), Bin("or", Bin("=", A, IntE(0)), Bin("=", B, StrE("x"))), Un("not", Bin("=", A, IntE(1))),
           Bin("<", A, Cc), Bin("and", Un("isnotnull", B), Bin("=", Cc, IntE(1))), Bin(">", Bin("+", A, Cc), IntE(1)), Bin("<=", B, StrE("x"))}
P(e, as) == [e |-> e, as |-> as]
Projs == {<<P(A, "a"), P(B, "b"), P(Cc, "c")>>, <<P(Bin("+", A, Cc), "s")>>, <<P(B, "b")>>, <<P(Bin("*", Cc, IntE(2)), "d"), P(A, "a")>>,
          <<P(Un("isnull", A), "n"), P(B, "b")>>, <<P(Un("neg", A), "m"), P(Cc, "c")>>, <<P(IntE(7), "k"), P(B, "b")>>}
O(e, d) == [e |-> e, dir |-> d]
OrdersFor(proj) == LET c1 == Col("", proj[1].as)
                       allAsc == [i \in 1..Len(proj) |-> O(Col("", proj[i].as), "asc")] IN
                   {<<>>, <<O(c1, "asc")>>, <<O(c1, "desc")>>, allAsc, [i \in 1..Len(proj) |-> O(Col("", proj[i].as), IF i = 1 THEN "desc" ELSE "asc")]}
Base == [k |-> "table", name |-> "t", as |-> "t"]
Sel(from, where, proj, distinct, order, limit) == [k |-> "select", from |-> from, where |-> where, proj |-> proj, distinct |-> distinct, order |-> order, limit |-> limit]
Ident == <<P(A, "a"), P(B, "b"), P(Cc, "c")>>
Inner == {Sel(Base, None, Ident, FALSE, <<>>, -1),
          Sel(Base, Un("isnotnull", A), Ident, FALSE, <<>>, -1),
          Sel(Base, None, Ident, TRUE, <<>>, -1),
          Sel(Base, None, Ident, FALSE, <<O(Col("", "c"), "desc"), O(Col("", "a"), "asc"), O(Col("", "b"), "asc")>>, 2),
          Sel(Base, None, <<P(Bin("+", A, IntE(1)), "a"), P(B, "b"), P(Cc, "c")>>, FALSE, <<>>, -1)}
Froms == {Base} \cup {[k |-> "sub", q |-> i, as |-> "q"] : i \in Inner} \cup {[k |-> "with", q |-> i, as |-> "w"] : i \in Inner}
MkSingle == LET p == Pick(Projs) IN Sel(Pick(Froms), Pick(Wheres), p, Pick(BOOLEAN), Pick(OrdersFor(p)), Pick({-1, -1, 0, 1, 2, 3}))

(* ---- joins (C02) ---- *)
LK == Col("l", "k")  RK == Col("r", "k")
Ons == {Bin("=", LK, RK), Bin("and", Bin("=", LK, RK), Bin("=", Col("l", "x"), StrE("p"))), Bin("and", Bin("=", LK, RK), Bin("<=", Col("r", "y"), StrE("u"))),
        Bin("=", Bin("+", LK, IntE(1)), RK), Bin("=", RK, LK)}
JoinFrom(kind, on) == [k |-> "join", kind |-> kind, l |-> [k |-> "table", name |-> "l", as |-> "l"], r |-> [k |-> "table", name |-> "r", as |-> "r"], on |-> on]
JProj == <<P(LK, "lk"), P(Col("l", "x"), "x"), P(RK, "rk"), P(Col("r", "y"), "y")>>
JWheres == {None, None, Un("isnotnull", Col("l", "x")), Bin("=", Col("r", "y"), StrE("u")), Bin("or", Un("isnull", RK), Bin("=", LK, IntE(1)))}
(* OctoSQL's outer joins accept only conjunctions of equalities between the two sides in ON *)
OuterOns == {Bin("=", LK, RK), Bin("=", Bin("+", LK, IntE(1)), RK), Bin("=", RK, LK), Bin("and", Bin("=", LK, RK), Bin("=", Col("l", "x"), Col("r", "y")))}
MkJoin == LET kind == Pick({"inner", "inner", "left", "right", "outer", "lookup"}) IN
          Sel(JoinFrom(kind, IF kind \in {"left", "right", "outer"} THEN Pick(OuterOns) ELSE Pick(Ons)), Pick(JWheres), JProj, FALSE, <<>>, -1)

(* ---- group by (C03) ---- *)
GK == Col("", "k")  GJ == Col("", "j")  GV == Col("", "v")
Ag(fn, e, as, d, star) == [fn |-> fn, e |-> e, as |-> as, distinct |-> d, star |-> star]
AggSet == {Ag("count", GV, "c", FALSE, TRUE), Ag("count", GV, "cv", FALSE, FALSE), Ag("sum", GV, "s", FALSE, FALSE), Ag("avg", GV, "av", FALSE, FALSE),
           Ag("min", GV, "mi", FALSE, FALSE), Ag("max", GV, "ma", FALSE, FALSE), Ag("array_agg", GV, "ar", FALSE, FALSE),
           Ag("count", GV, "cd", TRUE, FALSE), Ag("sum", GV, "sd", TRUE, FALSE), Ag("avg", GV, "ad", TRUE, FALSE), Ag("array_agg", GV, "ard", TRUE, FALSE),
           Ag("sum", Bin("+", GV, IntE(1)), "s1", FALSE, FALSE)}
KeySets == {<<P(GK, "k")>>, <<P(GJ, "j")>>, <<P(GK, "k"), P(GJ, "j")>>, <<P(Bin("+", GK, IntE(1)), "k1")>>, <<>>}
GFrom == [k |-> "table", name |-> "g", as |-> "g"]
GWheres == {None, None, Un("isnotnull", GV), Bin("=", GJ, StrE("x"))}
MkGroup == LET a1 == Pick(AggSet) a2 == Pick(AggSet \ {a1}) a3 == Pick(AggSet \ {a1, a2}) IN
           [k |-> "group", from |-> GFrom, where |-> Pick(GWheres), keys |-> Pick(KeySets), aggs |-> <<a1, a2, a3>>, distinct |-> FALSE, order |-> <<>>, limit |-> -1]

MkQuery == CASE Family = "single" -> MkSingle [] Family = "join" -> MkJoin [] Family = "group" -> MkGroup
Usable(q, DB) == ~(q.k = "group" /\ q.keys = <<>> /\ (IF IsNone(q.where) THEN DB.g.rows ELSE SelectSeq(DB.g.rows, LAMBDA r : TRUE)) = <<>>)
CaseOf(q, DB) == [sql |-> RenderQ(q), db |-> DB, groups |-> ResultGroups(q, DB), sub |-> ~LimitDetermined(q, DB),
                  n |-> Len(EvalQuery(q, DB).rel.rows), all |-> AllRows(q, DB), ordered |-> Ordered(q)]
Cases == {LET q == MkQuery DB == MkDB IN CaseOf(q, DB) : i \in 1..N}
ASSUME ndJsonSerialize("rel_cases.ndjson", SetToSeq(Cases))
VARIABLE x
Init == x = 0
Next == x' = x
=============================================================================
