---------------------------- MODULE JsonReader ----------------------------
(***************************************************************************)
(* C23 / C29 - datasources/json/execution.go + workers.go: one line reader  *)
(* goroutine per open file (batches of B lines, a token per batch in        *)
(* flight), a shared pool of W parser workers fed through one input         *)
(* channel, one output channel per reader, and the consumer that reorders   *)
(* batches by line number.  Readers = {1} or {1, 2} (a join of two files);  *)
(* Nested models a lookup join: consumer 1 blocks inside produce while      *)
(* reader 2 runs to completion.  AllowCancel adds the early return (LIMIT / *)
(* error) with its context cancellation.                                    *)
(* Invariants: IsPrefixOrder (rows are produced in file order), Complete    *)
(* (a finished consumer produced every line).  Liveness: Termination under  *)
(* weak fairness; deadlock checking on.                                     *)
(***************************************************************************)
EXTENDS Integers, Sequences, FiniteSets, TLC
CONSTANTS NLines, B, W, CapIn, CapOut, CapTok, Readers, AllowCancel, Nested

Workers == 1..W
VARIABLES rpc, rpos, rbatch, linesRead, tokens, inChan, outChan, doneCh,
          wjob, cstate, queue, startIndex, readerDone, produced, cancelled, nestedWait

vars == <<rpc, rpos, rbatch, linesRead, tokens, inChan, outChan, doneCh, wjob, cstate, queue, startIndex, readerDone, produced, cancelled, nestedWait>>

Init == /\ rpc = [r \in Readers |-> IF Nested /\ r = 2 THEN "notstarted" ELSE "scan"]
        /\ rpos = [r \in Readers |-> 0] /\ rbatch = [r \in Readers |-> <<>>]
        /\ linesRead = [r \in Readers |-> 0] /\ tokens = [r \in Readers |-> 0]
        /\ inChan = <<>> /\ outChan = [r \in Readers |-> <<>>] /\ doneCh = [r \in Readers |-> FALSE]
        /\ wjob = [w \in Workers |-> <<>>]
        /\ cstate = [r \in Readers |-> IF Nested /\ r = 2 THEN "notstarted" ELSE "run"]
        /\ queue = [r \in Readers |-> <<>>] /\ startIndex = [r \in Readers |-> 0]
        /\ readerDone = [r \in Readers |-> FALSE] /\ produced = [r \in Readers |-> <<>>]
        /\ cancelled = [r \in Readers |-> FALSE] /\ nestedWait = FALSE

\* ---------------- reader goroutine ----------------
Scan(r) == /\ rpc[r] = "scan"
           /\ IF rpos[r] < NLines THEN
                /\ rpos' = [rpos EXCEPT ![r] = @ + 1]
                /\ rbatch' = [rbatch EXCEPT ![r] = Append(@, rpos[r])]
                /\ rpc' = [rpc EXCEPT ![r] = IF Len(rbatch[r]) + 1 = B THEN "token" ELSE "scan"]
              ELSE /\ rpc' = [rpc EXCEPT ![r] = IF rbatch[r] # <<>> THEN "token" ELSE "senddone"]
                   /\ UNCHANGED <<rpos, rbatch>>
           /\ UNCHANGED <<linesRead, tokens, inChan, outChan, doneCh, wjob, cstate, queue, startIndex, readerDone, produced, cancelled, nestedWait>>
Token(r) == /\ rpc[r] = "token"
            /\ \/ /\ tokens[r] < CapTok /\ tokens' = [tokens EXCEPT ![r] = @ + 1] /\ rpc' = [rpc EXCEPT ![r] = "sendjob"]
               \/ /\ cancelled[r] /\ rpc' = [rpc EXCEPT ![r] = "exit"] /\ UNCHANGED tokens
            /\ UNCHANGED <<rpos, rbatch, linesRead, inChan, outChan, doneCh, wjob, cstate, queue, startIndex, readerDone, produced, cancelled, nestedWait>>
SendJob(r) == /\ rpc[r] = "sendjob" /\ Len(inChan) < CapIn
              /\ inChan' = Append(inChan, [r |-> r, lines |-> rbatch[r]])
              /\ linesRead' = [linesRead EXCEPT ![r] = @ + Len(rbatch[r])]
              /\ rbatch' = [rbatch EXCEPT ![r] = <<>>]
              /\ rpc' = [rpc EXCEPT ![r] = "scan"]
              /\ UNCHANGED <<rpos, tokens, outChan, doneCh, wjob, cstate, queue, startIndex, readerDone, produced, cancelled, nestedWait>>
SendDone(r) == /\ rpc[r] = "senddone" /\ doneCh' = [doneCh EXCEPT ![r] = TRUE] /\ rpc' = [rpc EXCEPT ![r] = "exit"]
               /\ UNCHANGED <<rpos, rbatch, linesRead, tokens, inChan, outChan, wjob, cstate, queue, startIndex, readerDone, produced, cancelled, nestedWait>>
\* ---------------- workers ----------------
Take(w) == /\ wjob[w] = <<>> /\ inChan # <<>>
           /\ wjob' = [wjob EXCEPT ![w] = <<Head(inChan)>>] /\ inChan' = Tail(inChan)
           /\ UNCHANGED <<rpc, rpos, rbatch, linesRead, tokens, outChan, doneCh, cstate, queue, startIndex, readerDone, produced, cancelled, nestedWait>>
Deliver(w) == /\ wjob[w] # <<>>
              /\ LET j == wjob[w][1] IN
                 \/ /\ Len(outChan[j.r]) < CapOut /\ outChan' = [outChan EXCEPT ![j.r] = Append(@, j.lines)]
                 \/ /\ cancelled[j.r] /\ UNCHANGED outChan
              /\ wjob' = [wjob EXCEPT ![w] = <<>>]
              /\ UNCHANGED <<rpc, rpos, rbatch, linesRead, tokens, inChan, doneCh, cstate, queue, startIndex, readerDone, produced, cancelled, nestedWait>>
\* ---------------- consumer ----------------
RECURSIVE Place(_, _, _)
Place(q, base, lines) == IF lines = <<>> THEN q
   ELSE LET idx == Head(lines) - base + 1
            q2 == IF Len(q) < idx THEN q \o [i \in 1..(idx - Len(q)) |-> -1] ELSE q
        IN Place([q2 EXCEPT ![idx] = Head(lines)], base, Tail(lines))
RECURSIVE Drain(_)
Drain(q) == IF q # <<>> /\ Head(q) # -1 THEN <<Head(q)>> \o Drain(Tail(q)) ELSE <<>>
FinishCheck(r, rd, si) == rd /\ si = linesRead[r]
Blocked(r) == Nested /\ r = 1 /\ nestedWait
ConsumeBatch(r) ==
  /\ cstate[r] = "run" /\ ~Blocked(r) /\ outChan[r] # <<>>
  /\ tokens[r] > 0
  /\ LET lines == Head(outChan[r])
         q1 == Place(queue[r], startIndex[r], lines)
         dr == Drain(q1)
         si == startIndex[r] + Len(dr) IN
     /\ outChan' = [outChan EXCEPT ![r] = Tail(@)]
     /\ tokens' = [tokens EXCEPT ![r] = @ - 1]
     /\ queue' = [queue EXCEPT ![r] = SubSeq(q1, Len(dr)+1, Len(q1))]
     /\ startIndex' = [startIndex EXCEPT ![r] = si]
     /\ produced' = [produced EXCEPT ![r] = @ \o dr]
     /\ cstate' = [cstate EXCEPT ![r] = IF FinishCheck(r, readerDone[r], si) THEN "finished" ELSE "run"]
     /\ nestedWait' = (IF Nested /\ r = 1 /\ dr # <<>> /\ cstate[2] = "notstarted" THEN TRUE ELSE nestedWait)
     /\ rpc' = IF Nested /\ r = 1 /\ dr # <<>> /\ cstate[2] = "notstarted" THEN [rpc EXCEPT ![2] = "scan"] ELSE rpc
     /\ UNCHANGED <<rpos, rbatch, linesRead, inChan, doneCh, wjob, readerDone, cancelled>>
  /\ IF Nested /\ r = 1 /\ nestedWait' /\ ~nestedWait THEN cstate'[2] = "run" \/ TRUE ELSE TRUE
ConsumeDone(r) ==
  /\ cstate[r] = "run" /\ ~Blocked(r) /\ doneCh[r] /\ ~readerDone[r]
  /\ readerDone' = [readerDone EXCEPT ![r] = TRUE]
  /\ cstate' = [cstate EXCEPT ![r] = IF FinishCheck(r, TRUE, startIndex[r]) THEN "finished" ELSE "run"]
  /\ UNCHANGED <<rpc, rpos, rbatch, linesRead, tokens, inChan, outChan, doneCh, wjob, queue, startIndex, produced, cancelled, nestedWait>>
Cancel(r) == /\ AllowCancel /\ cstate[r] = "run" /\ ~Blocked(r) /\ produced[r] # <<>>
             /\ cstate' = [cstate EXCEPT ![r] = "stopped"] /\ cancelled' = [cancelled EXCEPT ![r] = TRUE]
             /\ UNCHANGED <<rpc, rpos, rbatch, linesRead, tokens, inChan, outChan, doneCh, wjob, queue, startIndex, readerDone, produced, nestedWait>>
\* nested: reader 2's consumer finishing unblocks consumer 1
NestedStart == /\ Nested /\ nestedWait /\ cstate[2] = "notstarted"
               /\ cstate' = [cstate EXCEPT ![2] = "run"]
               /\ UNCHANGED <<rpc, rpos, rbatch, linesRead, tokens, inChan, outChan, doneCh, wjob, queue, startIndex, readerDone, produced, cancelled, nestedWait>>
NestedEnd == /\ Nested /\ nestedWait /\ cstate[2] \in {"finished","stopped"}
             /\ nestedWait' = FALSE
             /\ UNCHANGED <<rpc, rpos, rbatch, linesRead, tokens, inChan, outChan, doneCh, wjob, cstate, queue, startIndex, readerDone, produced, cancelled>>

AllDone == \A r \in Readers : cstate[r] \in {"finished", "stopped"}
Next == \/ \E r \in Readers : Scan(r) \/ Token(r) \/ SendJob(r) \/ SendDone(r) \/ ConsumeBatch(r) \/ ConsumeDone(r) \/ Cancel(r)
        \/ \E w \in Workers : Take(w) \/ Deliver(w)
        \/ NestedStart \/ NestedEnd
        \/ (AllDone /\ UNCHANGED vars)
Spec == Init /\ [][Next]_vars /\ WF_vars(Next)

IsPrefixOrder == \A r \in Readers : \A i \in 1..Len(produced[r]) : produced[r][i] = i - 1
Complete == \A r \in Readers : cstate[r] = "finished" => Len(produced[r]) = NLines
Termination == <>AllDone
=============================================================================
