------------------------------ MODULE InputRules ------------------------------
(* Input discipline shared by every streaming model and trace specification (DESIGN.md section 5). *)
EXTENDS Changelog

RECURSIVE CountOfRow(_, _, _)
CountOfRow(s, row, tt) ==
  IF s = <<>> THEN 0
  ELSE LET m == s[Len(s)] IN
       CountOfRow(SubSeq(s, 1, Len(s) - 1), row, tt) +
       (IF IsRec(m) /\ m.v = row /\ ((m.t = 0) = (tt = 0)) /\ (m.r \/ m.t <= tt) THEN Sgn(m) ELSE 0)

CONSTANT AllowLate   \* TRUE: late records are part of the input universe (C15/C16/C17 hold for them too; C18 assumes none)

OkAppend(s, m) == IF IsWm(m) THEN m.w > LastWmOf(s)
                  ELSE /\ (AllowLate \/ m.t = 0 \/ m.t > LastWmOf(s))            \* no late records
                       /\ (m.r => CountOfRow(s, m.v, m.t) > 0)      \* never retract an absent row (also in event-time order)
RECURSIVE OkScript(_)
OkScript(s) == s = <<>> \/ (OkScript(SubSeq(s, 1, Len(s) - 1)) /\ OkAppend(SubSeq(s, 1, Len(s) - 1), s[Len(s)]))

=============================================================================
