---------------------------- MODULE PluginStream ----------------------------
(***************************************************************************)
(* C26 (iii) — the Run stream of the plugin protocol                       *)
(* (plugins/plugins.go executionServer.Run, plugins/executor/executor.go   *)
(* ExecutionDatasource.Run): the server sends the messages its node        *)
(* produces, in order, over a FIFO stream; the client hands them to its    *)
(* callbacks, in order; a server failure ends the stream after what was    *)
(* sent; the client may stop early (LIMIT).                                *)
(***************************************************************************)
EXTENDS Integers, Sequences, SequencesExt, TLC

CONSTANTS Script,        \* the sequence of messages the server's node produces; "ERR" = the node fails at that point
          MaxTake        \* the client stops after this many delivered messages (Len(Script) + 1 = never)
VARIABLES sent,          \* how many script entries the server has processed
          chan,          \* the FIFO stream
          delivered,     \* what the client handed to its callbacks
          server, client \* "run" | "done" | "failed" | "stopped"
svars == <<sent, chan, delivered, server, client>>
SInit == sent = 0 /\ chan = <<>> /\ delivered = <<>> /\ server = "run" /\ client = "run"
Send == /\ server = "run" /\ sent < Len(Script) /\ Script[sent + 1] # "ERR"
        /\ chan' = Append(chan, Script[sent + 1]) /\ sent' = sent + 1 /\ UNCHANGED <<delivered, server, client>>
Fail == /\ server = "run" /\ sent < Len(Script) /\ Script[sent + 1] = "ERR"
        /\ server' = "failed" /\ UNCHANGED <<sent, chan, delivered, client>>
Finish == /\ server = "run" /\ sent = Len(Script) /\ server' = "done" /\ UNCHANGED <<sent, chan, delivered, client>>
Recv == /\ client = "run" /\ chan # <<>> /\ Len(delivered) < MaxTake
        /\ delivered' = Append(delivered, Head(chan)) /\ chan' = Tail(chan) /\ UNCHANGED <<sent, server, client>>
Stop == /\ client = "run" /\ Len(delivered) = MaxTake /\ client' = "stopped" /\ UNCHANGED <<sent, chan, delivered, server>>
Eof  == /\ client = "run" /\ chan = <<>> /\ server \in {"done", "failed"} /\ Len(delivered) < MaxTake
        /\ client' = server /\ UNCHANGED <<sent, chan, delivered, server>>
SNext == Send \/ Fail \/ Finish \/ Recv \/ Stop \/ Eof
StreamSpec == SInit /\ [][SNext]_svars /\ WF_svars(SNext)
FirstErr == IF \E i \in 1..Len(Script) : Script[i] = "ERR" THEN CHOOSE i \in 1..Len(Script) : Script[i] = "ERR" /\ \A j \in 1..(i - 1) : Script[j] # "ERR" ELSE Len(Script) + 1
PrefixOk == IsPrefix(delivered, Script)
EndOk == /\ client = "done"   => delivered = Script
         /\ client = "failed" => delivered = SubSeq(Script, 1, FirstErr - 1)
         /\ client = "stopped" => Len(delivered) = MaxTake
Terminates == <>(client # "run")
=============================================================================
