------------------------------ MODULE SqlCases ------------------------------
(* exports N statements of the SqlAst universe under the TLC seed, rendered to text *)
EXTENDS SqlAst, Json
RECURSIVE StmtsFrom(_, _)
StmtsFrom(lo, hi) == IF lo > hi THEN <<>> ELSE IF lo = hi THEN <<[id |-> lo, sql |-> RQ(MkQuery(RandomElement(0..Depth)))]>>
                     ELSE LET mid == (lo + hi) \div 2 IN StmtsFrom(lo, mid) \o StmtsFrom(mid + 1, hi)
Stmts(n) == StmtsFrom(1, n)
ASSUME RenderLaws
ASSUME ndJsonSerialize("c30_cases.ndjson", Stmts(N))
VARIABLE x
Init == x = 0
Next == x' = x
=============================================================================
