------------------------------ MODULE SqlCases ------------------------------
(* exports N statements of the SqlAst universe under the TLC seed, rendered to text *)
EXTENDS SqlAst, Json
RECURSIVE Stmts(_)
Stmts(n) == IF n = 0 THEN <<>> ELSE Append(Stmts(n - 1), [id |-> n, sql |-> RQ(MkQuery(RandomElement(0..Depth)))])
ASSUME RenderLaws
ASSUME ndJsonSerialize("c30_cases.ndjson", Stmts(N))
VARIABLE x
Init == x = 0
Next == x' = x
=============================================================================
