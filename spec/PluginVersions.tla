--------------------------- MODULE PluginVersions ---------------------------
(***************************************************************************)
(* C28 — discovery of installed plugins and version resolution             *)
(* (plugins/manager/manager.go ListInstalledPlugins / Install,             *)
(* plugins/repository/repository.go GetManifest, cmd/root.go dbLoop).      *)
(*                                                                         *)
(* A version is <<major, minor, patch, pre>>; pre = "" for a release.      *)
(* Precedence is semantic versioning's: numeric fields, then a release is  *)
(* above its prereleases, prereleases by identifier ("0" < "beta.2" <      *)
(* "rc.1").  Sat(v, c) is the meaning of the constraint operators of the   *)
(* semver library the code uses, including its documented rule that a      *)
(* constraint without a prerelease part never matches a prerelease.        *)
(*                                                                         *)
(* Layer P:                                                                *)
(*   Discover(tree)        = exactly the (repository, name) pairs of the   *)
(*                           tree, under the name they were installed with *)
(*                           (dashes included), each with its versions;    *)
(*   Resolve(installed, c) = the highest installed version with Sat, else  *)
(*                           none (start-up then reports the database);    *)
(*   Select(manifest, c)   = the highest manifest version with Sat; with   *)
(*                           no constraint the highest release.            *)
(***************************************************************************)
EXTENDS Integers, Sequences, FiniteSets, TLC

PreRank(p) == CASE p = "0" -> 1 [] p = "beta.2" -> 2 [] p = "rc.1" -> 3 [] p = "" -> 4
Less(a, b) ==
  \/ a[1] < b[1]
  \/ a[1] = b[1] /\ a[2] < b[2]
  \/ a[1] = b[1] /\ a[2] = b[2] /\ a[3] < b[3]
  \/ a[1] = b[1] /\ a[2] = b[2] /\ a[3] = b[3] /\ PreRank(a[4]) < PreRank(b[4])
Leq(a, b) == a = b \/ Less(a, b)
VText(v) == ToString(v[1]) \o "." \o ToString(v[2]) \o "." \o ToString(v[3]) \o (IF v[4] = "" THEN "" ELSE "-" \o v[4])

(* a constraint: [op, v]; op "" = no constraint given, "*" = any *)
Sat(v, c) ==
  LET preOK == v[4] = "" \/ (c.op \notin {"", "*"} /\ c.v[4] # "") IN
  CASE c.op \in {"", "*"} -> v[4] = ""
    [] c.op = "="  -> preOK /\ v = c.v
    [] c.op = ">=" -> preOK /\ Leq(c.v, v)
    [] c.op = ">"  -> preOK /\ Less(c.v, v)
    [] c.op = "<"  -> preOK /\ Less(v, c.v)
    [] c.op = "<=" -> preOK /\ Leq(v, c.v)
    [] c.op = "^"  -> preOK /\ Leq(c.v, v) /\ v[1] = c.v[1]
    [] c.op = "~"  -> preOK /\ Leq(c.v, v) /\ ((c.v[1] = 0 /\ c.v[2] = 0 /\ c.v[3] = 0) \/ (v[1] = c.v[1] /\ v[2] = c.v[2]))    \* the library documents ~0.0.0 as ">= 0.0.0"
CText(c) == IF c.op = "" THEN "" ELSE IF c.op = "*" THEN "*" ELSE c.op \o VText(c.v)

MaxV(S) == CHOOSE v \in S : \A w \in S : Leq(w, v)
Resolve(installed, c) == LET S == {v \in installed : Sat(v, c)} IN IF S = {} THEN "none" ELSE VText(MaxV(S))
Select(manifest, c) ==
  LET S == IF c.op = "" THEN {v \in manifest : v[4] = ""} ELSE {v \in manifest : Sat(v, c)} IN IF S = {} THEN "none" ELSE VText(MaxV(S))
RECURSIVE Desc(_)
Desc(S) == IF S = {} THEN <<>> ELSE <<VText(MaxV(S))>> \o Desc(S \ {MaxV(S)})       \* highest first

(* sanity of the specification itself *)
VersionLaws ==
  /\ Less(<<0, 9, 0, "">>, <<0, 10, 0, "">>) /\ Less(<<1, 0, 0, "rc.1">>, <<1, 0, 0, "">>) /\ Less(<<1, 0, 0, "beta.2">>, <<1, 0, 0, "rc.1">>)
  /\ ~Sat(<<1, 1, 0, "rc.1">>, [op |-> ">=", v |-> <<1, 0, 0, "">>]) /\ Sat(<<1, 1, 0, "rc.1">>, [op |-> ">=", v |-> <<1, 0, 0, "0">>])
  /\ Resolve({<<0, 9, 0, "">>, <<0, 10, 0, "">>, <<0, 2, 0, "">>}, [op |-> "*"]) = "0.10.0"
  /\ Select({<<1, 1, 0, "rc.1">>, <<1, 0, 0, "">>}, [op |-> ""]) = "1.0.0"
  /\ Select({<<1, 1, 0, "rc.1">>, <<1, 0, 0, "">>}, [op |-> ">=", v |-> <<1, 0, 0, "0">>]) = "1.1.0-rc.1"
=============================================================================
