------------------------------- MODULE Changelog -------------------------------
(***************************************************************************)
(* Shared vocabulary of the streaming specifications.                      *)
(*                                                                         *)
(* message  == [m |-> "rec", v |-> <<values>>, r |-> BOOLEAN, t |-> Nat]   *)
(*           | [m |-> "wm", w |-> Nat]                                     *)
(* Times are small naturals: 0 is "no event time" (Go zero time.Time),     *)
(* MaxTs stands for WatermarkMaxValue.  Values are the abstract value      *)
(* records of DESIGN.md 4.5, e.g. [t |-> "int", i |-> 3], [t |-> "null"].  *)
(* A bag is a function row -> Int with a dynamic domain; Norm drops zeros. *)
(***************************************************************************)
EXTENDS Integers, Sequences, FiniteSets, TLC

MaxTs == 1048576

IntV(n)  == [t |-> "int", i |-> n]
StrV(s)  == [t |-> "str", s |-> s]
TimeV(n) == [t |-> "time", ts |-> n]
BoolV(b) == [t |-> "bool", b |-> b]
NullV    == [t |-> "null"]
ListV(l) == [t |-> "list", l |-> l]
IsNullV(x) == x.t = "null"

Rec(v, r, t) == [m |-> "rec", v |-> v, r |-> r, t |-> t]
Wm(w)        == [m |-> "wm", w |-> w]
IsRec(m) == m.m = "rec"
IsWm(m)  == m.m = "wm"
Sgn(m)   == IF m.r THEN -1 ELSE 1

Max2(a, b) == IF a > b THEN a ELSE b
Min2(a, b) == IF a < b THEN a ELSE b

(* ---- bags with dynamic domain ---- *)
BagPut(b, x, k) == IF x \in DOMAIN b THEN [b EXCEPT ![x] = @ + k] ELSE b @@ (x :> k)
BagGet(b, x)    == IF x \in DOMAIN b THEN b[x] ELSE 0
Norm(b)         == [x \in {y \in DOMAIN b : b[y] # 0} |-> b[x]]
BagEq(a, b)     == Norm(a) = Norm(b)
NonNeg(b)       == \A x \in DOMAIN b : b[x] >= 0
BagSize(b)      == LET RECURSIVE S(_) S(D) == IF D = {} THEN 0 ELSE LET x == CHOOSE y \in D : TRUE IN b[x] + S(D \ {x})
                   IN S(DOMAIN b)
FnRemove(f, x)  == [y \in DOMAIN f \ {x} |-> f[y]]
FnPut(f, x, v)  == IF x \in DOMAIN f THEN [f EXCEPT ![x] = v] ELSE f @@ (x :> v)

(* consolidated (signed multiset) content of the records of a message sequence *)
RECURSIVE ConsRaw(_)
ConsRaw(s) == IF s = <<>> THEN <<>>
              ELSE LET m == s[Len(s)] rest == ConsRaw(SubSeq(s, 1, Len(s) - 1))
                   IN IF IsRec(m) THEN BagPut(rest, m.v, Sgn(m)) ELSE rest
Consol(s) == Norm(ConsRaw(s))

MsgBag(s) == LET RECURSIVE B(_) B(x) == IF x = <<>> THEN <<>> ELSE BagPut(B(Tail(x)), Head(x), 1) IN B(s)
Recs(s) == SelectSeq(s, IsRec)
Wms(s)  == SelectSeq(s, IsWm)

(* records with no event time, or event time at or below w *)
UpTo(s, w)     == SelectSeq(s, LAMBDA m : IsRec(m) /\ (m.t = 0 \/ m.t <= w))
ConsUpTo(s, w) == Consol(UpTo(s, w))

(* never retract an absent row: every prefix has non-negative multiplicities *)
RECURSIVE ValidFrom(_, _)
ValidFrom(b, s) == IF s = <<>> THEN TRUE
                   ELSE LET m == Head(s) IN
                        IF IsRec(m) THEN LET b2 == BagPut(b, m.v, Sgn(m)) IN b2[m.v] >= 0 /\ ValidFrom(b2, Tail(s))
                        ELSE ValidFrom(b, Tail(s))
Valid(s) == ValidFrom(<<>>, s)

LastWmOf(s) == LET I == {i \in 1..Len(s) : IsWm(s[i])} IN
               IF I = {} THEN 0 ELSE s[CHOOSE i \in I : \A j \in I : j <= i].w

MonotoneWm(s) == \A i, j \in 1..Len(s) : (i < j /\ IsWm(s[i]) /\ IsWm(s[j])) => s[i].w <= s[j].w
(* no record with a non-zero event time at or below an earlier watermark *)
NoLate(s) == \A i, j \in 1..Len(s) : (i < j /\ IsWm(s[i]) /\ IsRec(s[j]) /\ s[j].t # 0) => s[j].t > s[i].w

(* deterministic enumeration of a finite set (order irrelevant to every Layer-P statement) *)
RECURSIVE SeqOf(_)
SeqOf(S) == IF S = {} THEN <<>> ELSE LET x == CHOOSE y \in S : TRUE IN <<x>> \o SeqOf(S \ {x})

RECURSIVE Flatten(_)
Flatten(ss) == IF ss = <<>> THEN <<>> ELSE Head(ss) \o Flatten(Tail(ss))

(* stable selection of the records of b with 0 < t <= w, in ascending event-time order *)
RECURSIVE SortedUpTo(_, _, _)
SortedUpTo(b, w, ts) == IF ts = {} THEN <<>>
                        ELSE LET t == CHOOSE x \in ts : \A y \in ts : x <= y IN
                             (IF t <= w THEN SelectSeq(b, LAMBDA m : m.t = t) ELSE <<>>) \o SortedUpTo(b, w, ts \ {t})
ReleaseUpTo(b, w) == SortedUpTo(b, w, {b[i].t : i \in 1..Len(b)})
KeepAbove(b, w)   == SelectSeq(b, LAMBDA m : m.t > w)
=============================================================================
