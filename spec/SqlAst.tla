------------------------------- MODULE SqlAst -------------------------------
(***************************************************************************)
(* C30 — the SQL the parser accepts, as a bounded universe of syntax trees *)
(* with a renderer (parser/sqlparser/sql.y, ast.go).                       *)
(*                                                                         *)
(* A statement is a tree of records; Render gives its text.  The universe  *)
(* covers the SELECT language OctoSQL uses, with its extensions: WITH,     *)
(* DISTINCT, select expressions with aliases, *, t.*, object field access  *)
(* x->f and explosion x->*, list indexing, INTERVAL, the regular           *)
(* expression operators ~ ~* !~ !~*, nested unary operators, tuples, IN,   *)
(* BETWEEN, IS [NOT] NULL, CASE, subqueries, EXISTS; FROM with aliased     *)
(* tables and subqueries, JOIN / LOOKUP JOIN / STREAM JOIN / LEFT, RIGHT   *)
(* and OUTER JOIN with ON, comma joins, parenthesised table expressions,   *)
(* table-valued functions with named arguments (expression, TABLE(...),    *)
(* DESCRIPTOR(...)) and alias; WHERE, GROUP BY, HAVING, TRIGGER lists      *)
(* (COUNTING e, ON WATERMARK, ON END OF STREAM, AFTER DELAY e), ORDER BY,  *)
(* LIMIT / OFFSET, UNION [ALL].  Identifiers include back-quoted reserved  *)
(* words in several spellings.                                             *)
(*                                                                         *)
(* The property (decided on the real parser): for every statement text s   *)
(* the parser accepts, Parse(String(Parse(s))) succeeds and is the same    *)
(* tree as Parse(s) up to redundant parentheses.                           *)
(***************************************************************************)
EXTENDS Integers, Sequences, TLC

CONSTANTS N, Depth

Pick(seq) == seq[RandomElement(1..Len(seq))]
Coin(k) == RandomElement(1..k) = 1

Idents   == <<"a", "b", "x1", "tab", "t", "u", "`Order`", "`select`", "`Key`", "`By`", "`my col`", "`a-b`", "`Group`", "`FROM`", "`Left`", "k", "v", "`Join`", "`trigger`", "counting">>
Plain    == <<"a", "b", "x1", "tab", "t", "u", "k", "v">>
Funcs    == <<"count", "sum", "coalesce", "lower", "f", "now", "time_from_unix", "`Order`">>
Units    == <<"SECOND", "SECONDS", "MINUTE", "HOURS", "DAY">>
Lits     == <<"1", "0", "42", "1.5", ".5", "1e3", "'x'", "'it''s'", "'a\\\\b'", "''", "'%a_'", "true", "false", "null", "0x1F", "\"dq\"", "9223372036854775807", "'a''''b'">>
UnOps    == <<"-", "+", "~", "!", "NOT ", "-", "!">>
BinOps   == <<"+", "-", "*", "/", "%", "=", "<", ">", "<=", ">=", "!=", "<>", "<=>", " AND ", " OR ", " LIKE ", " NOT LIKE ", "~", "~*", "!~", "!~*", " ~ ", " ~* ", " !~ ", " !~* ", "&", "|", "^", "<<", ">>", " DIV ", " MOD ", " IS ", "||"," REGEXP "," NOT REGEXP "," = "," + "," - "," * ">>

RECURSIVE MkExpr(_), MkExprs(_, _), MkQuery(_), MkTable(_), MkTables(_, _), MkWhens(_, _)
MkExprs(n, d) == IF n = 0 THEN <<>> ELSE Append(MkExprs(n - 1, d), MkExpr(d))
MkWhens(n, d) == IF n = 0 THEN <<>> ELSE Append(MkWhens(n - 1, d), [c |-> MkExpr(d), t |-> MkExpr(d)])
MkLeaf(i) == IF Coin(2) THEN [e |-> "col", q |-> IF Coin(3) THEN Pick(Idents) ELSE "", n |-> Pick(Idents)] ELSE [e |-> "lit", text |-> Pick(Lits)]
MkExpr(d) ==
  LET kind == IF d = 0 THEN "leaf" ELSE Pick(<<"leaf", "leaf", "un", "un", "bin", "bin", "bin", "isnull", "between", "in", "insub", "fn", "countstar", "case", "paren", "paren", "sub", "tuple",
                                                "field", "field", "index", "interval", "exists", "cast", "un2", "un2">>) IN
  CASE kind = "leaf"      -> MkLeaf(d)
    [] kind = "un"        -> [e |-> "un", op |-> Pick(UnOps), sp |-> Coin(2), x |-> MkExpr(d - 1)]
    [] kind = "un2"       -> [e |-> "un", op |-> Pick(UnOps), sp |-> TRUE, x |-> [e |-> "un", op |-> Pick(UnOps), sp |-> Coin(2), x |-> MkExpr(d - 1)]]     \* every pair of adjacent unary operators
    [] kind = "bin"       -> [e |-> "bin", op |-> Pick(BinOps), l |-> MkExpr(d - 1), r |-> MkExpr(d - 1)]
    [] kind = "isnull"    -> [e |-> "isnull", x |-> MkExpr(d - 1), neg |-> Coin(2)]
    [] kind = "between"   -> [e |-> "between", x |-> MkExpr(d - 1), lo |-> MkExpr(d - 1), hi |-> MkExpr(d - 1), neg |-> Coin(2)]
    [] kind = "in"        -> [e |-> "in", x |-> MkExpr(d - 1), l |-> MkExprs(RandomElement(1..3), d - 1), neg |-> Coin(2)]
    [] kind = "insub"     -> [e |-> "insub", x |-> MkExpr(d - 1), q |-> MkQuery(d - 1), neg |-> Coin(2)]
    [] kind = "fn"        -> [e |-> "fn", name |-> Pick(Funcs), args |-> MkExprs(RandomElement(0..3), d - 1), distinct |-> Coin(5)]
    [] kind = "countstar" -> [e |-> "countstar"]
    [] kind = "case"      -> [e |-> "case", subject |-> Coin(3), x |-> MkExpr(d - 1), whens |-> MkWhens(RandomElement(1..2), d - 1), haselse |-> Coin(2), els |-> MkExpr(d - 1)]
    [] kind = "paren"     -> [e |-> "paren", x |-> MkExpr(d - 1)]
    [] kind = "sub"       -> [e |-> "sub", q |-> MkQuery(d - 1)]
    [] kind = "exists"    -> [e |-> "exists", q |-> MkQuery(d - 1)]
    [] kind = "tuple"     -> [e |-> "tuple", l |-> MkExprs(RandomElement(2..3), d - 1)]
    [] kind = "field"     -> [e |-> "field", x |-> MkExpr(d - 1), name |-> Pick(Idents)]
    [] kind = "index"     -> [e |-> "index", x |-> MkExpr(d - 1), i |-> MkExpr(d - 1)]
    [] kind = "interval"  -> [e |-> "interval", x |-> MkExpr(d - 1), unit |-> Pick(Units)]
    [] kind = "cast"      -> [e |-> "cast", x |-> MkExpr(d - 1), ty |-> Pick(<<"int", "float", "string", "char(3)", "signed">>)]

RECURSIVE MkSelExprs(_, _), MkArgs(_, _), MkOrder(_, _), MkTriggers(_, _), MkCtes(_, _)
MkSelExpr(d) ==
  LET kind == Pick(<<"expr", "expr", "expr", "expr", "star", "tstar", "explode">>) IN
  CASE kind = "expr"    -> [s |-> "expr", x |-> MkExpr(d), as |-> IF Coin(2) THEN Pick(Idents) ELSE "", kw |-> Coin(2)]
    [] kind = "star"    -> [s |-> "star"]
    [] kind = "tstar"   -> [s |-> "tstar", t |-> Pick(Idents)]
    [] kind = "explode" -> [s |-> "explode", x |-> MkExpr(d)]
MkSelExprs(n, d) == IF n = 0 THEN <<>> ELSE Append(MkSelExprs(n - 1, d), MkSelExpr(d))
MkArg(d) ==
  LET kind == Pick(<<"expr", "expr", "table", "desc">>) IN
  [tight |-> Coin(2), n |-> Pick(<<"source", "max_diff", "time_field", "window_length", "`offset`", "start", "`end`", "x1", "`Order`">>),
   v |-> CASE kind = "expr"  -> [v |-> "expr", x |-> MkExpr(d)]
           [] kind = "table" -> [v |-> "table", tb |-> MkTable(d)]
           [] kind = "desc"  -> [v |-> "desc", q |-> IF Coin(2) THEN Pick(Idents) ELSE "", n |-> Pick(Idents)]]
MkArgs(n, d) == IF n = 0 THEN <<>> ELSE Append(MkArgs(n - 1, d), MkArg(d))
MkTable(d) ==
  LET kind == IF d = 0 THEN "name" ELSE Pick(<<"name", "name", "name", "sub", "join", "join", "join", "tvf", "tvf", "paren">>) IN
  CASE kind = "name"  -> [t |-> "name", q |-> IF Coin(4) THEN Pick(Idents) ELSE "", n |-> Pick(Idents), as |-> IF Coin(2) THEN Pick(Idents) ELSE "", kw |-> Coin(2)]
    [] kind = "sub"   -> [t |-> "sub", q |-> MkQuery(d - 1), as |-> Pick(Idents), kw |-> Coin(2)]
    [] kind = "join"  -> [t |-> "join", l |-> MkTable(d - 1), strat |-> Pick(<<"", "", "LOOKUP ", "STREAM ">>), kind |-> Pick(<<"JOIN", "JOIN", "LEFT JOIN", "RIGHT JOIN", "OUTER JOIN", "INNER JOIN", "CROSS JOIN", "LEFT OUTER JOIN">>),
                          r |-> MkTable(d - 1), hason |-> ~Coin(5), on |-> MkExpr(d - 1), using |-> Coin(8)]
    [] kind = "tvf"   -> [t |-> "tvf", name |-> Pick(<<"max_diff_watermark", "tumble", "range", "poll", "f">>), args |-> MkArgs(RandomElement(0..3), d - 1), as |-> Pick(Idents), kw |-> Coin(2)]
    [] kind = "paren" -> [t |-> "paren", l |-> MkTables(RandomElement(1..2), d - 1)]
MkTables(n, d) == IF n = 0 THEN <<>> ELSE Append(MkTables(n - 1, d), MkTable(d))
MkOrder(n, d) == IF n = 0 THEN <<>> ELSE Append(MkOrder(n - 1, d), [x |-> MkExpr(d), dir |-> Pick(<<"", " ASC", " DESC">>)])
MkTrigger(d) ==
  LET kind == Pick(<<"counting", "watermark", "eos", "delay">>) IN
  CASE kind = "counting" -> [g |-> "counting", x |-> MkExpr(d)] [] kind = "watermark" -> [g |-> "watermark"] [] kind = "eos" -> [g |-> "eos"] [] kind = "delay" -> [g |-> "delay", x |-> MkExpr(d)]
MkTriggers(n, d) == IF n = 0 THEN <<>> ELSE Append(MkTriggers(n - 1, d), MkTrigger(d))
MkCtes(n, d) == IF n = 0 THEN <<>> ELSE Append(MkCtes(n - 1, d), [n |-> Pick(Idents), q |-> MkQuery(d)])
MkQuery(d) ==
  LET dd == IF d = 0 THEN 0 ELSE d - 1 IN
  [ctes |-> IF d > 0 /\ Coin(5) THEN MkCtes(RandomElement(1..2), dd) ELSE <<>>,
   distinct |-> Coin(5),
   exprs |-> MkSelExprs(RandomElement(1..3), dd),
   from |-> IF Coin(8) THEN <<>> ELSE MkTables(Pick(<<1, 1, 1, 2>>), d),
   haswhere |-> Coin(2), where |-> MkExpr(dd),
   groupby |-> IF Coin(3) THEN MkExprs(RandomElement(1..2), dd) ELSE <<>>,
   hashaving |-> Coin(5), having |-> MkExpr(dd),
   triggers |-> IF Coin(3) THEN MkTriggers(RandomElement(1..3), dd) ELSE <<>>,
   orderby |-> IF Coin(3) THEN MkOrder(RandomElement(1..2), dd) ELSE <<>>,
   limit |-> IF Coin(3) THEN Pick(<<"1", "10", "0">>) ELSE "", offset |-> IF Coin(3) THEN Pick(<<"2", "0">>) ELSE "",
   uni |-> IF d > 0 /\ Coin(8) THEN Pick(<<" UNION ", " UNION ALL ">>) ELSE "", right |-> MkLeaf(d)]

(* ------------------------------------------------------------------ Render ------------------------------------------------------------------ *)
RECURSIVE Join(_, _), R(_), RQ(_), RT(_)
Join(seq, sep) == IF seq = <<>> THEN "" ELSE IF Len(seq) = 1 THEN seq[1] ELSE seq[1] \o sep \o Join(Tail(seq), sep)
Map(seq, Op(_)) == [i \in 1..Len(seq) |-> Op(seq[i])]
Col(q, n) == IF q = "" THEN n ELSE q \o "." \o n
R(x) ==
  CASE x.e = "col"       -> Col(x.q, x.n)
    [] x.e = "lit"       -> x.text
    [] x.e = "un"        -> x.op \o (IF x.sp THEN " " ELSE "") \o R(x.x)
    [] x.e = "bin"       -> R(x.l) \o x.op \o R(x.r)
    [] x.e = "isnull"    -> R(x.x) \o (IF x.neg THEN " IS NOT NULL" ELSE " IS NULL")
    [] x.e = "between"   -> R(x.x) \o (IF x.neg THEN " NOT" ELSE "") \o " BETWEEN " \o R(x.lo) \o " AND " \o R(x.hi)
    [] x.e = "in"        -> R(x.x) \o (IF x.neg THEN " NOT" ELSE "") \o " IN (" \o Join(Map(x.l, R), ", ") \o ")"
    [] x.e = "insub"     -> R(x.x) \o (IF x.neg THEN " NOT" ELSE "") \o " IN (" \o RQ(x.q) \o ")"
    [] x.e = "fn"        -> x.name \o "(" \o (IF x.distinct /\ x.args # <<>> THEN "DISTINCT " ELSE "") \o Join(Map(x.args, R), ", ") \o ")"
    [] x.e = "countstar" -> "count(*)"
    [] x.e = "case"      -> "CASE " \o (IF x.subject THEN R(x.x) \o " " ELSE "") \o Join(Map(x.whens, LAMBDA w : "WHEN " \o R(w.c) \o " THEN " \o R(w.t)), " ")
                            \o (IF x.haselse THEN " ELSE " \o R(x.els) ELSE "") \o " END"
    [] x.e = "paren"     -> "(" \o R(x.x) \o ")"
    [] x.e = "sub"       -> "(" \o RQ(x.q) \o ")"
    [] x.e = "exists"    -> "EXISTS (" \o RQ(x.q) \o ")"
    [] x.e = "tuple"     -> "(" \o Join(Map(x.l, R), ", ") \o ")"
    [] x.e = "field"     -> R(x.x) \o "->" \o x.name
    [] x.e = "index"     -> R(x.x) \o "[" \o R(x.i) \o "]"
    [] x.e = "interval"  -> "INTERVAL " \o R(x.x) \o " " \o x.unit
    [] x.e = "cast"      -> "CAST(" \o R(x.x) \o " AS " \o x.ty \o ")"
RS(s) ==
  CASE s.s = "expr"    -> R(s.x) \o (IF s.as = "" THEN "" ELSE (IF s.kw THEN " AS " ELSE " ") \o s.as)
    [] s.s = "star"    -> "*"
    [] s.s = "tstar"   -> s.t \o ".*"
    [] s.s = "explode" -> R(s.x) \o "->*"
RA(a) == a.n \o (IF a.tight THEN "=>" ELSE " => ") \o
         (CASE a.v.v = "expr" -> R(a.v.x) [] a.v.v = "table" -> "TABLE(" \o RT(a.v.tb) \o ")" [] a.v.v = "desc" -> "DESCRIPTOR(" \o Col(a.v.q, a.v.n) \o ")")
RT(t) ==
  CASE t.t = "name"  -> Col(t.q, t.n) \o (IF t.as = "" THEN "" ELSE (IF t.kw THEN " AS " ELSE " ") \o t.as)
    [] t.t = "sub"   -> "(" \o RQ(t.q) \o ")" \o (IF t.kw THEN " AS " ELSE " ") \o t.as
    [] t.t = "join"  -> RT(t.l) \o " " \o t.strat \o t.kind \o " " \o RT(t.r) \o (IF ~t.hason THEN "" ELSE IF t.using THEN " USING (a, `Key`)" ELSE " ON " \o R(t.on))
    [] t.t = "tvf"   -> t.name \o "(" \o Join(Map(t.args, RA), ", ") \o ")" \o (IF t.kw THEN " AS " ELSE " ") \o t.as
    [] t.t = "paren" -> "(" \o Join(Map(t.l, RT), ", ") \o ")"
RG(g) == CASE g.g = "counting" -> "COUNTING " \o R(g.x) [] g.g = "watermark" -> "ON WATERMARK" [] g.g = "eos" -> "ON END OF STREAM" [] g.g = "delay" -> "AFTER DELAY " \o R(g.x)
RQ(q) ==
  LET core == "SELECT " \o (IF q.distinct THEN "DISTINCT " ELSE "") \o Join(Map(q.exprs, RS), ", ")
              \o (IF q.from = <<>> THEN "" ELSE " FROM " \o Join(Map(q.from, RT), ", "))
              \o (IF q.haswhere THEN " WHERE " \o R(q.where) ELSE "")
              \o (IF q.groupby = <<>> THEN "" ELSE " GROUP BY " \o Join(Map(q.groupby, R), ", "))
              \o (IF q.hashaving THEN " HAVING " \o R(q.having) ELSE "")
              \o (IF q.triggers = <<>> THEN "" ELSE " TRIGGER " \o Join(Map(q.triggers, RG), ", "))
  IN (IF q.ctes = <<>> THEN "" ELSE "WITH " \o Join(Map(q.ctes, LAMBDA c : c.n \o " AS (" \o RQ(c.q) \o ")"), ", ") \o " ")
     \o (IF q.uni = "" THEN core ELSE "(" \o core \o ")" \o q.uni \o "(SELECT " \o R(q.right) \o ")")     \* the grammar wants the left side of a UNION parenthesised
     \o (IF q.orderby = <<>> THEN "" ELSE " ORDER BY " \o Join(Map(q.orderby, LAMBDA o : R(o.x) \o o.dir), ", "))
     \o (IF q.limit = "" THEN "" ELSE " LIMIT " \o q.limit \o (IF q.offset = "" THEN "" ELSE " OFFSET " \o q.offset))

(* sanity of the renderer *)
RenderLaws ==
  /\ R([e |-> "un", op |-> "!", sp |-> TRUE, x |-> [e |-> "un", op |-> "~", sp |-> FALSE, x |-> [e |-> "col", q |-> "", n |-> "a"]]]) = "! ~a"
  /\ RT([t |-> "join", l |-> [t |-> "name", q |-> "", n |-> "a", as |-> "", kw |-> FALSE], strat |-> "LOOKUP ", kind |-> "JOIN", r |-> [t |-> "name", q |-> "", n |-> "b", as |-> "x1", kw |-> TRUE],
         hason |-> TRUE, using |-> FALSE, on |-> [e |-> "lit", text |-> "true"]]) = "a LOOKUP JOIN b AS x1 ON true"
  /\ RG([g |-> "eos"]) = "ON END OF STREAM"
=============================================================================
