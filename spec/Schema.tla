------------------------------- MODULE Schema -------------------------------
(***************************************************************************)
(* C24 — values produced by the CSV and JSON-lines datasources match the   *)
(* schema they reported (datasources/csv, datasources/json).               *)
(*                                                                         *)
(* A CSV cell is a text with the set of its READINGS: the (kind, value)    *)
(* pairs the text denotes (strconv.ParseInt base 10, strconv.ParseFloat,   *)
(* strconv.ParseBool, RFC 3339, the text itself; the empty cell is NULL).  *)
(* Values are canonical texts: Int decimal, Float shortest scientific      *)
(* notation, Boolean true/false, Time RFC 3339 (nano) in UTC.              *)
(* A JSON value is an abstract document (null, num, str, bool, arr, obj,   *)
(* missing key).                                                           *)
(*                                                                         *)
(* Layer P, for the type T the datasource REPORTED for a column:           *)
(*   Rep(cell, T)      the cell has a reading that belongs to T;           *)
(*   Match(cell, v, T) the produced value v belongs to T and is a reading  *)
(*                     of the cell (not a silent conversion).              *)
(* A run over a file must produce, in order, a Match for every row up to   *)
(* the first row with a cell that is not Rep, and then fail; it must not   *)
(* fail when every cell is Rep; and the rows the schema was inferred from  *)
(* (the first 100) are always Rep.                                         *)
(***************************************************************************)
EXTENDS Integers, Sequences, FiniteSets, TLC

Preview == 100

CsvCells == {
  [text |-> "", reads |-> {[k |-> "Null", v |-> ""], [k |-> "String", v |-> ""]}],
  [text |-> "5", reads |-> {[k |-> "Int", v |-> "5"], [k |-> "Float", v |-> "5e+00"], [k |-> "String", v |-> "5"]}],
  [text |-> "-17", reads |-> {[k |-> "Int", v |-> "-17"], [k |-> "Float", v |-> "-1.7e+01"], [k |-> "String", v |-> "-17"]}],
  [text |-> "007", reads |-> {[k |-> "Int", v |-> "7"], [k |-> "Float", v |-> "7e+00"], [k |-> "String", v |-> "007"]}],
  [text |-> "+3", reads |-> {[k |-> "Int", v |-> "3"], [k |-> "Float", v |-> "3e+00"], [k |-> "String", v |-> "+3"]}],
  [text |-> "9223372036854775807", reads |-> {[k |-> "Int", v |-> "9223372036854775807"], [k |-> "Float", v |-> "9.223372036854776e+18"], [k |-> "String", v |-> "9223372036854775807"]}],
  [text |-> "-9223372036854775808", reads |-> {[k |-> "Int", v |-> "-9223372036854775808"], [k |-> "Float", v |-> "-9.223372036854776e+18"], [k |-> "String", v |-> "-9223372036854775808"]}],
  [text |-> "9007199254740993", reads |-> {[k |-> "Int", v |-> "9007199254740993"], [k |-> "Float", v |-> "9.007199254740992e+15"], [k |-> "String", v |-> "9007199254740993"]}],
  [text |-> "1000000", reads |-> {[k |-> "Int", v |-> "1000000"], [k |-> "Float", v |-> "1e+06"], [k |-> "String", v |-> "1000000"]}],
  [text |-> "1", reads |-> {[k |-> "Int", v |-> "1"], [k |-> "Float", v |-> "1e+00"], [k |-> "Boolean", v |-> "true"], [k |-> "String", v |-> "1"]}],
  [text |-> "0", reads |-> {[k |-> "Int", v |-> "0"], [k |-> "Float", v |-> "0e+00"], [k |-> "Boolean", v |-> "false"], [k |-> "String", v |-> "0"]}],
  [text |-> "1.5", reads |-> {[k |-> "Float", v |-> "1.5e+00"], [k |-> "String", v |-> "1.5"]}],
  [text |-> "-0.25", reads |-> {[k |-> "Float", v |-> "-2.5e-01"], [k |-> "String", v |-> "-0.25"]}],
  [text |-> ".5", reads |-> {[k |-> "Float", v |-> "5e-01"], [k |-> "String", v |-> ".5"]}],
  [text |-> "5.", reads |-> {[k |-> "Float", v |-> "5e+00"], [k |-> "String", v |-> "5."]}],
  [text |-> "1e3", reads |-> {[k |-> "Float", v |-> "1e+03"], [k |-> "String", v |-> "1e3"]}],
  [text |-> "1E-2", reads |-> {[k |-> "Float", v |-> "1e-02"], [k |-> "String", v |-> "1E-2"]}],
  [text |-> "0.1", reads |-> {[k |-> "Float", v |-> "1e-01"], [k |-> "String", v |-> "0.1"]}],
  [text |-> "1e-320", reads |-> {[k |-> "Float", v |-> "1e-320"], [k |-> "String", v |-> "1e-320"]}],
  [text |-> "123456789012345678901234567890", reads |-> {[k |-> "Float", v |-> "1.2345678901234568e+29"], [k |-> "String", v |-> "123456789012345678901234567890"]}],
  [text |-> "0.30000000000000004", reads |-> {[k |-> "Float", v |-> "3.0000000000000004e-01"], [k |-> "String", v |-> "0.30000000000000004"]}],
  [text |-> "9223372036854775808", reads |-> {[k |-> "Float", v |-> "9.223372036854776e+18"], [k |-> "String", v |-> "9223372036854775808"]}],
  [text |-> "-0.0", reads |-> {[k |-> "Float", v |-> "-0e+00"], [k |-> "String", v |-> "-0.0"]}],
  [text |-> "1e22", reads |-> {[k |-> "Float", v |-> "1e+22"], [k |-> "String", v |-> "1e22"]}],
  [text |-> "4.35", reads |-> {[k |-> "Float", v |-> "4.35e+00"], [k |-> "String", v |-> "4.35"]}],
  [text |-> "Inf", reads |-> {[k |-> "Float", v |-> "+Inf"], [k |-> "String", v |-> "Inf"]}],
  [text |-> "-inf", reads |-> {[k |-> "Float", v |-> "-Inf"], [k |-> "String", v |-> "-inf"]}],
  [text |-> "NaN", reads |-> {[k |-> "Float", v |-> "NaN"], [k |-> "String", v |-> "NaN"]}],
  [text |-> "nan", reads |-> {[k |-> "Float", v |-> "NaN"], [k |-> "String", v |-> "nan"]}],
  [text |-> "Infinity", reads |-> {[k |-> "Float", v |-> "+Inf"], [k |-> "String", v |-> "Infinity"]}],
  [text |-> "+Inf", reads |-> {[k |-> "Float", v |-> "+Inf"], [k |-> "String", v |-> "+Inf"]}],
  [text |-> "0x1p-2", reads |-> {[k |-> "Float", v |-> "2.5e-01"], [k |-> "String", v |-> "0x1p-2"]}],
  [text |-> "1_000", reads |-> {[k |-> "Float", v |-> "1e+03"], [k |-> "String", v |-> "1_000"]}],
  [text |-> "true", reads |-> {[k |-> "Boolean", v |-> "true"], [k |-> "String", v |-> "true"]}],
  [text |-> "false", reads |-> {[k |-> "Boolean", v |-> "false"], [k |-> "String", v |-> "false"]}],
  [text |-> "t", reads |-> {[k |-> "Boolean", v |-> "true"], [k |-> "String", v |-> "t"]}],
  [text |-> "T", reads |-> {[k |-> "Boolean", v |-> "true"], [k |-> "String", v |-> "T"]}],
  [text |-> "TRUE", reads |-> {[k |-> "Boolean", v |-> "true"], [k |-> "String", v |-> "TRUE"]}],
  [text |-> "F", reads |-> {[k |-> "Boolean", v |-> "false"], [k |-> "String", v |-> "F"]}],
  [text |-> "f", reads |-> {[k |-> "Boolean", v |-> "false"], [k |-> "String", v |-> "f"]}],
  [text |-> "True", reads |-> {[k |-> "Boolean", v |-> "true"], [k |-> "String", v |-> "True"]}],
  [text |-> "False", reads |-> {[k |-> "Boolean", v |-> "false"], [k |-> "String", v |-> "False"]}],
  [text |-> "2020-01-02T03:04:05Z", reads |-> {[k |-> "Time", v |-> "2020-01-02T03:04:05Z"], [k |-> "String", v |-> "2020-01-02T03:04:05Z"]}],
  [text |-> "2020-01-02T03:04:05.123456789+02:00", reads |-> {[k |-> "Time", v |-> "2020-01-02T01:04:05.123456789Z"], [k |-> "String", v |-> "2020-01-02T03:04:05.123456789+02:00"]}],
  [text |-> "1969-12-31T23:59:59.5Z", reads |-> {[k |-> "Time", v |-> "1969-12-31T23:59:59.5Z"], [k |-> "String", v |-> "1969-12-31T23:59:59.5Z"]}],
  [text |-> "yes", reads |-> {[k |-> "String", v |-> "yes"]}],
  [text |-> "abc", reads |-> {[k |-> "String", v |-> "abc"]}],
  [text |-> "null", reads |-> {[k |-> "String", v |-> "null"]}],
  [text |-> "a,b", reads |-> {[k |-> "String", v |-> "a,b"]}],
  [text |-> " 5", reads |-> {[k |-> "String", v |-> " 5"]}],
  [text |-> "5 ", reads |-> {[k |-> "String", v |-> "5 "]}],
  [text |-> "tRUE", reads |-> {[k |-> "String", v |-> "tRUE"]}],
  [text |-> "2020-01-02", reads |-> {[k |-> "String", v |-> "2020-01-02"]}],
  [text |-> "2020-01-02 03:04:05", reads |-> {[k |-> "String", v |-> "2020-01-02 03:04:05"]}],
  [text |-> "0x10", reads |-> {[k |-> "String", v |-> "0x10"]}],
  [text |-> "1,5", reads |-> {[k |-> "String", v |-> "1,5"]}],
  [text |-> "é", reads |-> {[k |-> "String", v |-> "é"]}],
  [text |-> "--1", reads |-> {[k |-> "String", v |-> "--1"]}],
  [text |-> "1e", reads |-> {[k |-> "String", v |-> "1e"]}],
  [text |-> "e5", reads |-> {[k |-> "String", v |-> "e5"]}],
  [text |-> "5.5.5", reads |-> {[k |-> "String", v |-> "5.5.5"]}],
  [text |-> "TRue", reads |-> {[k |-> "String", v |-> "TRue"]}],
  [text |-> "12a", reads |-> {[k |-> "String", v |-> "12a"]}]}
JNums == {
  [j |-> "num", text |-> "5", fl |-> "5e+00"],
  [j |-> "num", text |-> "-1.5", fl |-> "-1.5e+00"],
  [j |-> "num", text |-> "1e3", fl |-> "1e+03"],
  [j |-> "num", text |-> "1E-2", fl |-> "1e-02"],
  [j |-> "num", text |-> "0.1", fl |-> "1e-01"],
  [j |-> "num", text |-> "123456789012345678901234567890", fl |-> "1.2345678901234568e+29"],
  [j |-> "num", text |-> "1e-320", fl |-> "1e-320"],
  [j |-> "num", text |-> "0", fl |-> "0e+00"],
  [j |-> "num", text |-> "-0", fl |-> "-0e+00"],
  [j |-> "num", text |-> "9007199254740993", fl |-> "9.007199254740992e+15"],
  [j |-> "num", text |-> "1.0", fl |-> "1e+00"],
  [j |-> "num", text |-> "2.50", fl |-> "2.5e+00"]}
(* ---------------------------------------------------------------- types (harness encoding) *)
AltsOf(T) == IF T.k = "union" THEN T.a ELSE <<T>>
HasPrim(T, n) == \E i \in 1..Len(AltsOf(T)) : AltsOf(T)[i].k = "prim" /\ AltsOf(T)[i].n = n

(* ---------------------------------------------------------------- CSV *)
ReadsOf(cell) == (CHOOSE c \in CsvCells : c.text = cell.text).reads     \* always the catalogue's readings (observations carry only the text)
CsvRep(cell, T) == \E r \in ReadsOf(cell) : HasPrim(T, r.k)
CsvMatch(cell, v, T) == v.k \notin {"List", "Struct", "Tuple"} /\ HasPrim(T, v.k) /\ [k |-> v.k, v |-> v.v] \in ReadsOf(cell)

(* ---------------------------------------------------------------- JSON *)
JNull == [j |-> "null"]
JMissing == [j |-> "missing"]
JStrs == {[j |-> "str", s |-> "abc", time |-> ""], [j |-> "str", s |-> "", time |-> ""], [j |-> "str", s |-> "5", time |-> ""], [j |-> "str", s |-> "true", time |-> ""],
          [j |-> "str", s |-> "null", time |-> ""], [j |-> "str", s |-> "1h", time |-> ""], [j |-> "str", s |-> "2020-01-02", time |-> ""],
          [j |-> "str", s |-> "2020-01-02T03:04:05Z", time |-> "2020-01-02T03:04:05Z"],
          [j |-> "str", s |-> "2020-01-02T03:04:05.5+02:00", time |-> "2020-01-02T01:04:05.5Z"]}
JBools == {[j |-> "bool", b |-> "true"], [j |-> "bool", b |-> "false"]}
JScalars == {JNull} \cup JNums \cup JStrs \cup JBools
JArr(l) == [j |-> "arr", l |-> l]
JObj(names, l) == [j |-> "obj", names |-> names, l |-> l]
Field(j, name) == IF \E i \in 1..Len(j.names) : j.names[i] = name THEN j.l[CHOOSE i \in 1..Len(j.names) : j.names[i] = name] ELSE JMissing

ScalarRead(j, v) ==
  CASE v.k = "Null"    -> j.j \in {"null", "missing"}
    [] v.k = "Float"   -> j.j = "num" /\ v.v = j.fl
    [] v.k = "String"  -> j.j = "str" /\ v.v = j.s
    [] v.k = "Time"    -> j.j = "str" /\ j.time # "" /\ v.v = j.time
    [] v.k = "Boolean" -> j.j = "bool" /\ v.v = j.b
    [] OTHER -> FALSE
ScalarRep(j, n) ==
  CASE n = "Null"    -> j.j \in {"null", "missing"}
    [] n = "Float"   -> j.j = "num"
    [] n = "String"  -> j.j = "str"
    [] n = "Time"    -> j.j = "str" /\ j.time # ""
    [] n = "Boolean" -> j.j = "bool"
    [] OTHER -> FALSE

RECURSIVE JRep(_, _)
JRep(j, T) ==
  CASE T.k = "union"    -> \E i \in 1..Len(T.a) : JRep(j, T.a[i])
    [] T.k = "prim"     -> ScalarRep(j, T.n)
    [] T.k = "listnone" -> j.j = "arr" /\ Len(j.l) = 0
    [] T.k = "list"     -> j.j = "arr" /\ \A i \in 1..Len(j.l) : JRep(j.l[i], T.le)
    [] T.k = "obj"      -> j.j = "obj" /\ \A i \in 1..Len(T.f) : JRep(Field(j, T.f[i][1]), T.f[i][2])
    [] OTHER -> FALSE

RECURSIVE JMatch(_, _, _)
JMatch(j, v, T) ==
  CASE T.k = "union"    -> \E i \in 1..Len(T.a) : JMatch(j, v, T.a[i])
    [] T.k = "prim"     -> v.k = T.n /\ ScalarRead(j, v)
    [] T.k = "listnone" -> j.j = "arr" /\ Len(j.l) = 0 /\ v.k = "List" /\ Len(v.l) = 0
    [] T.k = "list"     -> j.j = "arr" /\ v.k = "List" /\ Len(v.l) = Len(j.l) /\ \A i \in 1..Len(j.l) : JMatch(j.l[i], v.l[i], T.le)
    [] T.k = "obj"      -> j.j = "obj" /\ v.k = "Struct" /\ Len(v.l) = Len(T.f) /\ \A i \in 1..Len(T.f) : JMatch(Field(j, T.f[i][1]), v.l[i], T.f[i][2])
    [] OTHER -> FALSE

(* ---------------------------------------------------------------- a file and a run over it *)
(* column c of a case: A = cells cycled through the preview rows, B = cells of the rows after the preview; n rows in total *)
CellAt(col, r) == IF r <= Preview /\ Len(col.A) > 0 THEN col.A[((r - 1) % Len(col.A)) + 1] ELSE col.B[((r - 1) % Len(col.B)) + 1]
RepC(kind, cell, T) == IF kind = "csv" THEN CsvRep(cell, T) ELSE JRep(cell, T)
MatchC(kind, cell, v, T) == IF kind = "csv" THEN CsvMatch(cell, v, T) ELSE JMatch(cell, v, T)

(* obs: [kind, n, cols (with the index sc of the schema column, 0 = not in the schema), types, rows, failed] *)
BadRows(o) == {r \in 1..o.n : \E c \in 1..Len(o.cols) : o.cols[c].sc # 0 /\ ~RepC(o.kind, CellAt(o.cols[c], r), o.types[o.cols[c].sc])}
FirstBad(o) == IF BadRows(o) = {} THEN 0 ELSE CHOOSE r \in BadRows(o) : \A q \in BadRows(o) : r <= q
BadCol(o, r) == CHOOSE c \in 1..Len(o.cols) : o.cols[c].sc # 0 /\ ~RepC(o.kind, CellAt(o.cols[c], r), o.types[o.cols[c].sc])
Mismatch(o) == {rc \in (1..Len(o.rows)) \X (1..Len(o.cols)) :
                  o.cols[rc[2]].sc # 0 /\ ~MatchC(o.kind, CellAt(o.cols[rc[2]], rc[1]), o.rows[rc[1]][o.cols[rc[2]].sc], o.types[o.cols[rc[2]].sc])}
Verdict(o) ==
  LET fb == FirstBad(o) IN
  IF fb # 0 /\ fb <= Preview THEN [why |-> "a row of the inference preview is not representable in the reported schema", row |-> fb, col |-> BadCol(o, fb)]
  ELSE IF Mismatch(o) # {} THEN LET rc == CHOOSE x \in Mismatch(o) : \A y \in Mismatch(o) : x[1] <= y[1] IN
        [why |-> IF fb # 0 /\ rc[1] >= fb THEN "a row that is not representable in the reported schema was silently converted"
                 ELSE "a produced value does not match its cell or the reported type", row |-> rc[1], col |-> rc[2]]
  ELSE IF fb = 0 /\ o.failed THEN [why |-> "the run failed although every cell is representable", row |-> 0, col |-> 0]
  ELSE IF fb = 0 /\ Len(o.rows) # o.n THEN [why |-> "rows are missing", row |-> Len(o.rows) + 1, col |-> 0]
  ELSE IF fb # 0 /\ ~o.failed THEN [why |-> "a row that is not representable in the reported schema was not reported as an error", row |-> fb, col |-> BadCol(o, fb)]
  ELSE IF fb # 0 /\ Len(o.rows) >= fb THEN [why |-> "rows were produced at or after the unrepresentable row", row |-> fb, col |-> BadCol(o, fb)]
  ELSE [why |-> "", row |-> 0, col |-> 0]

(* sanity of the specification itself *)
SchemaLaws ==
  /\ \A c \in CsvCells : c.text = "" <=> \E r \in c.reads : r.k = "Null"
  /\ \A c, e \in CsvCells : c.text = e.text => c = e
  /\ JRep(JArr(<<>>), [k |-> "listnone"]) /\ ~JRep(JArr(<<JNull>>), [k |-> "listnone"])
  /\ JRep(JMissing, [k |-> "union", a |-> <<[k |-> "prim", n |-> "Null"], [k |-> "prim", n |-> "Float"]>>]) /\ ~JRep(JMissing, [k |-> "prim", n |-> "Float"])
  /\ JMatch(JObj(<<"a">>, <<JNull>>), [k |-> "Struct", l |-> <<[k |-> "Null", v |-> ""]>>], [k |-> "obj", f |-> <<<<"a", [k |-> "prim", n |-> "Null"]>>>>])
=============================================================================
