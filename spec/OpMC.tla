--------------------------------- MODULE OpMC ---------------------------------
(* Bounded model: every valid input script up to MaxLen over Universe(cfg), for every cfg in Cfgs, pushed through the
   implementation-shaped Layer I; Layer P (PFail) must stay "" in every state.  The scripts are exported for replay. *)
EXTENDS Ops, Json, SequencesExt

CONSTANTS MaxLen, Cfgs, Universe(_), ScriptFile

VARIABLES cfg, ins, outs, st, done, fail
vars == <<cfg, ins, outs, st, done, fail>>

Init == cfg \in Cfgs /\ ins = <<>> /\ outs = <<>> /\ st = OpInit(cfg) /\ done = FALSE /\ fail = ""

Feed(m) == /\ ~done /\ Len(ins) < MaxLen /\ OkAppend(ins, m)
           /\ LET r == OpStep(cfg, st, m) IN
              /\ st' = r.st /\ outs' = outs \o r.out /\ ins' = Append(ins, m)
              /\ fail' = IF fail = "" THEN PFail(cfg, Append(ins, m), outs, r.out, FALSE) ELSE fail
           /\ UNCHANGED <<cfg, done>>

Eos == /\ ~done
       /\ LET r == OpEos(cfg, st) IN
          /\ st' = r.st /\ outs' = outs \o r.out /\ done' = TRUE
          /\ fail' = IF fail = "" THEN PFail(cfg, ins, outs, r.out, TRUE) ELSE fail
       /\ UNCHANGED <<cfg, ins>>

Next == (\E m \in Universe(cfg) : Feed(m)) \/ Eos
Spec == Init /\ [][Next]_vars
LayerP == fail = ""

RECURSIVE Scripts(_, _)
Scripts(c, n) == IF n = 0 THEN {<<>>}
                 ELSE LET P == Scripts(c, n - 1) IN
                      P \cup {Append(p[1], p[2]) : p \in {q \in {x \in P : Len(x) = n - 1} \X Universe(c) : OkAppend(q[1], q[2])}}
(* maximal scripts only: every shorter script is a prefix of one of them and is checked step by step *)
Maximal(c, n) == {s \in Scripts(c, n) : Len(s) = n \/ ~\E m \in Universe(c) : OkAppend(s, m)}
ASSUME ndJsonSerialize(ScriptFile, SetToSeq(UNION {{[cfg |-> c, in |-> s] : s \in Maximal(c, MaxLen)} : c \in Cfgs}))
=============================================================================
