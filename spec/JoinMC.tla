-------------------------------- MODULE JoinMC --------------------------------
(* Bounded model of the stream joins: every pair of valid input scripts up to MaxLen per side over UL/UR, every
   interleaving of the two inputs and of the two channel closes; Layer I must satisfy the Layer-P monitor JFail in
   every state.  Deadlock checking is on: the receive loops must always be able to finish (C29). *)
EXTENDS StreamJoin, InputRules, Json, SequencesExt

CONSTANTS MaxLen, Cfgs, UL(_), UR(_), Check, PairFile

RECURSIVE Scripts(_, _)
Scripts(U, n) == IF n = 0 THEN {<<>>}
                 ELSE LET P == Scripts(U, n - 1) IN
                      P \cup {Append(p[1], p[2]) : p \in {q \in {x \in P : Len(x) = n - 1} \X U : OkAppend(q[1], q[2])}}

VARIABLES cfg, LS, RS, idx, closed, st, outs, fail
vars == <<cfg, LS, RS, idx, closed, st, outs, fail>>

Script(s) == IF s = "L" THEN LS ELSE RS
Recv(s, i) == SubSeq(Script(s), 1, i[s])
Chk(tag) == tag \in Check

Init == /\ cfg \in Cfgs
        /\ LS \in Scripts(UL(cfg), MaxLen) /\ RS \in Scripts(UR(cfg), MaxLen)
        /\ idx = [L |-> 0, R |-> 0] /\ closed = [L |-> FALSE, R |-> FALSE]
        /\ st = JInit /\ outs = <<>> /\ fail = ""

CanAct(s) == ~closed[s] /\ (st.phase = "both" \/ (st.phase = "one" /\ st.open = s))

Deliver(s) == /\ CanAct(s) /\ idx[s] < Len(Script(s))
              /\ LET r    == JRecv(cfg, st, s, Script(s)[idx[s] + 1])
                     idx2 == [idx EXCEPT ![s] = @ + 1] IN
                 /\ st' = r.st /\ outs' = outs \o r.out /\ idx' = idx2
                 /\ fail' = IF fail # "" THEN fail
                            ELSE LET f == JFail(cfg, Recv("L", idx2), Recv("R", idx2), outs, r.out, FALSE, Chk) IN
                                 IF f # "" THEN f
                                 ELSE JRetroFail(cfg, LS, RS, outs \o r.out, SnapsOf(Len(outs), r.out, idx2["L"], idx2["R"]), Chk)
              /\ UNCHANGED <<cfg, LS, RS, closed>>

CloseSide(s) == /\ CanAct(s) /\ idx[s] = Len(Script(s))
                /\ LET r == JClose(cfg, st, s)
                       c2 == [closed EXCEPT ![s] = TRUE] IN
                   /\ st' = r.st /\ outs' = outs \o r.out /\ closed' = c2
                   /\ fail' = IF fail # "" THEN fail
                              ELSE LET f == JFail(cfg, Recv("L", idx), Recv("R", idx), outs, r.out, c2["L"] /\ c2["R"], Chk) IN
                                   IF f # "" THEN f
                                   ELSE JRetroFail(cfg, LS, RS, outs \o r.out, SnapsOf(Len(outs), r.out, idx["L"], idx["R"]), Chk)
                /\ UNCHANGED <<cfg, LS, RS, idx>>

Finished == closed["L"] /\ closed["R"]
Next == (\E s \in Sides : Deliver(s) \/ CloseSide(s)) \/ (Finished /\ UNCHANGED vars)
Spec == Init /\ [][Next]_vars /\ WF_vars(\E s \in Sides : Deliver(s) \/ CloseSide(s))

LayerP == fail = ""
Terminates == <>Finished                 \* C29: the join always ends on finite inputs (under weak fairness of the join loop)
PhaseOk == Finished <=> st.phase = "done"

ASSUME ndJsonSerialize(PairFile, SetToSeq(UNION {{[cfg |-> c, L |-> l, R |-> r] : l \in Scripts(UL(c), MaxLen), r \in Scripts(UR(c), MaxLen)} : c \in Cfgs}))
=============================================================================
