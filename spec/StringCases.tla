------------------------------ MODULE StringCases ------------------------------
(* exports the C12 cases (function, arguments, expected result or Unpinned) - exhaustive for short strings, seeded samples beyond *)
EXTENDS Strings, Json, SequencesExt, Randomization

CONSTANTS Sample      \* sizes of the random subsets (TLC -seed)

S0 == {<<>>}
S1 == {<<r>> : r \in Sigma}
S2 == {<<r, q>> : r \in Sigma, q \in Sigma}
S3 == {<<p[1], p[2], p[3]>> : p \in RandomSubset(Sample, Sigma \X Sigma \X Sigma)}
Short == S0 \cup S1 \cup S2
Strs  == Short \cup S3
SA(s) == [s |-> s]
IA(n) == [i |-> n]

Pick(k, S) == IF Cardinality(S) <= k THEN S ELSE RandomSubset(k, S)
(* products of independent samples keep every enumerated set below TLC's 10^6 element limit *)
(* exhaustive core: everything the LIKE syntax distinguishes (literal, escape, both wildcards, a regexp operator, newline, multibyte) *)
Core == {"a", "\\", "_", "%", "*", "NL", "é"}
C1 == {<<r>> : r \in Core}
C2 == {<<r, q>> : r \in Core, q \in Core}
C3 == {<<r, q, u>> : r \in Core, q \in Core, u \in Core}
LikeCore == {[fn |-> "like", args |-> <<SA(p[1]), SA(p[2])>>, exp |-> LikeSpec(p[1], p[2])] : p \in (S0 \cup C1 \cup C2) \X (S0 \cup C1 \cup C2 \cup C3)}
LikeCases == LikeCore \cup {[fn |-> "like", args |-> <<SA(p[1]), SA(p[2])>>, exp |-> LikeSpec(p[1], p[2])] :
                p \in Pick(Sample * 8, Short \X Short) \cup (Pick(60, S3) \X Pick(Sample \div 40, Short)) \cup (Pick(Sample \div 40, Short) \X Pick(60, S3))}
UnaryCases == UNION {{[fn |-> "upper", args |-> <<SA(s)>>, exp |-> StrR(UpperS(s))],
                      [fn |-> "lower", args |-> <<SA(s)>>, exp |-> StrR(LowerS(s))],
                      [fn |-> "reverse", args |-> <<SA(s)>>, exp |-> StrR(ReverseS(s))],
                      [fn |-> "len", args |-> <<SA(s)>>, exp |-> LenSpec(s)]} : s \in Strs}
ReplaceCases == {[fn |-> "replace", args |-> <<SA(t[1]), SA(t[2]), SA(t[3])>>, exp |-> ReplaceSpec(t[1], t[2], t[3])] :
                   t \in Pick(Sample \div 4, Strs) \X (S0 \cup Pick(8, S1) \cup Pick(8, S2)) \X (S0 \cup Pick(3, S1))}
PositionCases == {[fn |-> "position", args |-> <<SA(p[1]), SA(p[2])>>, exp |-> PositionSpec(p[1], p[2])] :
                   p \in Pick(Sample \div 4, Strs) \X (S0 \cup Pick(10, S1) \cup Pick(10, S2))}
SubstrCases == {[fn |-> "substr", args |-> <<SA(p[1]), IA(p[2])>>, exp |-> SubstrSpec(p[1], p[2])] : p \in Pick(Sample \div 4, Strs) \X (-1..4)}
               \cup {[fn |-> "substr", args |-> <<SA(t[1]), IA(t[2]), IA(t[3])>>, exp |-> Substr3Spec(t[1], t[2], t[3])] :
                       t \in Pick(Sample \div 10, Strs) \X (-1..4) \X (-1..3)}
(* regular expressions: the statement names Go's regexp as the reference, so only inputs are generated here *)
Frags == {<<"a">>, <<"A">>, <<"b">>, <<".">>, <<"\\", "S">>, <<"\\", "s">>, <<"\\", "D">>, <<"\\", "d">>, <<"\\", "W">>, <<"\\", "w">>,
          <<"[", "A", "-", "Z", "]">>, <<"[", "a", "-", "z", "]">>, <<"[", "^", "a", "]">>, <<"a", "*">>, <<"(", "a", "|", "B", ")">>, <<"^">>, <<"$">>,
          <<"é">>, <<"É">>, <<"\\", "x", "4", "1">>, <<"\\", "P", "{", "L", "u", "}">>, <<"\\", "p", "{", "L", "l", "}">>, <<"[", "[", ":", "u", "p", "p", "e", "r", ":", "]", "]">>,
          <<"\\", "B">>, <<"\\", "b">>, <<"+">>, <<"(">>}
Pats == Frags \cup {p[1] \o p[2] : p \in Frags \X Frags} \cup {t[1] \o t[2] \o t[3] : t \in RandomSubset(Sample, Frags \X Frags \X Frags)}
RegexCases == {[fn |-> f, args |-> <<SA(p[1]), SA(p[2])>>, exp |-> Unpinned] : f \in {"~", "~*"}, p \in Pick(Sample \div 10, Strs) \X Pick(40, Pats)}

ASSUME StringLaws
ASSUME ndJsonSerialize("c12_cases.ndjson", SetToSeq(LikeCases \cup UnaryCases \cup ReplaceCases \cup PositionCases \cup SubstrCases \cup RegexCases))
VARIABLE x
Init == x = 0
Next == x' = x
=============================================================================
