---------------------------------- MODULE Ops ----------------------------------
(***************************************************************************)
(* Dispatch over the single-input streaming operators and the Layer-P      *)
(* monitor shared by the model (OpMC) and the trace specification          *)
(* (OpTrace): one source of truth for what "the property holds" means.     *)
(***************************************************************************)
EXTENDS GroupBy, Operators, ConsistentOutput, Tvf, InputRules

(* ---- base operators ---- *)
BaseInit(cfg) == CASE cfg.op = "gb"  -> GbInit(cfg)
                 [] cfg.op = "mdw" -> MdwInit
                 [] cfg.op = "limit" -> 0
                 [] OTHER          -> <<>>

BaseStep(cfg, st, msg) ==
  CASE cfg.op = "gb"       -> GbStep(cfg, st, msg)
    [] cfg.op = "filter"   -> FilterStep(cfg, st, msg)
    [] cfg.op = "map"      -> MapStep(cfg, st, msg)
    [] cfg.op = "distinct" -> DistinctStep(cfg, st, msg)
    [] cfg.op = "etbuf"    -> EtbufStep(cfg, st, msg)
    [] cfg.op = "cout"     -> CoutStep(cfg, st, msg)
    [] cfg.op = "mdw"      -> MdwStep(cfg, st, msg)
    [] cfg.op = "tumble"   -> TumbleStep(cfg, st, msg)
    [] cfg.op = "orderby"  -> OrderByStep(cfg, st, msg)
    [] cfg.op = "limit"    -> LimitStep(cfg, st, msg)
    [] cfg.op = "lookup"   -> LookupStep(cfg, st, msg)
    [] cfg.op = "unnest"   -> UnnestStep(cfg, st, msg)

BaseEos(cfg, st) ==
  CASE cfg.op = "gb"    -> GbEos(cfg, st)
    [] cfg.op = "etbuf" -> EtbufEos(cfg, st)
    [] cfg.op = "cout"  -> CoutEos(cfg, st)
    [] cfg.op = "orderby" -> OrderByEos(cfg, st)
    [] cfg.op = "range" -> [st |-> st, out |-> RangeOut(cfg)]
    [] cfg.op = "poll"  -> [st |-> st, out |-> PollObserved(cfg)]
    [] OTHER            -> [st |-> st, out |-> <<>>]

BaseBatch(cfg, inBag) ==
  CASE cfg.op = "gb"       -> GbBatch(cfg, inBag)
    [] cfg.op = "filter"   -> FilterBatch(cfg, inBag)
    [] cfg.op = "map"      -> MapBatch(cfg, inBag)
    [] cfg.op = "distinct" -> DistinctBatch(cfg, inBag)
    [] cfg.op = "etbuf"    -> inBag
    [] cfg.op = "cout"     -> inBag
    [] cfg.op = "orderby"  -> OrderByBatch(cfg, inBag)
    [] cfg.op = "lookup"   -> LookupBatch(cfg, inBag)
    [] cfg.op = "unnest"   -> UnnestBatch(cfg, inBag)


(* ---- small pipelines: cfg = [op |-> "pipe", stages |-> <<cfg1, cfg2, ...>>], the output of a stage is the input of the next;   ---- *)
(* ---- at end of stream a stage first receives what the previous stage emits at its end, then ends itself                       ---- *)
RECURSIVE FeedAll(_, _, _)
FeedAll(c, st, msgs) ==      \* feed a sequence of messages to one base operator: [st, out]
  IF msgs = <<>> THEN [st |-> st, out |-> <<>>]
  ELSE LET r == BaseStep(c, st, Head(msgs)) rest == FeedAll(c, r.st, Tail(msgs)) IN [st |-> rest.st, out |-> r.out \o rest.out]
RECURSIVE PipeFeed(_, _, _, _)
PipeFeed(stages, sts, i, msgs) ==     \* msgs enter stage i; returns the new stage states and what leaves the last stage
  IF i > Len(stages) THEN [st |-> sts, out |-> msgs]
  ELSE LET r == FeedAll(stages[i], sts[i], msgs) IN PipeFeed(stages, [sts EXCEPT ![i] = r.st], i + 1, r.out)
RECURSIVE PipeEnd(_, _, _, _)
PipeEnd(stages, sts, i, msgs) ==      \* stage i receives msgs (the end-of-stream output of the stages before it), then ends
  IF i > Len(stages) THEN [st |-> sts, out |-> msgs]
  ELSE LET r == FeedAll(stages[i], sts[i], msgs)
           e == BaseEos(stages[i], r.st)
       IN PipeEnd(stages, [sts EXCEPT ![i] = e.st], i + 1, r.out \o e.out)
RECURSIVE PipeBatch(_, _, _)
PipeBatch(stages, i, bag) == IF i > Len(stages) THEN bag ELSE PipeBatch(stages, i + 1, Norm(BaseBatch(stages[i], bag)))

OpInit(cfg) == IF cfg.op = "pipe" THEN [i \in 1..Len(cfg.stages) |-> BaseInit(cfg.stages[i])] ELSE BaseInit(cfg)
OpStep(cfg, st, msg) == IF cfg.op = "pipe" THEN PipeFeed(cfg.stages, st, 1, <<msg>>) ELSE BaseStep(cfg, st, msg)
OpEos(cfg, st) == IF cfg.op = "pipe" THEN PipeEnd(cfg.stages, st, 1, <<>>) ELSE BaseEos(cfg, st)
OpBatch(cfg, inBag) == IF cfg.op = "pipe" THEN PipeBatch(cfg.stages, 1, inBag) ELSE BaseBatch(cfg, inBag)

(* ---- Layer P: "" when the property holds on what has been observed, else the reason ---- *)
WmsIn(s) == {i \in 1..Len(s) : IsWm(s[i])}

CONSTANT Check      \* the set of property tags whose clauses are evaluated: a subset of {"C15","C16","C17","C18",...}; "C15F" = only the final-consolidation clause of C15

PFail(cfg, ins, outsBefore, stepOut, done) ==
  LET outs == outsBefore \o stepOut
      n0   == Len(outsBefore)
      Chk(tag) == tag \in Check
  IN
  IF Chk("C15") /\ ~ValidFrom(ConsRaw(outsBefore), stepOut) THEN "C15: output retracts a row that is not present"
  ELSE IF Chk("C18") /\ ~MonotoneWm(outs) THEN "C18: watermark went backwards"
  ELSE IF Chk("C18") /\ ~NoLate(outs) THEN "C18: record emitted at or below a watermark already forwarded"
  ELSE IF Chk("C15") /\ cfg.op = "limit" /\ ~LimitOk(cfg, ins, outs) THEN "C15: limit did not forward exactly the input up to its n-th record"
  ELSE IF Chk("C15") /\ cfg.op = "orderby" /\ ~InOrder(cfg, outs) THEN "C15: order by emitted rows out of order"
  ELSE IF (Chk("C15") \/ Chk("C15F") \/ (Chk("C16") /\ cfg.op = "gb")) /\ cfg.op # "limit" /\ done /\ Consol(outs) # Norm(OpBatch(cfg, Consol(ins)))
       THEN (IF cfg.op = "gb" THEN "C16: final consolidated output differs from the batch GROUP BY"
             ELSE "C15: final consolidated output differs from the operator applied to the consolidated input")
  ELSE IF Chk("C17") /\ cfg.op = "gb" /\ ~cfg.simple /\ cfg.ktidx # 0 /\ HasKind(cfg, "wm") /\ ~done /\
          \E j \in WmsIn(stepOut) : ~C17Watermark(cfg, ins, SubSeq(outs, 1, n0 + j), stepOut[j].w)
       THEN "C17: a forwarded watermark is not backed by the current results of the keys at or below it"
  ELSE IF Chk("C17") /\ cfg.op = "gb" /\ ~cfg.simple /\ Len(cfg.trig) = 1 /\ cfg.trig[1].k = "count" /\ ~done /\ ins # <<>> /\
          IsRec(ins[Len(ins)]) /\ (\A i \in 1..Len(ins) : IsRec(ins[i]) => ins[i].t = 0) /\ ~C17Counting(cfg, ins, outs, stepOut)
       THEN "C17: COUNTING n did not emit exactly after every n-th record of the key"
  ELSE IF Chk("C18") /\ cfg.op = "etbuf" /\ ~BufferReleased(ins, outs, done) THEN "C18: event-time buffer release order/completeness"
  ELSE IF Chk("C22") /\ cfg.op = "cout" /\ C22Fail(ins, outsBefore, stepOut, done) # "" THEN C22Fail(ins, outsBefore, stepOut, done)
  ELSE IF Chk("C20") /\ cfg.op = "mdw" /\ ~done /\ ins # <<>> /\
          (LET prev == SubSeq(ins, 1, Len(ins) - 1)
               RECURSIVE Run(_, _)
               Run(st, s) == IF s = <<>> THEN st ELSE Run(MdwStep(cfg, st, Head(s)).st, Tail(s))
           IN MsgBag(MdwStep(cfg, Run(MdwInit, prev), ins[Len(ins)]).out) # MsgBag(stepOut))
       THEN "C20: max_diff_watermark output differs (dropped/forwarded record, event time, or watermark value)"
  ELSE IF Chk("C20") /\ cfg.op = "mdw" /\ (~NoLate(outs) \/ \E i, j \in 1..Len(outs) : i < j /\ IsWm(outs[i]) /\ IsWm(outs[j]) /\ outs[j].w <= outs[i].w)
       THEN "C20: watermarks not strictly increasing, or a record forwarded at or below the current watermark"
  ELSE IF Chk("C20") /\ cfg.op = "mdw" /\ done /\ stepOut # <<>> THEN "C20: max_diff_watermark emitted something at end of stream"
  ELSE IF Chk("C21") /\ cfg.op = "tumble" /\ ~done /\ ins # <<>> /\
          ~(LET m == ins[Len(ins)] IN
            IF IsWm(m) THEN stepOut = <<m>> ELSE Len(stepOut) = 1 /\ IsRec(stepOut[1]) /\ TumbleRowOk(cfg, m, stepOut[1]))
       THEN "C21: tumble window bounds / pass-through"
  ELSE IF Chk("C21") /\ cfg.op = "range" /\ done /\ stepOut # RangeOut(cfg) THEN "C21: range output"
  ELSE IF Chk("C21") /\ cfg.op = "poll" /\ done /\ stepOut # PollObserved(cfg) THEN "C21: poll rounds"
  ELSE ""
=============================================================================
