------------------------------- MODULE LogicCases -------------------------------
(* exports the C11 cases: SQL text of every tree (or a seeded sample) with the expected result vectors *)
EXTENDS Logic, Json, SequencesExt, Randomization

CONSTANTS Depth, Sample    \* Sample = 0: every tree of depth <= Depth; otherwise a random subset of that size (TLC -seed)

All == Trees(Depth)
Chosen == IF Sample = 0 \/ Sample >= Cardinality(All) THEN All ELSE RandomSubset(Sample, All)
CaseOf(t) == [sql |-> Render(t), expn |-> Vector(t, EnvsNullable), expnn |-> Vector(t, EnvsNonNull)]
ASSUME KleeneLaws
ASSUME ndJsonSerialize("c11_envs.ndjson", <<[nullable |-> EnvsNullable, nonnull |-> EnvsNonNull]>>)
ASSUME ndJsonSerialize("c11_cases.ndjson", SetToSeq({CaseOf(t) : t \in Chosen}))
ASSUME PrintT(<<"VP:trees", Cardinality(All), Cardinality(Chosen)>>)
VARIABLE x
Init == x = 0
Next == x' = x
=============================================================================
