--------------------------------- MODULE Lines ---------------------------------
(***************************************************************************)
(* C23 — the lines datasource splits its input exactly at the configured   *)
(* separator (datasources/lines/execution.go).  Content and separator are  *)
(* sequences of single-character strings.  Like bufio.ScanLines: a final   *)
(* token without a terminating separator is a row, a trailing separator    *)
(* does not create an empty last row, empty content has no rows.           *)
(***************************************************************************)
EXTENDS Integers, Sequences, FiniteSets, TLC, Json, SequencesExt

StartsAt(s, sep, i) == i + Len(sep) - 1 <= Len(s) /\ \A k \in 1..Len(sep) : s[i + k - 1] = sep[k]
RECURSIVE SplitFrom(_, _, _, _)
SplitFrom(s, sep, i, cur) ==      \* cur = the token collected so far
  IF i > Len(s) THEN (IF cur = <<>> THEN <<>> ELSE <<cur>>)
  ELSE IF StartsAt(s, sep, i) THEN <<cur>> \o SplitFrom(s, sep, i + Len(sep), <<>>)
  ELSE SplitFrom(s, sep, i + 1, Append(cur, s[i]))
Split(s, sep) == SplitFrom(s, sep, 1, <<>>)

Alphabet == {"x", ";", "|"}
RECURSIVE Strs(_)
Strs(n) == IF n = 0 THEN {<<>>} ELSE LET P == Strs(n - 1) IN P \cup {Append(s, c) : s \in {y \in P : Len(y) = n - 1}, c \in Alphabet}
Seps == {<<";">>, <<"|">>, <<";", "|">>, <<";", ";">>, <<"|", ";", "|">>}
CONSTANT MaxLen
SplitLaws == /\ Split(<<"x", ";", "x">>, <<";">>) = <<<<"x">>, <<"x">>>>
             /\ Split(<<"x", ";">>, <<";">>) = <<<<"x">>>>
             /\ Split(<<";", "x">>, <<";">>) = <<<<>>, <<"x">>>>
             /\ Split(<<"x", ";", "|", "x">>, <<";", "|">>) = <<<<"x">>, <<"x">>>>
             /\ Split(<<>>, <<";">>) = <<>>
ASSUME SplitLaws
ASSUME ndJsonSerialize("c23_lines.ndjson", SetToSeq({[s |-> s, sep |-> sep, rows |-> Split(s, sep)] : s \in Strs(MaxLen), sep \in Seps}))
VARIABLE x
Init == x = 0
Next == x' = x
=============================================================================
