--------------------------------- MODULE Lines ---------------------------------
(***************************************************************************)
(* C23 — the lines datasource splits its input exactly at the configured   *)
(* separator (datasources/lines/execution.go).  Content and separator are  *)
(* sequences of single-character strings.  Like bufio.ScanLines: a final   *)
(* token without a terminating separator is a row, a trailing separator    *)
(* does not create an empty last row, empty content has no rows.           *)
(***************************************************************************)
EXTENDS Integers, Sequences, FiniteSets, TLC, Json, SequencesExt

StartsAt(s, sep, i) == i + Len(sep) - 1 <= Len(s) /\ \A k \in 1..Len(sep) : s[i + k - 1] = sep[k]
RECURSIVE SplitFrom(_, _, _, _)
SplitFrom(s, sep, i, cur) ==      \* cur = the token collected so far
  IF i > Len(s) THEN (IF cur = <<>> THEN <<>> ELSE <<cur>>)
  ELSE IF StartsAt(s, sep, i) THEN <<cur>> \o SplitFrom(s, sep, i + Len(sep), <<>>)
  ELSE SplitFrom(s, sep, i + 1, Append(cur, s[i]))
Split(s, sep) == SplitFrom(s, sep, 1, <<>>)

Alphabet == {"x", ";", "|"}
RECURSIVE Strs(_)
Strs(n) == IF n = 0 THEN {<<>>} ELSE LET P == Strs(n - 1) IN P \cup {Append(s, c) : s \in {y \in P : Len(y) = n - 1}, c \in Alphabet}
Seps == {<<";">>, <<"|">>, <<";", "|">>, <<";", ";">>, <<"|", ";", "|">>}
CONSTANT MaxLen
SplitLaws == /\ Split(<<"x", ";", "x">>, <<";">>) = <<<<"x">>, <<"x">>>>
             /\ Split(<<"x", ";">>, <<";">>) = <<<<"x">>>>
             /\ Split(<<";", "x">>, <<";">>) = <<<<>>, <<"x">>>>
             /\ Split(<<"x", ";", "|", "x">>, <<";", "|">>) = <<<<"x">>, <<"x">>>>
             /\ Split(<<>>, <<";">>) = <<>>
ASSUME SplitLaws
ASSUME ndJsonSerialize("c23_lines.ndjson", SetToSeq({[s |-> s, sep |-> sep, rows |-> Split(s, sep)] : s \in Strs(MaxLen), sep \in Seps}))
(* ---- long inputs, in run-length form ----
   The scanner reads its input in pieces (4096 bytes at first, growing), so a multi-character separator can lie across the end of the data read
   so far; the rows must not depend on where those read edges fall.  A long content is described by the lengths of its rows, each row a run of
   "x" (a character no separator contains): by RunLemma - checked here on every small instance - such rows joined by the separator split into
   exactly those rows.  The driver materialises the runs. *)
Rep(c, n) == [i \in 1..n |-> c]
RECURSIVE JoinRows(_, _)
JoinRows(rows, sep) == IF rows = <<>> THEN <<>> ELSE IF Len(rows) = 1 THEN rows[1] ELSE rows[1] \o sep \o JoinRows(Tail(rows), sep)
RunRows(ls) == [i \in 1..Len(ls) |-> Rep("x", ls[i])]
RunLemma == \A sep \in Seps : \A ls \in [1..3 -> 0..2] : ls[3] > 0 => Split(JoinRows(RunRows(ls), sep), sep) = RunRows(ls)
ASSUME RunLemma
LongSeps == {sp \in Seps : Len(sp) >= 2}
Edges == {4096, 8192, 16384, 32768}      \* rows stay below the scanner's 64 KiB token limit (longer rows are an input fault, C06)
Tails == {<<1>>, <<0, 2>>, <<3, 0, 0, 1>>}
(* many short rows: every read edge has a good chance of cutting a separator *)
Short(n, a, b) == [i \in 1..n |-> IF i = n THEN 1 ELSE ((i * a + (i \div 7) * b) % 4)]
LongCases == {[runs |-> <<e - d>> \o t, sep |-> sp] : e \in Edges, d \in 0..4, sp \in LongSeps, t \in Tails}
             \cup {[runs |-> <<e - d, e - 3>> \o t, sep |-> sp] : e \in {4096}, d \in 0..4, sp \in LongSeps, t \in {<<1>>}}
             \cup {[runs |-> Short(20000, a, b), sep |-> sp] : a \in {1, 3}, b \in {1, 2}, sp \in LongSeps}
ASSUME ndJsonSerialize("c23_lines_long.ndjson", SetToSeq(LongCases))
VARIABLE x
Init == x = 0
Next == x' = x
=============================================================================
