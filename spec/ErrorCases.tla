------------------------------ MODULE ErrorCases ------------------------------
EXTENDS ErrorProp, Json, SequencesExt
CONSTANTS MaxH
N == 4
ASSUME DesignOk(MaxH, {})                             \* with no swallowing operator every reachable fault surfaces
ASSUME ~DesignOk(1, {"distinct"})                     \* ... and the property does depend on each operator forwarding errors
(* second fault kind: the source is healthy, but row p carries a value (a String where an Int is expected) on which the expression
   a + 1 evaluated *above* the chain fails its run-time type assertion.  The row reaches the top iff no LIMIT and no subquery
   expression (which replaces the rows) sits in between. *)
ExprMustFail(ch, p, n) == p <= n /\ \A i \in 1..Len(ch) : ~IsLimit(ch[i]) /\ ch[i] # "subq" /\ ch[i] # "map"
ExprChains == {ch \in Chains(MaxH) : \A i \in 1..Len(ch) : ch[i] # "map"}       \* "map" (a + 0) would already fail below
ASSUME ndJsonSerialize("c06_cases.ndjson", SetToSeq(
         {[kind |-> "source", chain |-> ch, p |-> p, n |-> N, sql |-> Render(ch), mustfail |-> MustFail(ch, p, N)] : ch \in Chains(MaxH), p \in 1..(N + 1)}
   \cup {[kind |-> "expr", chain |-> ch, p |-> p, n |-> N, sql |-> "SELECT a + 1 AS x FROM (" \o Render(ch) \o ") z", mustfail |-> ExprMustFail(ch, p, N)] :
           ch \in ExprChains, p \in 1..(N + 1)}))
VARIABLE x
Init == x = 0
Next == x' = x
=============================================================================
