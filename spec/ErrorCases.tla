------------------------------ MODULE ErrorCases ------------------------------
EXTENDS ErrorProp, Json, SequencesExt
CONSTANTS MaxH
N == 4
ASSUME DesignOk(MaxH, {})                             \* with no swallowing operator every reachable fault surfaces
ASSUME ~DesignOk(1, {"distinct"})                     \* ... and the property does depend on each operator forwarding errors
(* second fault kind: the source is healthy, but row p carries a value (a String where an Int is expected) on which the expression
   a + 1 evaluated *above* the chain fails its run-time type assertion.  The row reaches the top iff no LIMIT and no subquery
   expression (which replaces the rows) sits in between. *)
ExprMustFail(ch, p, n) == p <= n /\ \A i \in 1..Len(ch) : ~IsLimit(ch[i]) /\ ch[i] # "subq" /\ ch[i] # "map"
ExprChains == {ch \in Chains(MaxH) : \A i \in 1..Len(ch) : ch[i] # "map"}       \* "map" (a + 0) would already fail below
(* third family: long inputs.  MustFail does not depend on how far into the input the fault lies; the implementation has internal buffers
   (the 10 000-message channels between a stream join and its two input goroutines, the ORDER BY / GROUP BY state), so the fault is placed
   just beyond and far beyond them, below every operator and below / above the joins. *)
DeepN == 20000
DeepPs == {10001, 10002, 20000}
Joins == {"joinL", "joinR", "outerL"}
DeepChains == {<<o>> : o \in Ops} \cup {<<o1, o2>> : o1 \in Joins, o2 \in {"distinct", "groupby", "filter"}} \cup {<<o1, o2>> : o1 \in {"filter", "map"}, o2 \in Joins}
                \cup {<<o1, o2>> : o1 \in Joins, o2 \in Joins}
ASSUME \A ch \in DeepChains, p \in DeepPs : MustFail(ch, p, DeepN)        \* no LIMIT in these chains: every such fault must surface
ASSUME ndJsonSerialize("c06_cases.ndjson", SetToSeq(
         {[kind |-> "deep", chain |-> ch, p |-> p, n |-> DeepN, sql |-> Render(ch), mustfail |-> MustFail(ch, p, DeepN)] : ch \in DeepChains, p \in DeepPs} \cup
         {[kind |-> "source", chain |-> ch, p |-> p, n |-> N, sql |-> Render(ch), mustfail |-> MustFail(ch, p, N)] : ch \in Chains(MaxH), p \in 1..(N + 1)}
   \cup {[kind |-> "expr", chain |-> ch, p |-> p, n |-> N, sql |-> "SELECT a + 1 AS x FROM (" \o Render(ch) \o ") z", mustfail |-> ExprMustFail(ch, p, N)] :
           ch \in ExprChains, p \in 1..(N + 1)}))
VARIABLE x
Init == x = 0
Next == x' = x
=============================================================================
