--------------------------------- MODULE Types ---------------------------------
(***************************************************************************)
(* C10 — the type algebra (octosql/types.go) and Value.Type.               *)
(*                                                                         *)
(* Type terms:  [k |-> "prim", n |-> "Int"] ... | [k |-> "any"] |          *)
(*   [k |-> "listnone"] (list type without element, the type of [])  |     *)
(*   [k |-> "list", le |-> T] | [k |-> "obj", f |-> <<<<name, T>>, ...>>] |*)
(*   [k |-> "tuple", te |-> <<T, ...>>] | [k |-> "union", a |-> <<T, ...>>]*)
(*                                                                         *)
(* ValueInType is an independent, set-theoretic reading of a type term     *)
(* (which abstract values it admits).  The laws of the statement are       *)
(* evaluated by TLC on the results the *real* functions returned for every *)
(* pair of the type universe TU and every value of VU (TypesCheck.tla).    *)
(***************************************************************************)
EXTENDS Values

Prim(n)   == [k |-> "prim", n |-> n]
AnyT      == [k |-> "any"]
ListNone  == [k |-> "listnone"]
ListT(e)  == [k |-> "list", le |-> e]
ObjT(fs)  == [k |-> "obj", f |-> fs]
TupT(es)  == [k |-> "tuple", te |-> es]
UnionT(as) == [k |-> "union", a |-> as]

PrimNames == <<"Null", "Int", "Float", "Boolean", "String", "Time", "Duration">>     \* in TypeID order
Prims == {Prim(PrimNames[i]) : i \in 1..7}
P(n) == Prim(n)

(* normalised unions as TypeSum builds them: one alternative per type id, in type-id order *)
Lists  == {ListNone} \cup {ListT(p) : p \in {P("Int"), P("String"), P("Null")}} \cup {ListT(UnionT(<<P("Null"), P("Int")>>)), ListT(ListT(P("Int")))}
Objs   == {ObjT(<<<<"x", p>>>>) : p \in {P("Int"), P("String")}}
          \cup {ObjT(<<<<"x", P("Int")>>, <<"y", p>>>>) : p \in {P("Int"), P("String"), UnionT(<<P("Null"), P("Int")>>)}}
          \cup {ObjT(<<<<"y", P("Int")>>>>), ObjT(<<<<"y", P("Int")>>, <<"x", P("Int")>>>>)}
Tups   == {TupT(<<>>), TupT(<<P("Int")>>), TupT(<<P("String")>>), TupT(<<P("Int"), P("Int")>>), TupT(<<P("Int"), P("String")>>)}
Unions == {UnionT(<<P("Null"), p>>) : p \in Prims \ {P("Null")}}
          \cup {UnionT(<<P("Int"), P("Float")>>), UnionT(<<P("Int"), P("String")>>), UnionT(<<P("Null"), P("Int"), P("String")>>),
                UnionT(<<P("Null"), ListT(P("Int"))>>), UnionT(<<P("Int"), ListT(P("Int"))>>), UnionT(<<P("Null"), ObjT(<<<<"x", P("Int")>>>>)>>),
                UnionT(<<P("Int"), TupT(<<P("Int")>>)>>), UnionT(<<P("Null"), P("Int"), P("Float"), P("String")>>),
                \* unions with NULL last, as logical.TypecheckPossiblyNullableStruct and plugins build them by hand
                UnionT(<<ObjT(<<<<"x", P("Int")>>>>), P("Null")>>), UnionT(<<P("Int"), P("Null")>>)}
TU == Prims \cup {AnyT} \cup Lists \cup Objs \cup Tups \cup Unions

(* value universe for the denotation *)
VU == {NullV, IntV(0), IntV(7), FloatV(1, 2), BoolV(TRUE), StrV("a"), TimeV(1), DurV(1),
       ListV(<<>>), ListV(<<IntV(0)>>), ListV(<<StrV("a")>>), ListV(<<IntV(0), StrV("a")>>), ListV(<<NullV>>), ListV(<<NullV, IntV(1)>>), ListV(<<ListV(<<IntV(1)>>)>>),
       ObjV(<<IntV(0)>>), ObjV(<<StrV("a")>>), ObjV(<<IntV(0), IntV(1)>>), ObjV(<<IntV(0), StrV("a")>>), ObjV(<<IntV(0), NullV>>),
       TupV(<<>>), TupV(<<IntV(0)>>), TupV(<<StrV("a")>>), TupV(<<IntV(0), IntV(1)>>), TupV(<<IntV(0), StrV("a")>>)}

PrimOfValue(v) == CASE v.t = "null" -> "Null" [] v.t = "int" -> "Int" [] v.t \in {"float", "fsp"} -> "Float" [] v.t = "bool" -> "Boolean"
                    [] v.t = "str" -> "String" [] v.t = "time" -> "Time" [] v.t = "dur" -> "Duration" [] OTHER -> "composite"

RECURSIVE ValueInType(_, _)
ValueInType(v, T) ==
  CASE T.k = "any"      -> TRUE
    [] T.k = "prim"     -> PrimOfValue(v) = T.n
    [] T.k = "listnone" -> v.t = "list" /\ v.l = <<>>
    [] T.k = "list"     -> v.t = "list" /\ \A i \in 1..Len(v.l) : ValueInType(v.l[i], T.le)
    [] T.k = "obj"      -> v.t = "obj" /\ Len(v.o) = Len(T.f) /\ \A i \in 1..Len(v.o) : ValueInType(v.o[i], T.f[i][2])
    [] T.k = "tuple"    -> v.t = "tuple" /\ Len(v.tu) = Len(T.te) /\ \A i \in 1..Len(v.tu) : ValueInType(v.tu[i], T.te[i])
    [] T.k = "union"    -> \E i \in 1..Len(T.a) : ValueInType(v, T.a[i])
    [] OTHER            -> FALSE
Den(T) == {v \in VU : ValueInType(v, T)}

(* sanity of the reading itself: every type of TU except the empty tuple/... admits some value of VU, NULL only in Null/Any/unions with Null *)
DenSanity == /\ \A T \in TU : Den(T) # {}
             /\ \A T \in TU : (NullV \in Den(T)) <=> (T = P("Null") \/ T = AnyT \/ (T.k = "union" /\ \E i \in 1..Len(T.a) : T.a[i] = P("Null")))
=============================================================================
