-------------------------------- MODULE Strings --------------------------------
(***************************************************************************)
(* C12 — string and pattern functions (functions/functions.go).            *)
(*                                                                         *)
(* A string is a sequence of runes; a rune is written as a one-character   *)
(* TLA+ string, except "NL" (newline).  Sigma contains ASCII letters with  *)
(* case pairs, a digit, space, newline, every regular-expression           *)
(* metacharacter, the LIKE wildcards and escape, and 2-, 3- and 4-byte     *)
(* UTF-8 runes.  Where the function descriptions are silent (byte or rune  *)
(* indexing on multibyte text, empty search strings, negative indices) the *)
(* result is Unpinned and only "no panic" (C07) is required.               *)
(***************************************************************************)
EXTENDS Integers, Sequences, FiniteSets, TLC

Ascii   == {"a", "A", "b", "B", "0", " ", "NL", ".", "*", "+", "?", "(", ")", "[", "]", "{", "}", "^", "$", "|", "\\", "_", "%"}
Multi   == {"é", "É", "€", "😀"}
Sigma   == Ascii \cup Multi
Upper1(r) == CASE r = "a" -> "A" [] r = "b" -> "B" [] r = "é" -> "É" [] OTHER -> r
Lower1(r) == CASE r = "A" -> "a" [] r = "B" -> "b" [] r = "É" -> "é" [] OTHER -> r
IsAscii(s) == \A i \in 1..Len(s) : s[i] \in Ascii

Unpinned == [unpinned |-> TRUE]
StrR(s)  == [s |-> s]            \* a string result (sequence of runes)
IntR(n)  == [i |-> n]
BoolR(b) == [b |-> b]
NullR    == [null |-> TRUE]

UpperS(s)   == [i \in 1..Len(s) |-> Upper1(s[i])]
LowerS(s)   == [i \in 1..Len(s) |-> Lower1(s[i])]
ReverseS(s) == [i \in 1..Len(s) |-> s[Len(s) + 1 - i]]

StartsAt(s, sub, i) == i + Len(sub) - 1 <= Len(s) /\ \A k \in 1..Len(sub) : s[i + k - 1] = sub[k]
FirstAt(s, sub) == LET I == {i \in 1..(Len(s) + 1) : StartsAt(s, sub, i)} IN IF I = {} THEN 0 ELSE CHOOSE i \in I : \A j \in I : i <= j
RECURSIVE ReplaceFrom(_, _, _, _)
ReplaceFrom(s, old, new, i) ==       \* non-overlapping occurrences, left to right
  IF i > Len(s) THEN <<>>
  ELSE IF StartsAt(s, old, i) THEN new \o ReplaceFrom(s, old, new, i + Len(old))
  ELSE <<s[i]>> \o ReplaceFrom(s, old, new, i + 1)
ReplaceSpec(s, old, new) == IF old = <<>> THEN Unpinned ELSE StrR(ReplaceFrom(s, old, new, 1))
PositionSpec(s, sub) ==              \* zero-based index of the first occurrence, NULL when there is none
  LET p == FirstAt(s, sub) IN
  IF sub = <<>> THEN Unpinned
  ELSE IF p = 0 THEN NullR
  ELSE IF IsAscii(SubSeq(s, 1, p - 1)) THEN IntR(p - 1) ELSE Unpinned
LenSpec(s) == IF IsAscii(s) THEN IntR(Len(s)) ELSE Unpinned
SubstrSpec(s, i) == IF i < 0 \/ ~IsAscii(s) THEN Unpinned ELSE IF i >= Len(s) THEN StrR(<<>>) ELSE StrR(SubSeq(s, i + 1, Len(s)))
Substr3Spec(s, i, n) == IF i < 0 \/ n < 0 \/ ~IsAscii(s) THEN Unpinned
                        ELSE IF i >= Len(s) THEN StrR(<<>>)
                        ELSE StrR(SubSeq(s, i + 1, IF i + n > Len(s) THEN Len(s) ELSE i + n))

(* ---- LIKE: _ any single character, % any run of characters, \ escapes _ % \ ; every other character is literal ---- *)
RECURSIVE LikeItems(_)
LikeItems(p) ==      \* sequence of [k |-> "lit", r] | [k |-> "any"] | [k |-> "all"], or <<[k |-> "bad"]>> for an invalid escape
  IF p = <<>> THEN <<>>
  ELSE IF p[1] = "\\" THEN
         IF Len(p) < 2 \/ p[2] \notin {"_", "%", "\\"} THEN <<[k |-> "bad"]>>
         ELSE <<[k |-> "lit", r |-> p[2]]>> \o LikeItems(SubSeq(p, 3, Len(p)))
  ELSE IF p[1] = "_" THEN <<[k |-> "any"]>> \o LikeItems(Tail(p))
  ELSE IF p[1] = "%" THEN <<[k |-> "all"]>> \o LikeItems(Tail(p))
  ELSE <<[k |-> "lit", r |-> p[1]]>> \o LikeItems(Tail(p))
LikeValid(p) == \A i \in 1..Len(LikeItems(p)) : LikeItems(p)[i].k # "bad"
RECURSIVE MatchItems(_, _)
MatchItems(s, it) ==
  IF it = <<>> THEN s = <<>>
  ELSE CASE it[1].k = "lit" -> s # <<>> /\ s[1] = it[1].r /\ MatchItems(Tail(s), Tail(it))
         [] it[1].k = "any" -> s # <<>> /\ MatchItems(Tail(s), Tail(it))
         [] it[1].k = "all" -> \E k \in 0..Len(s) : MatchItems(SubSeq(s, k + 1, Len(s)), Tail(it))
         [] OTHER -> FALSE
LikeSpec(s, p) == IF LikeValid(p) THEN BoolR(MatchItems(s, LikeItems(p))) ELSE Unpinned

(* sanity of the specification itself *)
StringLaws ==
  /\ \A r \in Sigma : Lower1(Upper1(Lower1(r))) = Lower1(r)
  /\ LikeSpec(<<"a", "*">>, <<"a", "*">>) = BoolR(TRUE) /\ LikeSpec(<<"a", "a">>, <<"a", "*">>) = BoolR(FALSE)
  /\ LikeSpec(<<"a", "NL", "b">>, <<"a", "_", "b">>) = BoolR(TRUE)
  /\ LikeSpec(<<"%">>, <<"\\", "%">>) = BoolR(TRUE) /\ LikeSpec(<<"a">>, <<"\\", "%">>) = BoolR(FALSE)
  /\ ReverseS(<<"a", "é", "b">>) = <<"b", "é", "a">>
=============================================================================
