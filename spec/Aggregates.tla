------------------------------ MODULE Aggregates ------------------------------
(***************************************************************************)
(* C14 (and the aggregate part of C03/C16).                                *)
(*                                                                         *)
(* Layer P: the value an aggregate must report is a function of the *net  *)
(* multiset* (bag) of its inputs only:  AggOf(kind, bag).                  *)
(* Layer I: one state machine per aggregate shaped like the Go code in     *)
(* /repo/aggregates (running sum / running count / ordered multiset with   *)
(* per-value counts / distinct wrapper with per-value counts around another*)
(* aggregate).  TLC checks that Layer I refines Layer P on every valid     *)
(* history (never retract an absent value) up to MaxLen over Dom.          *)
(*                                                                         *)
(* Values are integer "atoms"; the harness maps an atom a to Int a, Float  *)
(* a/4 or Duration a ns (so float sums are exact and rational averages can *)
(* be compared exactly).                                                   *)
(***************************************************************************)
EXTENDS Integers, Sequences, FiniteSets, TLC, Json, SequencesExt

CONSTANTS Dom,      \* finite set of integer atoms
          MaxLen    \* bound on the history length

BaseKinds     == {"count", "sum", "avg", "min", "max", "array_agg"}
DistinctKinds == {"count_distinct", "sum_distinct", "avg_distinct", "array_agg_distinct"}
Kinds         == BaseKinds \cup DistinctKinds

BaseOf(kind) == CASE kind = "count_distinct"     -> "count"
                  [] kind = "sum_distinct"       -> "sum"
                  [] kind = "avg_distinct"       -> "avg"
                  [] kind = "array_agg_distinct" -> "array_agg"
                  [] OTHER                       -> kind

Ops == [r : BOOLEAN, v : Dom]

-----------------------------------------------------------------------------
(* bags *)
Bag0        == [v \in Dom |-> 0]
BagAdd(b, r, v) == [b EXCEPT ![v] = @ + (IF r THEN -1 ELSE 1)]
Support(b)      == [v \in Dom |-> IF b[v] > 0 THEN 1 ELSE 0]

RECURSIVE SumF(_, _)
SumF(f, S) == IF S = {} THEN 0 ELSE LET x == CHOOSE y \in S : TRUE IN f[x] + SumF(f, S \ {x})

Count(b) == SumF(b, Dom)
Total(b) == SumF([v \in Dom |-> v * b[v]], Dom)
TruncDiv(a, n) == IF a >= 0 THEN a \div n ELSE -((-a) \div n)
Present(b) == {v \in Dom : b[v] > 0}
MinOf(b) == CHOOSE v \in Present(b) : \A w \in Present(b) : v <= w
MaxOf(b) == CHOOSE v \in Present(b) : \A w \in Present(b) : v >= w
Rep(v, n) == [i \in 1..n |-> v]
RECURSIVE Asc(_, _)
Asc(b, S) == IF S = {} THEN <<>>
             ELSE LET m == CHOOSE v \in S : \A w \in S : v <= w IN Rep(m, b[m]) \o Asc(b, S \ {m})

(* results: Num(n, d, tr) is the rational n/d whose truncation toward zero is tr; Lst(l) a list of atoms *)
Num(n, d) == [n |-> n, d |-> d, tr |-> TruncDiv(n, d)]
Lst(l)    == [l |-> l]
None      == [none |-> TRUE]

(* ---- Layer P ---- *)
AggOfBase(base, b) ==
  CASE base = "count"     -> Num(Count(b), 1)
    [] base = "sum"       -> Num(Total(b), 1)
    [] base = "avg"       -> Num(Total(b), Count(b))
    [] base = "min"       -> Num(MinOf(b), 1)
    [] base = "max"       -> Num(MaxOf(b), 1)
    [] base = "array_agg" -> Lst(Asc(b, Present(b)))

AggOf(kind, b) == AggOfBase(BaseOf(kind), IF kind \in DistinctKinds THEN Support(b) ELSE b)

Expected(kind, b) == IF Count(b) > 0 THEN AggOf(kind, b) ELSE None

-----------------------------------------------------------------------------
(* ---- Layer I: shaped like /repo/aggregates/*.go ---- *)
IInitBase(base) ==
  CASE base = "count" -> [c |-> 0]
    [] base = "sum"   -> [s |-> 0]
    [] base = "avg"   -> [s |-> 0, c |-> 0]
    [] OTHER          -> [items |-> Bag0]          \* btree of (value, count); count 0 = absent

IAddBase(base, st, r, v) ==
  LET sg == IF r THEN -1 ELSE 1 IN
  CASE base = "count" -> [c |-> st.c + sg]
    [] base = "sum"   -> [s |-> st.s + sg * v]
    [] base = "avg"   -> [s |-> st.s + sg * v, c |-> st.c + sg]
    [] OTHER          -> [items |-> [st.items EXCEPT ![v] = @ + sg]]   \* deleted from the tree when it reaches 0

ITriggerBase(base, st) ==
  CASE base = "count"     -> Num(st.c, 1)
    [] base = "sum"       -> Num(st.s, 1)
    [] base = "avg"       -> Num(st.s, st.c)
    [] base = "min"       -> Num(MinOf(st.items), 1)
    [] base = "max"       -> Num(MaxOf(st.items), 1)
    [] base = "array_agg" -> Lst(Asc(st.items, Present(st.items)))

IInit(kind) == IF kind \in DistinctKinds THEN [seen |-> Bag0, w |-> IInitBase(BaseOf(kind))]
               ELSE IInitBase(kind)

(* aggregates/distinct.go: count++/--; forward an addition when the count becomes 1 on an addition, forward a
   retraction (and drop the entry) when it becomes 0 *)
IAdd(kind, st, r, v) ==
  IF kind \in DistinctKinds THEN
    LET c2 == st.seen[v] + (IF r THEN -1 ELSE 1) IN
    [seen |-> [st.seen EXCEPT ![v] = c2],
     w    |-> IF c2 = 1 /\ ~r THEN IAddBase(BaseOf(kind), st.w, FALSE, v)
              ELSE IF c2 = 0 THEN IAddBase(BaseOf(kind), st.w, TRUE, v)
              ELSE st.w]
  ELSE IAddBase(kind, st, r, v)

ITrigger(kind, st) == IF kind \in DistinctKinds THEN ITriggerBase(BaseOf(kind), st.w) ELSE ITriggerBase(kind, st)

-----------------------------------------------------------------------------
(* ---- the model: every valid history, path-exhaustive (hist is part of the state) ---- *)
VARIABLES hist, bag, impl
vars == <<hist, bag, impl>>

Init == hist = <<>> /\ bag = Bag0 /\ impl = [k \in Kinds |-> IInit(k)]

Step(o) == /\ Len(hist) < MaxLen
           /\ (o.r => bag[o.v] > 0)                       \* valid changelog: never retract an absent value
           /\ hist' = Append(hist, o)
           /\ bag'  = BagAdd(bag, o.r, o.v)
           /\ impl' = [k \in Kinds |-> IAdd(k, impl[k], o.r, o.v)]

Next == \E o \in Ops : Step(o)
Spec == Init /\ [][Next]_vars

Refines == Count(bag) > 0 => \A k \in Kinds : ITrigger(k, impl[k]) = AggOf(k, bag)
BagMatches == \A v \in Dom : bag[v] >= 0

-----------------------------------------------------------------------------
(* ---- case export for replay: all maximal valid histories with the expected value after every step ---- *)
RECURSIVE BagOfHist(_)
BagOfHist(h) == IF h = <<>> THEN Bag0 ELSE BagAdd(BagOfHist(Front(h)), Last(h).r, Last(h).v)

RECURSIVE Hists(_)
Hists(n) == IF n = 0 THEN {<<>>}
            ELSE {Append(p[1], p[2]) : p \in {q \in Hists(n - 1) \X Ops : ~q[2].r \/ BagOfHist(q[1])[q[2].v] > 0}}

CaseOf(h) == [h   |-> [i \in 1..Len(h) |-> [r |-> h[i].r, v |-> h[i].v]],
              exp |-> [k \in Kinds |-> [i \in 1..Len(h) |-> Expected(k, BagOfHist(SubSeq(h, 1, i)))]]]

ExportCases(file, n) == ndJsonSerialize(file, SetToSeq({CaseOf(h) : h \in Hists(n)}))
=============================================================================
