------------------------------- MODULE JoinTrace -------------------------------
(***************************************************************************)
(* Trace validation for the stream joins.  Events are recorded in the join *)
(* goroutine by the verif hook (consumption) and the produce/metaSend      *)
(* callbacks (emission), so their order is the join's own program order:   *)
(*   {"ev":"new","cfg":cfg}                                                *)
(*   {"ev":"recv","side":"L"|"R","msg":m,"out":[...]}                      *)
(*   {"ev":"close","side":s,"out":[...]}                                   *)
(* Layer P (verdict): JFail after every event.  Layer I (drift): JRecv /   *)
(* JClose predict the step output as a bag of messages.                    *)
(***************************************************************************)
EXTENDS StreamJoin, InputRules, Json

CONSTANT Check
Trace == ndJsonDeserialize("join_trace.ndjson")

VARIABLES l, cfg, recvL, recvR, closed, st, outs, snaps, bad, why, driftAt
tvars == <<l, cfg, recvL, recvR, closed, st, outs, snaps, bad, why, driftAt>>

Chk(tag) == tag \in Check
Dummy == [op |-> "sjoin", kind |-> "inner", lkey |-> <<1>>, rkey |-> <<1>>, lw |-> 1, rw |-> 1]
TInit == /\ l = 1 /\ cfg = Dummy /\ recvL = <<>> /\ recvR = <<>> /\ closed = [L |-> FALSE, R |-> FALSE]
         /\ st = JInit /\ outs = <<>> /\ snaps = <<>> /\ bad = 0 /\ why = "" /\ driftAt = 0

TNew == /\ l <= Len(Trace) /\ Trace[l].ev = "new"
        /\ cfg' = Trace[l].cfg /\ recvL' = <<>> /\ recvR' = <<>> /\ closed' = [L |-> FALSE, R |-> FALSE]
        /\ st' = JInit /\ outs' = <<>> /\ snaps' = <<>> /\ driftAt' = 0
        /\ l' = l + 1 /\ UNCHANGED <<bad, why>>

Observe(rl, rr, stepOut, done, pred) ==
  LET sn == snaps \o SnapsOf(Len(outs), stepOut, Len(rl), Len(rr))
      f0 == JFail(cfg, rl, rr, outs, stepOut, done, Chk)
      f  == IF f0 # "" \/ ~done THEN f0 ELSE JRetroFail(cfg, rl, rr, outs \o stepOut, sn, Chk) IN
  /\ snaps' = sn
  /\ outs' = outs \o stepOut
  /\ bad' = IF bad = 0 /\ f # "" THEN l ELSE bad
  /\ why' = IF bad = 0 /\ f # "" THEN f ELSE why
  /\ LET drift == driftAt = 0 /\ MsgBag(pred.out) # MsgBag(stepOut) IN
     /\ driftAt' = IF drift THEN l ELSE driftAt
     /\ drift => PrintT(<<"VP:drift", l>>)
  /\ st' = pred.st

TRecv == /\ l <= Len(Trace) /\ Trace[l].ev = "recv"
         /\ LET e  == Trace[l]
                rl == IF e.side = "L" THEN Append(recvL, e.msg) ELSE recvL
                rr == IF e.side = "R" THEN Append(recvR, e.msg) ELSE recvR IN
            /\ recvL' = rl /\ recvR' = rr
            /\ Observe(rl, rr, e.out, FALSE, IF driftAt = 0 THEN JRecv(cfg, st, e.side, e.msg) ELSE [st |-> st, out |-> e.out])
         /\ l' = l + 1 /\ UNCHANGED <<cfg, closed>>

TClose == /\ l <= Len(Trace) /\ Trace[l].ev = "close"
          /\ LET e  == Trace[l]
                 c2 == [closed EXCEPT ![e.side] = TRUE] IN
             /\ closed' = c2
             /\ Observe(recvL, recvR, e.out, c2["L"] /\ c2["R"], IF driftAt = 0 THEN JClose(cfg, st, e.side) ELSE [st |-> st, out |-> e.out])
          /\ l' = l + 1 /\ UNCHANGED <<cfg, recvL, recvR>>

TNext == TNew \/ TRecv \/ TClose
TSpec == TInit /\ [][TNext]_tvars
LayerP == bad = 0
InputOk == OkScript(recvL) /\ OkScript(recvR)
TraceAccepted == TLCGet("stats").diameter - 1 = Len(Trace)
=============================================================================
