------------------------------ MODULE TriggersMC ------------------------------
(* Model: every event history up to MaxLen for every trigger configuration of Cfgs; Layer I must stay within the
   Layer-P bounds.  The histories are exported for replay on the real trigger objects. *)
EXTENDS Triggers, Json, SequencesExt

CONSTANTS MaxLen

Keys == {<<TimeV(1), StrV("a")>>, <<TimeV(2), StrV("a")>>, <<TimeV(2), StrV("b")>>}
Cfgs == { <<[k |-> "count", n |-> 1]>>, <<[k |-> "count", n |-> 2]>>, <<[k |-> "count", n |-> 3]>>,
          <<[k |-> "wm"]>>, <<[k |-> "eos"]>>,
          <<[k |-> "count", n |-> 2], [k |-> "wm"]>>, <<[k |-> "wm"], [k |-> "eos"]>>,
          <<[k |-> "count", n |-> 2], [k |-> "eos"]>>, <<[k |-> "count", n |-> 3], [k |-> "wm"], [k |-> "eos"]>> }

KeyEv(k) == [e |-> "key", key |-> k]
WmEv(w)  == [e |-> "wm", w |-> w]
EosEv    == [e |-> "eos"]
Events(h) == {KeyEv(k) : k \in Keys} \cup {WmEv(w) : w \in {x \in 1..2 : x >= WmOf(h)}} \cup {EosEv}

VARIABLES cfg, h, s, polled
vars == <<cfg, h, s, polled>>

Init == cfg \in Cfgs /\ h = <<>> /\ s = TrInit(cfg) /\ polled = {}

Do(ev) == /\ Len(h) < MaxLen /\ ~EosIn(h)
          /\ LET s1 == CASE ev.e = "key" -> TrKey(cfg, s, ev.key)
                         [] ev.e = "wm"  -> TrWm(cfg, s, ev.w)
                         [] ev.e = "eos" -> TrEos(cfg, s)
                 p  == TrPoll(cfg, s1) IN
             /\ s' = p.s /\ polled' = SeqToSet(p.out)
          /\ h' = Append(h, ev) /\ UNCHANGED cfg

Next == \E ev \in Events(h) : Do(ev)
Spec == Init /\ [][Next]_vars

Bounds == h # <<>> => (Must(cfg, h) \subseteq polled /\ polled \subseteq May(cfg, h))

RECURSIVE Hists(_)
Hists(n) == IF n = 0 THEN {<<>>}
            ELSE LET P == Hists(n - 1) IN
                 {x \in P : EosIn(x)} \cup UNION {{Append(x, ev) : ev \in Events(x)} : x \in {y \in P : ~EosIn(y) /\ Len(y) = n - 1}}
                 \cup {x \in P : FALSE}
Maximal(n) == {x \in Hists(n) : Len(x) = n \/ EosIn(x)}
ExportHists(file, n) == ndJsonSerialize(file, SetToSeq({[cfg |-> c, h |-> x] : c \in Cfgs, x \in Maximal(n)}))
ASSUME ExportHists("trig_hists.ndjson", MaxLen)
=============================================================================
