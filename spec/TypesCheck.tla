------------------------------ MODULE TypesCheck ------------------------------
(***************************************************************************)
(* C10 on observed results.  "export": writes TU and VU.  "check": reads   *)
(*   {"k":"pair","a":i,"b":j,"is":r,"a_is_sum":r,"b_is_sum":r,"sum":T,     *)
(*    "sum_comm":BOOLEAN,"inter_nil":BOOLEAN,"inter":T,"inter_is_a":r,     *)
(*    "inter_is_b":r}          (r: 0 isn't, 1 maybe, 2 is)                 *)
(*   {"k":"type","a":i,"refl":r,"idem":BOOLEAN,"nn":T}                      *)
(*   {"k":"value","v":j,"type":T,"self_is":r}                               *)
(* and writes the violated law instances to c10_viol.ndjson.               *)
(***************************************************************************)
EXTENDS Types, Json, SequencesExt

CONSTANT Mode
TSeq == SetToSeq(TU)
VSeq == SetToSeq(VU)
NT == Len(TSeq)
Obs == IF Mode = "check" THEN ndJsonDeserialize("c10_obs.ndjson") ELSE <<>>
Pairs  == {i \in 1..Len(Obs) : Obs[i].k = "pair"}
TypesO == {i \in 1..Len(Obs) : Obs[i].k = "type"}
ValsO  == {i \in 1..Len(Obs) : Obs[i].k = "value"}

Vi(law, i, extra) == [law |-> law, obs |-> Obs[i], extra |-> extra]
TA(i) == TSeq[Obs[i].a]
TB(i) == TSeq[Obs[i].b]

Violations ==
     {Vi("reflexive: t.Is(t) = Is", i, TA(i)) : i \in {k \in TypesO : Obs[k].refl # 2}}
\cup {Vi("TypeSum(a,b) is an upper bound of a", i, <<TA(i), TB(i)>>) : i \in {k \in Pairs : Obs[k].a_is_sum # 2}}
\cup {Vi("TypeSum(a,b) is an upper bound of b", i, <<TA(i), TB(i)>>) : i \in {k \in Pairs : Obs[k].b_is_sum # 2}}
\cup {Vi("TypeSum is commutative up to Equals", i, <<TA(i), TB(i)>>) : i \in {k \in Pairs : ~Obs[k].sum_comm}}
\cup {Vi("TypeSum is idempotent up to Equals", i, TA(i)) : i \in {k \in TypesO : ~Obs[k].idem}}
\cup {Vi("TypeIntersection(a,b) is contained in a", i, <<TA(i), TB(i)>>) : i \in {k \in Pairs : ~Obs[k].inter_nil /\ Obs[k].inter_is_a # 2}}
\cup {Vi("TypeIntersection(a,b) is contained in b", i, <<TA(i), TB(i)>>) : i \in {k \in Pairs : ~Obs[k].inter_nil /\ Obs[k].inter_is_b # 2}}
\cup {Vi("a.Is(b) = Is implies every value of a is a value of b", i, <<TA(i), TB(i)>>) :
        i \in {k \in Pairs : Obs[k].is = 2 /\ ~(Den(TA(k)) \subseteq Den(TB(k)))}}
\cup {Vi("every value of a is a value of TypeSum(a,b)", i, <<TA(i), TB(i)>>) :
        i \in {k \in Pairs : ~((Den(TA(k)) \cup Den(TB(k))) \subseteq Den(Obs[k].sum))}}
\cup {Vi("every value of TypeIntersection(a,b) is a value of a and of b", i, <<TA(i), TB(i)>>) :
        i \in {k \in Pairs : ~Obs[k].inter_nil /\ ~(Den(Obs[k].inter) \subseteq (Den(TA(k)) \cap Den(TB(k))))}}
\cup {Vi("NonNullable removes exactly NULL", i, TA(i)) :
        i \in {k \in TypesO : TA(k).k = "union" /\ Den(Obs[k].nn) # (Den(TA(k)) \ {NullV})}}
\cup {Vi("NonNullable leaves a non-union type unchanged", i, TA(i)) : i \in {k \in TypesO : TA(k).k # "union" /\ Obs[k].nn # TA(k)}}
\cup {Vi("a value matches the type it reports", i, VSeq[Obs[i].v]) : i \in {k \in ValsO : ~ValueInType(VSeq[Obs[k].v], Obs[k].type)}}

ASSUME Mode = "export" => ndJsonSerialize("c10_types.ndjson", [i \in 1..NT |-> [id |-> i, t |-> TSeq[i]]])
ASSUME Mode = "export" => ndJsonSerialize("c10_values.ndjson", [i \in 1..Len(VSeq) |-> [id |-> i, v |-> VSeq[i]]])
ASSUME Mode = "export" => DenSanity
ASSUME Mode = "check" => ndJsonSerialize("c10_viol.ndjson", SetToSeq(Violations))
ASSUME Mode = "check" => PrintT(<<"VP:obs", Len(Obs), NT>>)

VARIABLE x
Init == x = 0
Next == x' = x
=============================================================================
