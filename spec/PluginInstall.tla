---------------------------- MODULE PluginInstall ----------------------------
(***************************************************************************)
(* C27 — `octosql plugin install` and `octosql plugin repository add`      *)
(* killed at any point (plugins/manager/manager.go Install,                *)
(* plugins/manager/extensions.go, plugins/repository/repository.go,        *)
(* config.WriteFileAtomically, cmd/root.go start-up).                      *)
(*                                                                         *)
(* Abstract file system state:                                             *)
(*   ver[v]   state of the version directory v of the plugin               *)
(*            (v = "old": a lower version, "new": the version installed)   *)
(*   staging  state of the hidden staging directory (design "staged")      *)
(*   stray    a non-version entry lies in the plugin directory             *)
(*   reg      the file extension registry; regtmp its temporary file       *)
(*   repo     the repository entry file; repotmp its temporary file        *)
(* Directory states: absent, empty, archive_partial, archive_full,         *)
(* extracted_partial (binary truncated), extracted (binary complete,       *)
(* archive still there), complete.                                         *)
(*                                                                         *)
(* The procedure is a sequence of steps, one per file system operation of  *)
(* the code (Steps); a kill may happen before any step and in the middle   *)
(* of the three long ones (download, unarchive, file write).  Design       *)
(* "inplace" is the code as pinned, "staged" the repaired code.            *)
(*                                                                         *)
(* Layer P, evaluated on the state a kill leaves behind (CrashSafe):       *)
(*   - start-up still works: the registry parses or is absent, every entry *)
(*     of the plugin directory that is listed is a version;                *)
(*   - the database configured for the plugin resolves (highest listed     *)
(*     version) to a runnable directory whenever one was runnable before;  *)
(*     nothing half-installed is ever listed;                              *)
(*   - every extension the registry maps to the plugin finds it runnable;  *)
(*   - the repository entry parses or is absent.                           *)
(***************************************************************************)
EXTENDS Integers, Sequences, FiniteSets, TLC

CONSTANTS Design,            \* "inplace" | "staged"
          Priors             \* subset of {"none", "older", "same"}

Runnable(d) == d \in {"extracted", "complete"}
Listed(d)   == d # "absent"

InstallSteps ==
  IF Design = "inplace"
  THEN <<"remove-old", "mkdir", "create-archive", "download", "unarchive", "remove-archive", "write-registry">>
  ELSE <<"mkdir-staging", "create-archive", "download", "unarchive", "remove-archive", "remove-old", "rename", "write-registry-tmp", "rename-registry">>
RepoSteps == IF Design = "inplace" THEN <<"write-repo">> ELSE <<"write-repo-tmp", "rename-repo">>
Long == {"download", "unarchive", "write-registry", "write-registry-tmp", "write-repo", "write-repo-tmp"}   \* steps a kill can interrupt half way

Prior(p) ==
  [ver |-> [old |-> IF p = "older" THEN "complete" ELSE "absent", new |-> IF p = "same" THEN "complete" ELSE "absent"],
   staging |-> "absent", stray |-> FALSE, reg |-> "old", regtmp |-> "absent", repo |-> "absent", repotmp |-> "absent"]

(* the effect of one complete step; target = the directory the archive is unpacked in *)
Apply(s, step) ==
  CASE step = "remove-old"     -> [s EXCEPT !.ver.new = "absent"]
    [] step = "mkdir"          -> [s EXCEPT !.ver.new = "empty"]
    [] step = "mkdir-staging"  -> [s EXCEPT !.staging = "empty"]
    [] step = "create-archive" -> IF Design = "inplace" THEN [s EXCEPT !.ver.new = "archive_partial"] ELSE [s EXCEPT !.staging = "archive_partial"]
    [] step = "download"       -> IF Design = "inplace" THEN [s EXCEPT !.ver.new = "archive_full"] ELSE [s EXCEPT !.staging = "archive_full"]
    [] step = "unarchive"      -> IF Design = "inplace" THEN [s EXCEPT !.ver.new = "extracted"] ELSE [s EXCEPT !.staging = "extracted"]
    [] step = "remove-archive" -> IF Design = "inplace" THEN [s EXCEPT !.ver.new = "complete"] ELSE [s EXCEPT !.staging = "complete"]
    [] step = "rename"         -> [s EXCEPT !.ver.new = s.staging, !.staging = "absent"]
    [] step = "write-registry" -> [s EXCEPT !.reg = "new"]
    [] step = "write-registry-tmp" -> [s EXCEPT !.regtmp = "full"]
    [] step = "rename-registry"    -> [s EXCEPT !.reg = "new", !.regtmp = "absent"]
    [] step = "write-repo"     -> [s EXCEPT !.repo = "ok"]
    [] step = "write-repo-tmp" -> [s EXCEPT !.repotmp = "full"]
    [] step = "rename-repo"    -> [s EXCEPT !.repo = "ok", !.repotmp = "absent"]
(* the effect of a kill in the middle of a long step *)
Half(s, step) ==
  CASE step = "download"       -> s         \* the archive stays partial
    [] step = "unarchive"      -> IF Design = "inplace" THEN [s EXCEPT !.ver.new = "extracted_partial"] ELSE [s EXCEPT !.staging = "extracted_partial"]
    [] step = "write-registry" -> [s EXCEPT !.reg = "torn"]
    [] step = "write-registry-tmp" -> [s EXCEPT !.regtmp = "torn"]
    [] step = "write-repo"     -> [s EXCEPT !.repo = "torn"]
    [] step = "write-repo-tmp" -> [s EXCEPT !.repotmp = "torn"]

VARIABLES fs, pc, op, prior, killed
vars == <<fs, pc, op, prior, killed>>
StepsOf(o) == IF o = "install" THEN InstallSteps ELSE RepoSteps

Init == /\ prior \in Priors /\ op \in {"install", "repo-add"} /\ fs = Prior(prior) /\ pc = 1 /\ killed = FALSE
Step == /\ ~killed /\ pc <= Len(StepsOf(op))
        /\ fs' = Apply(fs, StepsOf(op)[pc]) /\ pc' = pc + 1 /\ UNCHANGED <<op, prior, killed>>
Kill == /\ ~killed /\ killed' = TRUE /\ UNCHANGED <<fs, pc, op, prior>>                       \* between two steps (also before the first, after the last)
KillInside == /\ ~killed /\ pc <= Len(StepsOf(op)) /\ StepsOf(op)[pc] \in Long
              /\ fs' = Half(fs, StepsOf(op)[pc]) /\ killed' = TRUE /\ UNCHANGED <<pc, op, prior>>
Next == Step \/ Kill \/ KillInside
Spec == Init /\ [][Next]_vars

(* ------------------------------------------------------------------ Layer P ------------------------------------------------------------------ *)
StartsOK(s)   == s.reg # "torn" /\ ~s.stray
RepoOK(s)     == s.repo # "torn"
Resolved(s)   == IF Listed(s.ver.new) THEN s.ver.new ELSE s.ver.old          \* the directory the highest listed version points to
HadRunnable(p) == p \in {"older", "same"}
ResolvesOK(s, p) == IF HadRunnable(p) THEN Runnable(Resolved(s)) ELSE (~Listed(s.ver.new) \/ Runnable(s.ver.new))
RegistryOK(s) == s.reg = "new" => Runnable(Resolved(s))
Safe(s, p)    == StartsOK(s) /\ RepoOK(s) /\ ResolvesOK(s, p) /\ RegistryOK(s)
(* the one window the repaired design leaves open: re-installing the version that is already installed, killed between removing the old
   directory and renaming the staged one into place (a directory cannot be replaced atomically) *)
ReinstallWindow(s, p) == Design = "staged" /\ p = "same" /\ s.ver.new = "absent" /\ s.staging = "complete"
CrashSafe == killed => (Safe(fs, prior) \/ ReinstallWindow(fs, prior))
Completes == (~killed /\ pc > Len(StepsOf(op)) /\ op = "install") => (fs.ver.new = "complete" /\ fs.reg = "new" /\ fs.staging = "absent")
=============================================================================
