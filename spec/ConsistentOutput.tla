--------------------------- MODULE ConsistentOutput ---------------------------
(***************************************************************************)
(* C22 — outputs/stream/internally_consistent_output_stream_wrapper.go.    *)
(* cfg = [op |-> "cout"].                                                  *)
(* Layer I: pending list; on watermark w the records with event time > w   *)
(* stay pending, the others are emitted in arrival order except that an    *)
(* addition is cancelled against the first later, not yet used retraction  *)
(* of the same row that is also being flushed.                             *)
(* Layer P: each time watermark W is forwarded the consolidated output     *)
(* equals ConsUpTo(input, W); nothing is emitted that was not received     *)
(* (as full records: values, sign, event time); at end of stream the       *)
(* consolidated output equals the consolidated input.                      *)
(***************************************************************************)
EXTENDS Changelog

(* flush the sub-sequence p (records at or below the watermark, in arrival order) *)
RECURSIVE FlushFrom(_, _, _)
FlushFrom(p, i, crossed) ==
  IF i > Len(p) THEN <<>>
  ELSE IF i \in crossed THEN FlushFrom(p, i + 1, crossed)
  ELSE IF ~p[i].r THEN
         LET J == {j \in (i + 1)..Len(p) : p[j].r /\ p[j].v = p[i].v /\ j \notin crossed} IN
         IF J = {} THEN <<p[i]>> \o FlushFrom(p, i + 1, crossed)
         ELSE FlushFrom(p, i + 1, crossed \cup {i, CHOOSE j \in J : \A k \in J : j <= k})
       ELSE <<p[i]>> \o FlushFrom(p, i + 1, crossed)

CoutStep(cfg, st, msg) ==
  IF IsRec(msg) THEN [st |-> Append(st, msg), out |-> <<>>]
  ELSE [st |-> SelectSeq(st, LAMBDA m : m.t > msg.w),
        out |-> FlushFrom(SelectSeq(st, LAMBDA m : m.t <= msg.w), 1, {}) \o <<msg>>]
CoutEos(cfg, st) == [st |-> <<>>, out |-> FlushFrom(st, 1, {})]

CountMsg(s, m) == Cardinality({i \in 1..Len(s) : s[i] = m})

C22Fail(ins, outsBefore, stepOut, done) ==
  LET outs == outsBefore \o stepOut
      n0   == Len(outsBefore)
  IN
  IF \E i \in 1..Len(stepOut) : IsRec(stepOut[i]) /\ CountMsg(outs, stepOut[i]) > CountMsg(ins, stepOut[i])
  THEN "C22: emitted a record that was not in the input"
  ELSE IF \E j \in 1..Len(stepOut) : IsWm(stepOut[j]) /\ Consol(SubSeq(outs, 1, n0 + j)) # ConsUpTo(ins, stepOut[j].w)
  THEN "C22: at a forwarded watermark the consolidated output differs from the consolidated input at or below it"
  ELSE IF done /\ Consol(outs) # Consol(ins) THEN "C22: not everything was emitted by end of stream"
  ELSE ""
=============================================================================
