----------------------------- MODULE OutputFormat -----------------------------
(***************************************************************************)
(* C25 — what `-o json` and `-o csv` must print for a result row           *)
(* (outputs/formats/json_format.go ValueToJson, csv_format.go              *)
(* FormatCSVValue).                                                        *)
(*                                                                         *)
(* A value is the abstract value of the harness encoding (t = null | int | *)
(* float | fsp | bool | str | time | dur | list | obj | tuple).  A string  *)
(* is a sequence of tokens (one token = one rune or one byte class, the    *)
(* harness owns the byte table); a finite float is a decimal literal.      *)
(*                                                                         *)
(* JsonView(v, ty) is the JSON document the line must decode to:           *)
(*   null -> null, Int -> the same integer, Float -> the same number,      *)
(*   Boolean -> true/false, String -> the same string, list -> array,      *)
(*   object -> object keyed by the field names of the (matching            *)
(*   alternative of the) type, tuple -> array.                             *)
(* Times and durations must be JSON strings; their text is not pinned by   *)
(* the statement.  NaN and the infinities have no JSON number: the line    *)
(* must still be valid JSON (class "nonfinite", reported separately).      *)
(* CsvView(v) is the text of the CSV field: NULL -> empty, scalars -> the  *)
(* text that reads back as the value.                                      *)
(***************************************************************************)
EXTENDS Integers, Sequences, FiniteSets, TLC, Json, SequencesExt

CONSTANTS N,        \* rows to export
          Depth     \* nesting depth of generated values

Toks == {"a", "Z", "0", "SP", "QUOTE", "APOS", "COMMA", "SEMI", "NL", "CR", "TAB", "NUL", "BEL", "VT", "FF", "BKSP", "ESC", "US", "BSLASH", "SLASH",
         "DEL", "LT", "AMP", "LBRACE", "RBRACK", "COLON", "HASH", "NBSP", "SHY", "U2028", "BOM", "EACUTE", "EURO", "SMILE", "PUA", "PUA2",
         "wNULL", "wTRUE", "wONE", "wFLOAT", "wNAN"}
BadToks == {"XFF", "XC3"}            \* bytes that are not valid UTF-8 (no JSON string can carry them; reported as their own class)

Prim(n)    == [k |-> "prim", n |-> n]
NullV      == [t |-> "null"]
Ints       == {[t |-> "int", i |-> n] : n \in {-2147483647, -1, 0, 1, 7, 1000000, 2147483647}}
              \cup {[t |-> "int", hi |-> p[1], lo |-> p[2]] : p \in {<<2097152, 0>>, <<2097152, 1>>, <<-2097152, 0>>, <<-2097153, 2147483647>>, <<1, 0>>, <<232830643, 1000000007>>}}
              \cup {[t |-> "int", big |-> "min64"], [t |-> "int", big |-> "max64"]}
FloatLits  == {"0.5", "-0.5", "0.1", "3", "-3", "1000000", "1e15", "1e16", "1e20", "1e21", "1e22", "1e300", "-1e300", "1.7976931348623157e308", "5e-324", "1e-320",
               "2.2250738585072014e-308", "1e-7", "1e-6", "0.000001234", "123456789.125", "9007199254740993", "9223372036854775807", "1e19", "-1e19",
               "18446744073709551616", "0.30000000000000004", "2.5e-5", "4.35", "100", "1e2"}
Floats     == {[t |-> "float", lit |-> s] : s \in FloatLits} \cup {[t |-> "fsp", s |-> "-0"], [t |-> "fsp", s |-> "+0"]}
NonFinite  == {[t |-> "fsp", s |-> "nan"], [t |-> "fsp", s |-> "+inf"], [t |-> "fsp", s |-> "-inf"]}
Bools      == {[t |-> "bool", b |-> TRUE], [t |-> "bool", b |-> FALSE]}
Times      == {[t |-> "time", ts |-> n] : n \in {0, 1, 86399, 1000000000}}
Durs       == {[t |-> "dur", du |-> n] : n \in {0, 1, 1500, 1000000000}}

(* sequences are built with Append so that every random draw is made exactly once (a function constructor may be evaluated lazily) *)
RECURSIVE TokSeq(_)
TokSeq(n) == IF n = 0 THEN <<>> ELSE Append(TokSeq(n - 1), RandomElement(Toks))
MkStr(i) == [t |-> "str", toks |-> TokSeq(RandomElement({0, 1, 2, 3, 5}))]
RECURSIVE TokSeqAsStrs(_)
TokSeqAsStrs(n) == IF n = 0 THEN <<>> ELSE Append(TokSeqAsStrs(n - 1), [t |-> "str", toks |-> TokSeq(RandomElement(0..2))])
MkBadStr(i) == [t |-> "str", toks |-> <<RandomElement(Toks), RandomElement(BadToks), RandomElement(Toks)>>]

ScalarKinds == {"null", "int", "float", "bool", "str", "time", "dur"}
MkScalar(kind, i) ==
  CASE kind = "null"  -> [v |-> NullV, ty |-> Prim("Null")]
    [] kind = "int"   -> [v |-> RandomElement(Ints), ty |-> Prim("Int")]
    [] kind = "float" -> [v |-> RandomElement(Floats), ty |-> Prim("Float")]
    [] kind = "bool"  -> [v |-> RandomElement(Bools), ty |-> Prim("Boolean")]
    [] kind = "str"   -> [v |-> MkStr(i), ty |-> Prim("String")]
    [] kind = "time"  -> [v |-> RandomElement(Times), ty |-> Prim("Time")]
    [] kind = "dur"   -> [v |-> RandomElement(Durs), ty |-> Prim("Duration")]
    [] kind = "nonfinite" -> [v |-> RandomElement(NonFinite), ty |-> Prim("Float")]
    [] kind = "badstr" -> [v |-> MkBadStr(i), ty |-> Prim("String")]

(* the type of a collection of typed values: the single type, or the union of the distinct ones (Null first, as Types.Sum builds it).  *)
(* Two different composite alternatives of the same kind never meet in one union: the datasources merge such shapes (precondition).   *)
KindOf(ty) == IF ty.k = "prim" THEN ty.n ELSE IF ty.k = "listnone" THEN "list" ELSE ty.k
RECURSIVE Dedupe(_, _)
Dedupe(seq, seen) == IF seq = <<>> THEN <<>> ELSE IF KindOf(Head(seq)) \in seen THEN Dedupe(Tail(seq), seen) ELSE <<Head(seq)>> \o Dedupe(Tail(seq), seen \cup {KindOf(Head(seq))})
NullFirst(seq) == SelectSeq(seq, LAMBDA x : KindOf(x) = "Null") \o SelectSeq(seq, LAMBDA x : KindOf(x) # "Null")
SumOf(tys) == LET d == NullFirst(Dedupe(tys, {})) IN IF Len(d) = 1 THEN d[1] ELSE [k |-> "union", a |-> d]
(* element i keeps its value only when it is the first of its kind or has the same type as the first of its kind *)
Compatible(tvs) == \A i, j \in 1..Len(tvs) : KindOf(tvs[i].ty) = KindOf(tvs[j].ty) => tvs[i].ty = tvs[j].ty

FieldNames == <<"a", "b", "k v", "é", "x\"y">>
RECURSIVE MkTV(_, _), MkTVs(_, _, _)
MkTVs(n, d, i) == IF n = 0 THEN <<>> ELSE Append(MkTVs(n - 1, d, i), MkTV(d, i * 10 + n))
MkTV(d, i) ==
  LET kind == IF d = 0 THEN RandomElement(ScalarKinds) ELSE <<"str", "float", "int", "null", "list", "list", "obj", "obj", "tuple", "bool", "time", "dur">>[RandomElement(1..12)] IN
  IF kind \in ScalarKinds THEN MkScalar(kind, i)
  ELSE LET n   == RandomElement(IF kind = "list" THEN 0..3 ELSE 1..3)
           raw == MkTVs(n, d - 1, i)
           tvs == IF kind # "list" \/ Compatible(raw) THEN raw ELSE [k \in 1..n |-> raw[1]]
           vs  == [k \in 1..n |-> tvs[k].v]
       IN CASE kind = "list"  -> [v |-> [t |-> "list", l |-> vs], ty |-> IF n = 0 THEN [k |-> "listnone"] ELSE [k |-> "list", le |-> SumOf([k \in 1..n |-> tvs[k].ty])]]
            [] kind = "obj"   -> [v |-> [t |-> "obj", o |-> vs], ty |-> [k |-> "obj", f |-> [k \in 1..n |-> <<FieldNames[k], tvs[k].ty>>]]]
            [] kind = "tuple" -> [v |-> [t |-> "tuple", tu |-> vs], ty |-> [k |-> "tuple", te |-> [k \in 1..n |-> tvs[k].ty]]]

(* a column: its declared type is the value's type, or a union that contains it (nullable column, Int | String column) *)
Widen(ty, i) ==
  LET w == <<"same", "same", "nullable", "mixed">>[RandomElement(1..4)] IN
  IF w = "same" \/ ty.k = "union" THEN ty
  ELSE IF w = "nullable" THEN SumOf(<<Prim("Null"), ty>>)
  ELSE SumOf(<<ty, RandomElement({Prim("Int"), Prim("String"), Prim("Float")})>>)

(* ------------------------------------------------------------------ the views ------------------------------------------------------ *)
AltFor(ty, v) ==     \* the alternative of a union type the value belongs to
  LET want == CASE v.t = "null" -> "Null" [] v.t = "int" -> "Int" [] v.t \in {"float", "fsp"} -> "Float" [] v.t = "bool" -> "Boolean" [] v.t = "str" -> "String"
                [] v.t = "time" -> "Time" [] v.t = "dur" -> "Duration" [] v.t = "list" -> "list" [] v.t = "obj" -> "obj" [] v.t = "tuple" -> "tuple"
  IN IF ty.k # "union" THEN ty
     ELSE LET I == {j \in 1..Len(ty.a) : KindOf(ty.a[j]) = want} IN ty.a[CHOOSE j \in I : TRUE]

RECURSIVE JsonView(_, _)
JsonView(v, ty0) ==
  LET ty == AltFor(ty0, v) IN
  CASE v.t = "null"  -> [j |-> "null"]
    [] v.t = "int"   -> [j |-> "int", v |-> v]
    [] v.t = "float" -> [j |-> "num", lit |-> v.lit]
    [] v.t = "fsp"   -> IF v.s \in {"-0", "+0"} THEN [j |-> "num", lit |-> "0"] ELSE [j |-> "nonfinite"]
    [] v.t = "bool"  -> [j |-> "bool", b |-> v.b]
    [] v.t = "str"   -> [j |-> "str", toks |-> v.toks]
    [] v.t \in {"time", "dur"} -> [j |-> "anystring"]
    [] v.t = "list"  -> [j |-> "arr", l |-> [k \in 1..Len(v.l) |-> JsonView(v.l[k], IF ty.k = "listnone" THEN Prim("Null") ELSE ty.le)]]
    [] v.t = "tuple" -> [j |-> "arr", l |-> [k \in 1..Len(v.tu) |-> JsonView(v.tu[k], ty.te[k])]]
    [] v.t = "obj"   -> [j |-> "obj", names |-> [k \in 1..Len(v.o) |-> ty.f[k][1]], l |-> [k \in 1..Len(v.o) |-> JsonView(v.o[k], ty.f[k][2])]]

IsScalar(v) == v.t \notin {"list", "obj", "tuple"}
CsvView(v) ==
  CASE v.t = "null"  -> [c |-> "empty"]
    [] v.t = "int"   -> [c |-> "int", v |-> v]
    [] v.t = "float" -> [c |-> "num", lit |-> v.lit]
    [] v.t = "fsp"   -> IF v.s \in {"-0", "+0"} THEN [c |-> "num", lit |-> "0"] ELSE [c |-> "nonfinite"]
    [] v.t = "bool"  -> [c |-> "text", text |-> IF v.b THEN "true" ELSE "false"]
    [] v.t = "str"   -> [c |-> "str", toks |-> v.toks]
    [] v.t \in {"time", "dur"} -> [c |-> "anytext"]

(* ------------------------------------------------------------------ export --------------------------------------------------------- *)
RECURSIVE MkCols(_, _, _)
MkCols(n, tvs, i) == IF n = 0 THEN <<>> ELSE Append(MkCols(n - 1, tvs, i), [name |-> "c" \o ToString(n), ty |-> Widen(tvs[n].ty, i * 10 + n)])
RECURSIVE MkBase(_, _)
MkBase(n, i) == IF n = 0 THEN <<>> ELSE Append(MkBase(n - 1, i), MkTV(RandomElement(0..Depth), i * 10 + n))
MkRow(i) ==
  LET class == <<"plain", "plain", "plain", "plain", "plain", "plain", "plain", "plain", "nonfinite", "badstr">>[RandomElement(1..10)]
      n     == RandomElement(1..4)
      base  == MkBase(n, i)
      tvs   == IF class = "plain" THEN base ELSE [base EXCEPT ![1] = MkScalar(class, i)]
      cols  == MkCols(n, tvs, i)
      vs    == [k \in 1..n |-> tvs[k].v]
      csvok == \A k \in 1..n : IsScalar(vs[k])
  IN [id |-> i, class |-> class, cols |-> cols, vals |-> vs,
      json |-> [k \in 1..n |-> JsonView(vs[k], cols[k].ty)],
      csv  |-> IF csvok THEN [k \in 1..n |-> CsvView(vs[k])] ELSE <<>>, csvok |-> csvok]

(* a batch: several different rows under one schema of nullable scalar (or list) columns - what a formatter that keeps buffers between rows sees *)
BatchKinds == <<"int", "float", "str", "str", "bool", "time", "list">>
MkCell(kind, i) == IF RandomElement(1..3) = 1 THEN NullV
                   ELSE IF kind = "list" THEN [t |-> "list", l |-> TokSeqAsStrs(RandomElement(0..2))]
                   ELSE IF kind = "str" /\ RandomElement(1..3) = 1 THEN [t |-> "str", toks |-> <<>>]
                   ELSE MkScalar(kind, i).v
RECURSIVE MkCells(_, _, _)
MkCells(n, kinds, i) == IF n = 0 THEN <<>> ELSE Append(MkCells(n - 1, kinds, i), MkCell(kinds[n], i * 10 + n))
RECURSIVE MkKinds(_)
MkKinds(n) == IF n = 0 THEN <<>> ELSE Append(MkKinds(n - 1), BatchKinds[RandomElement(1..Len(BatchKinds))])
RECURSIVE MkRowsOf(_, _, _, _)
MkRowsOf(m, n, kinds, i) == IF m = 0 THEN <<>> ELSE Append(MkRowsOf(m - 1, n, kinds, i), MkCells(n, kinds, i * 10 + m))
KindType(kind) == CASE kind = "int" -> Prim("Int") [] kind = "float" -> Prim("Float") [] kind = "str" -> Prim("String") [] kind = "bool" -> Prim("Boolean")
                    [] kind = "time" -> Prim("Time") [] kind = "list" -> [k |-> "list", le |-> Prim("String")]
MkBatch(i) ==
  LET n     == RandomElement(1..4)
      m     == RandomElement(2..5)
      kinds == MkKinds(n)
      cols  == [k \in 1..n |-> [name |-> "c" \o ToString(k), ty |-> SumOf(<<Prim("Null"), KindType(kinds[k])>>)]]
      rows  == MkRowsOf(m, n, kinds, i)
      csvok == \A k \in 1..n : kinds[k] # "list"
  IN [id |-> i, class |-> "plain", cols |-> cols, rows |-> rows,
      json |-> [r \in 1..m |-> [k \in 1..n |-> JsonView(rows[r][k], cols[k].ty)]],
      csv  |-> IF csvok THEN [r \in 1..m |-> [k \in 1..n |-> CsvView(rows[r][k])]] ELSE <<>>, csvok |-> csvok]

(* sanity of the specification itself *)
ViewLaws ==
  /\ JsonView(NullV, SumOf(<<Prim("Int"), Prim("Null")>>)) = [j |-> "null"]
  /\ SumOf(<<Prim("Int"), Prim("Null"), Prim("Int")>>) = [k |-> "union", a |-> <<Prim("Null"), Prim("Int")>>]
  /\ JsonView([t |-> "obj", o |-> <<NullV>>], SumOf(<<Prim("Null"), [k |-> "obj", f |-> <<<<"a", Prim("Null")>>>>]>>)).names = <<"a">>
  /\ CsvView(NullV) = [c |-> "empty"]

ASSUME ViewLaws
(* balanced recursion: the evaluation depth is logarithmic in the number of cases *)
RECURSIVE RowsFrom(_, _)
RowsFrom(lo, hi) == IF lo > hi THEN <<>> ELSE IF lo = hi THEN <<MkRow(lo)>> ELSE LET mid == (lo + hi) \div 2 IN RowsFrom(lo, mid) \o RowsFrom(mid + 1, hi)
Rows(n) == RowsFrom(1, n)
RECURSIVE BatchesFrom(_, _)
BatchesFrom(lo, hi) == IF lo > hi THEN <<>> ELSE IF lo = hi THEN <<MkBatch(lo)>> ELSE LET mid == (lo + hi) \div 2 IN BatchesFrom(lo, mid) \o BatchesFrom(mid + 1, hi)
Batches(n) == BatchesFrom(1, n)
ASSUME ndJsonSerialize("c25_cases.ndjson", Rows(N))
ASSUME ndJsonSerialize("c25_batches.ndjson", Batches(N \div 4))
VARIABLE x
Init == x = 0
Next == x' = x
=============================================================================
