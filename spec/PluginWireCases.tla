--------------------------- MODULE PluginWireCases ---------------------------
(* exports the message universes of PluginWire.tla: all values of U, all types of TU, and N seeded schemas / records / watermarks / contexts *)
EXTENDS PluginWire, Json
CONSTANT N
RECURSIVE Gen(_, _)
Gen(n, kind) == IF n = 0 THEN <<>>
                ELSE Append(Gen(n - 1, kind), [kind |-> kind, x |-> CASE kind = "schema" -> MkSchema(n) [] kind = "record" -> MkRecord(n) [] kind = "watermark" -> [time |-> Pick(Times)]
                                                                         [] kind = "physctx" -> [frames |-> MkCtx(TRUE)] [] kind = "execctx" -> [frames |-> MkCtx(FALSE)]])
ASSUME ndJsonSerialize("c26_wire.ndjson", [i \in 1..Len(USeq) |-> [kind |-> "value", x |-> [v |-> USeq[i]]]] \o [i \in 1..Len(TSeq) |-> [kind |-> "type", x |-> [ty |-> TSeq[i]]]]
                                          \o Gen(N, "schema") \o Gen(N, "record") \o Gen(N \div 4, "watermark") \o Gen(N, "physctx") \o Gen(N, "execctx"))
ASSUME PrintT(<<"VP:universe", Len(USeq), Len(TSeq)>>)
VARIABLE x
Init == x = 0
Next == x' = x
=============================================================================
