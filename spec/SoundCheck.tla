------------------------------ MODULE SoundCheck ------------------------------
(* C08: every value produced matches the static type reported for it.  Observations: {"type":T,"value":V,"ctx":...} recorded from the
   real typecheck -> materialise -> evaluate pipeline; ValueInType (Types.tla) is the independent reading of a type. *)
EXTENDS Types, Json, SequencesExt
Obs == ndJsonDeserialize("c08_obs.ndjson")
Bad == {i \in 1..Len(Obs) : ~ValueInType(Obs[i].value, Obs[i].type)}
ASSUME ndJsonSerialize("c08_viol.ndjson", [i \in 1..Cardinality(Bad) |-> Obs[SetToSeq(Bad)[i]]])
ASSUME PrintT(<<"VP:obs", Len(Obs)>>)
VARIABLE x
Init == x = 0
Next == x' = x
=============================================================================
