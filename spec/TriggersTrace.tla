----------------------------- MODULE TriggersTrace -----------------------------
(* Trace validation for C17 at the trigger-object level.  Events recorded from real execution.Trigger objects:
     {"ev":"new","cfg":[...]}  {"ev":"key","key":K,"polled":[K..]}  {"ev":"wm","w":n,"polled":[..]}  {"ev":"eos","polled":[..]}
   Layer P (verdict): Must(cfg, h) \subseteq polled \subseteq May(cfg, h) after every event.
   Layer I (drift only): the polled set equals the model's TrPoll. *)
EXTENDS Triggers, Json

Trace == ndJsonDeserialize("trig_trace.ndjson")

VARIABLES l, cfg, h, s, bad, why, driftAt
tvars == <<l, cfg, h, s, bad, why, driftAt>>

TInit == l = 1 /\ cfg = <<[k |-> "eos"]>> /\ h = <<>> /\ s = TrInit(<<[k |-> "eos"]>>) /\ bad = 0 /\ why = "" /\ driftAt = 0

TNew == /\ l <= Len(Trace) /\ Trace[l].ev = "new"
        /\ cfg' = Trace[l].cfg /\ h' = <<>> /\ s' = TrInit(Trace[l].cfg)
        /\ l' = l + 1 /\ UNCHANGED <<bad, why, driftAt>>

EvOf(e) == CASE e.ev = "key" -> [e |-> "key", key |-> e.key]
             [] e.ev = "wm"  -> [e |-> "wm", w |-> e.w]
             [] e.ev = "eos" -> [e |-> "eos"]

TEvent == /\ l <= Len(Trace) /\ Trace[l].ev \in {"key", "wm", "eos"}
          /\ LET e   == Trace[l]
                 ev  == EvOf(e)
                 h2  == Append(h, ev)
                 got == SeqToSet(e.polled)
                 s1  == CASE ev.e = "key" -> TrKey(cfg, s, ev.key)
                          [] ev.e = "wm"  -> TrWm(cfg, s, ev.w)
                          [] ev.e = "eos" -> TrEos(cfg, s)
                 p   == TrPoll(cfg, s1) IN
             /\ h' = h2 /\ s' = p.s
             /\ LET missing == ~(Must(cfg, h2) \subseteq got)
                    extra   == ~(got \subseteq May(cfg, h2)) IN
                /\ bad' = IF bad = 0 /\ (missing \/ extra) THEN l ELSE bad
                /\ why' = IF bad = 0 /\ missing THEN "a key that must fire was not polled"
                          ELSE IF bad = 0 /\ extra THEN "a key was polled that must not fire" ELSE why
             /\ driftAt' = IF driftAt = 0 /\ SeqToSet(p.out) # got THEN l ELSE driftAt
             /\ (driftAt = 0 /\ SeqToSet(p.out) # got) => PrintT(<<"VP:drift", l>>)
          /\ l' = l + 1 /\ UNCHANGED cfg

TNext == TNew \/ TEvent
TSpec == TInit /\ [][TNext]_tvars
LayerP == bad = 0
NoDrift == driftAt = 0
TraceAccepted == TLCGet("stats").diameter - 1 = Len(Trace)
=============================================================================
