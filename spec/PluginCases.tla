----------------------------- MODULE PluginCases -----------------------------
(* exports C28 cases under the TLC seed: a tree of installed plugins, configured databases with constraints, a manifest and an install request,
   each with the expectation computed by PluginVersions.tla *)
EXTENDS PluginVersions, Json, SequencesExt
CONSTANTS N

Pick(seq) == seq[RandomElement(1..Len(seq))]
Coin(k) == RandomElement(1..k) = 1
Names == <<"a", "my-db", "x-y-z", "plugin", "octosql-plugin-q", "db2", "s-", "n1">>
Repos == <<"core", "core", "extra">>
Nums  == <<0, 1, 2, 9, 10>>
MkV(i) == <<Pick(<<0, 1, 1, 2>>), Pick(Nums), Pick(<<0, 0, 1, 10>>), Pick(<<"", "", "", "beta.2", "rc.1">>)>>
RECURSIVE MkVs(_)
MkVs(n) == IF n = 0 THEN {} ELSE {MkV(n)} \cup MkVs(n - 1)
(* versions around a base: the base, its prereleases, neighbours - so that constraints and orderings have something to separate *)
Around(b) == {b, <<b[1], b[2], b[3], "rc.1">>, <<b[1], b[2], b[3], "beta.2">>, <<b[1], b[2] + 1, 0, "">>, <<b[1], 10, 0, "">>, <<b[1], 9, 0, "">>, <<b[1] + 1, 0, 0, "">>, <<b[1], b[2], b[3] + 1, "">>}
RECURSIVE PickSome(_, _)
PickSome(S, n) == IF n = 0 \/ S = {} THEN {} ELSE LET v == RandomElement(S) IN {v} \cup PickSome(S \ {v}, n - 1)
MkSet(i) == IF Coin(2) THEN MkVs(RandomElement(1..4)) ELSE PickSome(Around(MkV(i)), RandomElement(1..4))
MkC(S) ==      \* a constraint that refers to a version of S or near it
  LET b  == IF Coin(4) THEN MkV(0) ELSE RandomElement(S)
      op == Pick(<<"", "*", "=", ">=", ">=", ">", "<", "<=", "^", "~">>)
      v  == IF Coin(4) /\ op \in {">=", ">", "<", "<="} THEN <<b[1], b[2], b[3], "0">> ELSE b
  IN IF op \in {"", "*"} THEN [op |-> op] ELSE IF op = "^" /\ v[1] = 0 THEN [op |-> ">=", v |-> v] ELSE [op |-> op, v |-> v]

RECURSIVE MkPlugins(_, _)
MkPlugins(n, used) ==
  IF n = 0 THEN <<>>
  ELSE LET r == Pick(Repos) nm == Pick(Names) IN
       IF <<r, nm>> \in used THEN MkPlugins(n - 1, used)
       ELSE LET S == MkSet(n) IN <<[repo |-> r, name |-> nm, set |-> S, versions |-> Desc(S)]>> \o MkPlugins(n - 1, used \cup {<<r, nm>>})
RECURSIVE MkDbs(_, _)
MkDbs(n, plugins) ==
  IF n = 0 THEN <<>>
  ELSE LET p == Pick(plugins) c == MkC(p.set) IN
       <<[name |-> "d" \o ToString(n), repo |-> p.repo, plugin |-> p.name, constraint |-> CText(c), expect |-> Resolve(p.set, c)]>> \o MkDbs(n - 1, plugins)
MkCase(i) ==
  LET plugins == MkPlugins(RandomElement(1..3), {})
      M == MkSet(i)
      c == MkC(M)
  IN [id |-> i,
      tree |-> [k \in 1..Len(plugins) |-> [repo |-> plugins[k].repo, name |-> plugins[k].name, versions |-> plugins[k].versions]],
      dbs |-> MkDbs(RandomElement(1..2), plugins),
      install |-> [name |-> Pick(Names), manifest |-> SetToSeq(M), manifest_text |-> [k \in 1..Cardinality(M) |-> VText(SetToSeq(M)[k])], constraint |-> CText(c), expect |-> Select(M, c)]]
RECURSIVE CasesFrom(_, _)
CasesFrom(lo, hi) == IF lo > hi THEN <<>> ELSE IF lo = hi THEN <<MkCase(lo)>> ELSE LET mid == (lo + hi) \div 2 IN CasesFrom(lo, mid) \o CasesFrom(mid + 1, hi)
Cases(n) == CasesFrom(1, n)
ASSUME VersionLaws
ASSUME ndJsonSerialize("c28_cases.ndjson", Cases(N))
VARIABLE x
Init == x = 0
Next == x' = x
=============================================================================
