------------------------------ MODULE NumericCases ------------------------------
(* exports the C13 cases: every overload of the arithmetic / math / conversion / time functions on a boundary catalogue *)
EXTENDS Numeric, Json, SequencesExt

Ints   == {IntV(n) : n \in -3..3} \cup {IntV(7), IntV(-7), BigInt("min64"), BigInt("max64")}
Floats == {F(n, d) : n \in {-6, -3, -1, 0, 1, 2, 3, 4, 9}, d \in {1, 2, 4}} \cup {FSp("nan"), FSp("+inf"), FSp("-inf"), FSp("-0")}
         \cup {F(10, 1), F(100, 1), F(1000, 1), F(8, 1), F(1024, 1)}
Durs   == {DurV(n) : n \in {-7, -1, 0, 1, 2, 3, 1000000000}}
C(fn, args, exp) == [fn |-> fn, args |-> args, exp |-> exp]

IntCases == UNION {{C("+", <<a, b>>, IntAdd(a, b)), C("-", <<a, b>>, IntSub(a, b)), C("*", <<a, b>>, IntMul(a, b)), C("/", <<a, b>>, IntDiv(a, b))} : a \in Ints, b \in Ints}
            \cup UNION {{C("-", <<a>>, IntNeg(a)), C("abs", <<a>>, IntAbs(a)), C("int", <<a>>, a), C("float", <<a>>, FloatOfInt(a))} : a \in Ints}
FloatCases == UNION {{C("+", <<a, b>>, FloatAdd(a, b)), C("-", <<a, b>>, FloatSub(a, b)), C("*", <<a, b>>, FloatMul(a, b)), C("/", <<a, b>>, FloatDiv(a, b)),
                      C("pow", <<a, b>>, FloatPow(a, b))} : a \in Floats, b \in Floats}
              \cup UNION {{C("-", <<a>>, FloatNeg(a)), C("abs", <<a>>, FloatAbs(a)), C("ceil", <<a>>, FloatCeil(a)), C("floor", <<a>>, FloatFloor(a)),
                           C("sqrt", <<a>>, FloatSqrt(a)), C("log2", <<a>>, Log2Exact(a)), C("log10", <<a>>, Log10Exact(a)), C("log", <<a>>, LogExact(a)),
                           C("int", <<a>>, IntOfFloat(a)), C("float", <<a>>, a)} : a \in Floats}
DurCases == UNION {{C("+", <<a, b>>, DurV(a.du + b.du)), C("-", <<a, b>>, DurV(a.du - b.du)),
                    C("/", <<a, b>>, IF b.du = 0 THEN Unpinned ELSE Approx(IF b.du > 0 THEN a.du ELSE -a.du, Abs(b.du)))} : a \in Durs \ {DurV(1000000000)}, b \in Durs \ {DurV(1000000000)}}
            \cup UNION {{C("*", <<a, IntV(k)>>, DurV(a.du * k)), C("*", <<IntV(k), a>>, DurV(a.du * k)),
                         C("/", <<a, IntV(k)>>, IF k = 0 THEN Unpinned ELSE DurV(TruncDiv(a.du, k)))} : a \in Durs \ {DurV(1000000000)}, k \in -2..3}
            \cup UNION {{C("-", <<a>>, DurV(-a.du)), C("int", <<a>>, IntV(a.du)), C("float", <<a>>, F(a.du, 1))} : a \in Durs}
TimeCases == UNION {{C("+", <<TimeV(ts), DurS(d)>>, TimeV(ts + d)), C("+", <<DurS(d), TimeV(ts)>>, TimeV(ts + d)),
                     C("-", <<TimeV(ts), DurS(d)>>, TimeV(ts - d))} : ts \in 3..6, d \in -2..2}
BoolCases == {C("int", <<BoolV(b)>>, IntOfBool(BoolV(b))) : b \in BOOLEAN}
StrNumCases == UNION {{C("int", <<StrV(DecStrings[i].s)>>, IntV(DecStrings[i].v)), C("float", <<StrV(DecStrings[i].s)>>, F(DecStrings[i].v, 1))} : i \in 1..Len(DecStrings)}
               \cup UNION {{C("int", <<StrV(s)>>, NullV), C("float", <<StrV(s)>>, NullV)} : s \in BadStrings}
               \cup UNION {{C("int", <<StrV(s)>>, Unpinned), C("float", <<StrV(s)>>, Unpinned)} : s \in OpenStrings}
               \cup {C("float", <<StrV("1.5")>>, F(3, 2)), C("float", <<StrV("-0.25")>>, F(-1, 4)),
                     C("string", <<IntV(12)>>, StrV("12")), C("string", <<IntV(-7)>>, StrV("-7")), C("string", <<StrV("a")>>, StrV("a"))}
Elems1 == {IntV(1), IntV(2), NullV}
Lists  == {<<>>} \cup {<<x>> : x \in Elems1} \cup {<<x, y>> : x \in Elems1, y \in Elems1} \cup {<<IntV(1), IntV(2), IntV(3)>>}
ListCases == UNION {{C("in", <<x, ListV(l)>>, InSpec(x, l)), C("not in", <<x, ListV(l)>>, NotInSpec(x, l)),
                     C("in", <<x, TupV(l)>>, InSpec(x, l)), C("not in", <<x, TupV(l)>>, NotInSpec(x, l))} : x \in {IntV(1), IntV(3)}, l \in Lists \ {<<>>}}
             \cup {C("[]", <<ListV(l), IntV(i)>>, IndexSpec(l, i)) : l \in Lists, i \in -1..3}
CoalesceCases == {C("coalesce", l, CoalesceSpec(l)) : l \in {<<x, y>> : x \in Elems1, y \in Elems1} \cup {<<x, y, z>> : x \in Elems1, y \in Elems1, z \in Elems1}}
(* time_to_unix(time_from_unix(x)) = x : run as one SQL expression *)
IntHL(hi, lo) == [t |-> "int", hi |-> hi, lo |-> lo]          \* hi * 2^32 + lo, for values beyond TLC's 32-bit integers
RoundTrip == {[fn |-> "unix_roundtrip", args |-> <<x>>, exp |-> x] :
                x \in {IntV(0), IntV(1), IntV(-1), IntV(59), IntV(1600000000), IntV(-1600000000), IntV(2147483647),
                       IntHL(2, 1410065408), IntHL(23, 1215752192), BigInt("max64"), BigInt("min64")}}       \* 10^10, 10^11 seconds, the extremes
(* COALESCE(int(s), d) / COALESCE(float(s), d): a failed parse yields NULL, COALESCE then yields its next argument *)
CoalesceParse == {[fn |-> "coalesce_int_parse", args |-> <<StrV(s), IntV(5)>>, exp |-> IntV(5)] : s \in BadStrings}
                 \cup {[fn |-> "coalesce_int_parse", args |-> <<StrV(DecStrings[i].s), IntV(5)>>, exp |-> IntV(DecStrings[i].v)] : i \in 1..Len(DecStrings)}
                 \cup {[fn |-> "coalesce_float_parse", args |-> <<StrV(s), F(5, 2)>>, exp |-> F(5, 2)] : s \in BadStrings}

ASSUME ndJsonSerialize("c13_cases.ndjson", SetToSeq(IntCases \cup FloatCases \cup DurCases \cup TimeCases \cup BoolCases \cup StrNumCases \cup ListCases \cup CoalesceCases \cup RoundTrip \cup CoalesceParse))
VARIABLE x
Init == x = 0
Next == x' = x
=============================================================================
