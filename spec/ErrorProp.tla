------------------------------- MODULE ErrorProp -------------------------------
(***************************************************************************)
(* C06 — runtime errors are never swallowed.                               *)
(*                                                                         *)
(* A query is a chain of operators stacked on a source of n rows that      *)
(* fails when it is asked for row p (it has produced rows 1..p-1).         *)
(*   ops: filter, map, distinct, orderby, groupby, joinL / joinR (the      *)
(*   failing chain is the left / right input of a stream join), outerL,    *)
(*   lookupL / lookupR (source side / re-run joined side of a lookup join),*)
(*   subq (the chain is a subquery expression: c IN (SELECT ...)), limit k *)
(* MustFail(chain, p, n): the failing row is reached under every           *)
(* evaluation order, so the query must end with an error.  A LIMIT stops   *)
(* its input early, so it only guarantees nothing when no blocking         *)
(* operator (one that consumes its whole input before emitting) separates  *)
(* it from the fault.  Layer I: each operator either forwards its source's *)
(* error or swallows it; Swallows is empty for the design the property     *)
(* demands.                                                                *)
(***************************************************************************)
EXTENDS Integers, Sequences, FiniteSets, TLC

Ops == {"filter", "map", "distinct", "orderby", "groupby", "joinL", "joinR", "outerL", "lookupL", "lookupR", "subq"}
LimitOp(k) == "limit" \o ToString(k)
IsLimit(op) == op \in {LimitOp(k) : k \in 0..9}
Blocking == {"orderby", "groupby", "subq"}        \* consume the whole input before emitting anything

(* chain[1] is directly above the failing source, chain[Len] is the top *)
RECURSIVE Reached(_, _)
Reached(chain, i) ==       \* is the fault reached although operators i..Len(chain) sit above it?
  IF i > Len(chain) THEN TRUE
  ELSE IF IsLimit(chain[i]) THEN
         (\E j \in 1..(i - 1) : chain[j] \in Blocking) /\ Reached(chain, i + 1)   \* a limit with only streaming operators below may stop the source early
       ELSE Reached(chain, i + 1)
MustFail(chain, p, n) == p <= n /\ Reached(chain, 1)

(* ---- SQL rendering: every operator keeps the columns a, b, c ---- *)
Cols == "a AS a, b AS b, c AS c"
RECURSIVE RenderChain(_, _)
RenderChain(chain, i) ==
  IF i = 0 THEN "mem.t"
  ELSE LET X == IF i = 1 THEN "mem.t q" ELSE "(" \o RenderChain(chain, i - 1) \o ") q"
           op == chain[i] IN
       CASE op = "filter"   -> "SELECT " \o Cols \o " FROM " \o X \o " WHERE c >= 0"
         [] op = "map"      -> "SELECT a + 0 AS a, b AS b, c AS c FROM " \o X
         [] op = "distinct" -> "SELECT DISTINCT " \o Cols \o " FROM " \o X
         [] op = "orderby"  -> "SELECT " \o Cols \o " FROM " \o X \o " ORDER BY a"
         [] op = "groupby"  -> "SELECT a AS a, b AS b, max(c) AS c FROM " \o X \o " GROUP BY a, b"
         [] op = "joinL"    -> "SELECT q.a AS a, q.b AS b, q.c AS c FROM " \o X \o " JOIN mem.u u ON q.c = u.c"
         [] op = "joinR"    -> "SELECT q.a AS a, q.b AS b, q.c AS c FROM mem.u u JOIN " \o X \o " ON q.c = u.c"
         [] op = "outerL"   -> "SELECT q.a AS a, q.b AS b, q.c AS c FROM " \o X \o " LEFT JOIN mem.u u ON q.c = u.c"
         [] op = "lookupL"  -> "SELECT q.a AS a, q.b AS b, q.c AS c FROM " \o X \o " LOOKUP JOIN mem.u u ON q.c = u.c"
         [] op = "lookupR"  -> "SELECT q.a AS a, q.b AS b, q.c AS c FROM mem.u u LOOKUP JOIN " \o X \o " ON q.c = u.c"
         [] op = "subq"     -> "SELECT u.a AS a, u.b AS b, u.c AS c FROM mem.u u WHERE u.c IN (SELECT q.c FROM " \o X \o ")"
         [] OTHER           -> "SELECT " \o Cols \o " FROM " \o X \o " LIMIT " \o SubSeq(op, 6, Len(op))
Render(chain) == RenderChain(chain, Len(chain))

Chains(maxH) == LET Os == Ops \cup {LimitOp(1), LimitOp(3)} IN
                {<<o>> : o \in Os} \cup (IF maxH >= 2 THEN {<<o1, o2>> : o1 \in Os, o2 \in Os} ELSE {})
                \cup (IF maxH >= 3 THEN {<<o1, o2, o3>> : o1 \in Os, o2 \in {"distinct", "orderby", "groupby", LimitOp(1)}, o3 \in Os} ELSE {})

(* ---- Layer I (design check): error propagation through the chain with a set of swallowing operators ---- *)
RECURSIVE Propagates(_, _, _)
Propagates(chain, i, swallows) == i > Len(chain) \/ (chain[i] \notin swallows /\ Propagates(chain, i + 1, swallows))
ErrorSurfaces(chain, p, n, swallows) == MustFail(chain, p, n) => Propagates(chain, 1, swallows)
DesignOk(maxH, swallows) == \A ch \in Chains(maxH) : \A p \in 1..4 : ErrorSurfaces(ch, p, 4, swallows)
=============================================================================
