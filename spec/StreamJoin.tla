------------------------------ MODULE StreamJoin ------------------------------
(***************************************************************************)
(* C19 / C02 (node level) / C15 / C18 / C29 for the stream joins —         *)
(* execution/nodes/stream_join.go (inner) and outer_join.go.               *)
(*                                                                         *)
(* cfg == [op |-> "sjoin", kind |-> "inner"|"left"|"right"|"full",         *)
(*         lkey, rkey |-> <<key column indices>>, lw, rw |-> row widths]   *)
(*                                                                         *)
(* The join goroutine consumes the two inputs through two FIFO channels.   *)
(* One action of the specification = one message (or channel close)        *)
(* consumed by the join goroutine:                                         *)
(*   JRecv(side, msg)   a `select` arm / the body of `for range open`      *)
(*   JClose(side)       the `!ok` arm (first close) / the end of the range *)
(* Layer I is written as step functions over the join state `st`.          *)
(* Layer P (JoinBag) is the relational join of the consolidated inputs.    *)
(***************************************************************************)
EXTENDS Changelog

CONSTANT BuggyEnter   \* TRUE models the pinned tree's processRecordsUpTo(minWatermark, true) right after the first close

Sides == {"L", "R"}
Other(s) == IF s = "L" THEN "R" ELSE "L"
KeyCols(cfg, s) == IF s = "L" THEN cfg.lkey ELSE cfg.rkey
Width(cfg, s)   == IF s = "L" THEN cfg.lw ELSE cfg.rw
KeyOfRow(cfg, s, row) == [i \in 1..Len(KeyCols(cfg, s)) |-> row[KeyCols(cfg, s)[i]]]
KeyHasNull(key) == \E i \in 1..Len(key) : IsNullV(key[i])
(* an equality is never true for NULL: two rows match iff their keys are equal and contain no NULL *)
KeysMatch(cfg, l, r) == KeyOfRow(cfg, "L", l) = KeyOfRow(cfg, "R", r) /\ ~KeyHasNull(KeyOfRow(cfg, "L", l))
NullRow(n) == [i \in 1..n |-> NullV]
Glue(s, mine, theirs) == IF s = "L" THEN mine \o theirs ELSE theirs \o mine
Pad(cfg, s, row) == Glue(s, row, NullRow(Width(cfg, Other(s))))
OuterOn(cfg, s) == (s = "L" /\ cfg.kind \in {"left", "full"}) \/ (s = "R" /\ cfg.kind \in {"right", "full"})
IsOuter(cfg) == cfg.kind # "inner"

(* ---------------- Layer P: relational join of two bags of rows ---------------- *)
RECURSIVE BagUnion(_, _)
BagUnion(a, b) == IF DOMAIN b = {} THEN a
                  ELSE LET x == CHOOSE y \in DOMAIN b : TRUE IN BagUnion(BagPut(a, x, b[x]), FnRemove(b, x))
Present(b) == {x \in DOMAIN b : b[x] > 0}
JoinBag(cfg, LB, RB) ==
  LET pairs  == {p \in Present(LB) \X Present(RB) : KeysMatch(cfg, p[1], p[2])}
      joined == [x \in {p[1] \o p[2] : p \in pairs} |->
                   LB[SubSeq(x, 1, cfg.lw)] * RB[SubSeq(x, cfg.lw + 1, cfg.lw + cfg.rw)]]
      lonely(s, B, O) == {x \in Present(B) : ~\E y \in Present(O) : IF s = "L" THEN KeysMatch(cfg, x, y) ELSE KeysMatch(cfg, y, x)}
      padL   == IF OuterOn(cfg, "L") THEN [x \in {Pad(cfg, "L", l) : l \in lonely("L", LB, RB)} |-> LB[SubSeq(x, 1, cfg.lw)]] ELSE <<>>
      padR   == IF OuterOn(cfg, "R") THEN [x \in {Pad(cfg, "R", r) : r \in lonely("R", RB, LB)} |-> RB[SubSeq(x, cfg.lw + 1, cfg.lw + cfg.rw)]] ELSE <<>>
  IN Norm(BagUnion(BagUnion(joined, padL), padR))

(* ---------------- Layer I ---------------- *)
(* tree[s] : row -> sequence of event times (absent = no entry) *)
JInit == [tree |-> [L |-> <<>>, R |-> <<>>], buf |-> [L |-> <<>>, R |-> <<>>], wm |-> [L |-> 0, R |-> 0],
          minWm |-> 0, phase |-> "both", open |-> "L", osr |-> FALSE, dropped |-> "none"]

RowsWithKey(cfg, s, tr, key) == {x \in DOMAIN tr : KeyOfRow(cfg, s, x) = key}

RECURSIVE EmitTimes(_, _, _, _, _, _)
(* one output per stored event time of `row`; stamp = max(record time, stored time) when joined = TRUE, else the stored time *)
EmitTimes(vals, retr, rt, times, i, joined) ==
  IF i > Len(times) THEN <<>>
  ELSE <<Rec(vals, retr, IF joined THEN Max2(rt, times[i]) ELSE times[i])>> \o EmitTimes(vals, retr, rt, times, i + 1, joined)

RECURSIVE EmitRows(_, _, _, _, _, _)
EmitRows(cfg, s, rec, otherTree, rows, mode) ==     \* mode: "join" | "retractpad" | "addpad"
  IF rows = {} THEN <<>>
  ELSE LET o == CHOOSE y \in rows : TRUE IN
       (CASE mode = "join"       -> EmitTimes(Glue(s, rec.v, o), rec.r, rec.t, otherTree[o], 1, TRUE)
          [] mode = "retractpad" -> EmitTimes(Pad(cfg, Other(s), o), TRUE, 0, otherTree[o], 1, FALSE)
          [] mode = "addpad"     -> EmitTimes(Pad(cfg, Other(s), o), FALSE, 0, otherTree[o], 1, FALSE))
       \o EmitRows(cfg, s, rec, otherTree, rows \ {o}, mode)

(* receiveRecord: returns [tree |-> ..., out |-> <<...>>] *)
Receive(cfg, tree, s, rec, osr) ==
  LET key    == KeyOfRow(cfg, s, rec.v)
      my     == tree[s]
      other  == tree[Other(s)]
      first  == RowsWithKey(cfg, s, my, key) = {}
      ts     == IF rec.v \in DOMAIN my THEN my[rec.v] ELSE <<>>
      ts2    == IF ~rec.r THEN Append(ts, rec.t) ELSE (IF ts = <<>> THEN <<>> ELSE Tail(ts))
      my2    == IF osr THEN my ELSE (IF ts2 = <<>> THEN FnRemove(my, rec.v) ELSE FnPut(my, rec.v, ts2))
      last   == ~osr /\ RowsWithKey(cfg, s, my2, key) = {}
      match  == RowsWithKey(cfg, Other(s), other, key)
      inner  == EmitRows(cfg, s, rec, other, match, "join")
      out    == IF ~IsOuter(cfg) THEN inner
                ELSE IF match = {} THEN (IF OuterOn(cfg, s) THEN <<Rec(Pad(cfg, s, rec.v), rec.r, rec.t)>> ELSE <<>>)
                ELSE (IF first /\ OuterOn(cfg, Other(s)) THEN EmitRows(cfg, s, rec, other, match, "retractpad") ELSE <<>>)
                     \o inner
                     \o (IF last /\ OuterOn(cfg, Other(s)) THEN EmitRows(cfg, s, rec, other, match, "addpad") ELSE <<>>)
  IN IF KeyHasNull(key)      \* never matches; on an outer side it only yields its own padded row
     THEN [tree |-> tree, out |-> IF IsOuter(cfg) /\ OuterOn(cfg, s) THEN <<Rec(Pad(cfg, s, rec.v), rec.r, rec.t)>> ELSE <<>>]
     ELSE [tree |-> [tree EXCEPT ![s] = my2], out |-> out]

RECURSIVE ReceiveAll(_, _, _, _, _)
ReceiveAll(cfg, tree, s, recs, osr) ==
  IF recs = <<>> THEN [tree |-> tree, out |-> <<>>]
  ELSE LET a == Receive(cfg, tree, s, Head(recs), osr)
           b == ReceiveAll(cfg, a.tree, s, Tail(recs), osr)
       IN [tree |-> b.tree, out |-> a.out \o b.out]

(* processRecordsUpTo(w, osr) with the nil-tree guards of the inner join *)
ProcessUpTo(cfg, st, w, osr) ==
  LET doL == st.dropped # "R"
      a   == IF doL THEN ReceiveAll(cfg, st.tree, "L", ReleaseUpTo(st.buf["L"], w), osr) ELSE [tree |-> st.tree, out |-> <<>>]
      bL  == IF doL THEN KeepAbove(st.buf["L"], w) ELSE st.buf["L"]
      doR == st.dropped # "L"
      b   == IF doR THEN ReceiveAll(cfg, a.tree, "R", ReleaseUpTo(st.buf["R"], w), osr) ELSE [tree |-> a.tree, out |-> <<>>]
      bR  == IF doR THEN KeepAbove(st.buf["R"], w) ELSE st.buf["R"]
  IN [st |-> [st EXCEPT !.tree = b.tree, !.buf = [L |-> bL, R |-> bR]], out |-> a.out \o b.out]

MarkIfClosedBufferEmpty(cfg, st) ==     \* markOneStreamRemains (inner join only)
  IF ~IsOuter(cfg) /\ st.buf[Other(st.open)] = <<>> THEN [st EXCEPT !.osr = TRUE, !.dropped = st.open] ELSE st

JRecv(cfg, st, s, msg) ==
  IF st.phase = "both" THEN
    IF IsWm(msg) THEN
      LET wm2 == [st.wm EXCEPT ![s] = msg.w]
          mn  == Min2(wm2["L"], wm2["R"]) IN
      IF mn > st.minWm THEN
        LET p == ProcessUpTo(cfg, [st EXCEPT !.wm = wm2, !.minWm = mn], mn, FALSE) IN [st |-> p.st, out |-> p.out \o <<Wm(mn)>>]
      ELSE [st |-> [st EXCEPT !.wm = wm2], out |-> <<>>]
    ELSE IF msg.t = 0 THEN LET r == Receive(cfg, st.tree, s, msg, FALSE) IN [st |-> [st EXCEPT !.tree = r.tree], out |-> r.out]
    ELSE [st |-> [st EXCEPT !.buf[s] = Append(@, msg)], out |-> <<>>]
  ELSE  \* phase "one": s = st.open
    IF IsWm(msg) THEN
      LET p == ProcessUpTo(cfg, st, msg.w, st.osr) IN [st |-> MarkIfClosedBufferEmpty(cfg, p.st), out |-> p.out \o <<msg>>]
    ELSE IF msg.t = 0 THEN LET r == Receive(cfg, st.tree, s, msg, st.osr) IN [st |-> [st EXCEPT !.tree = r.tree], out |-> r.out]
    ELSE [st |-> [st EXCEPT !.buf[s] = Append(@, msg)], out |-> <<>>]

JClose(cfg, st, s) ==
  IF st.phase = "both" THEN      \* s closed first; the other side stays open
    LET o  == Other(s)
        s1 == [st EXCEPT !.phase = "one", !.open = o, !.minWm = st.wm[o]]
        p  == ProcessUpTo(cfg, s1, st.wm[o], (~IsOuter(cfg)) /\ BuggyEnter)
    IN [st |-> MarkIfClosedBufferEmpty(cfg, p.st), out |-> p.out]
  ELSE LET p == ProcessUpTo(cfg, st, MaxTs, st.osr) IN [st |-> [p.st EXCEPT !.phase = "done"], out |-> p.out]

(* ---------------- Layer P monitor on observed histories ---------------- *)
(* What "all input records with event time at or below W" means when W is forwarded: the records without an event time
   that the join has received so far (the first n of that input), and every record of the *complete* input with
   0 < t <= W - whether the join has already received it or not (a watermark is a promise about the future). *)
PartBag(full, n, w) == Consol(SelectSeq(SubSeq(full, 1, n), LAMBDA m : IsRec(m) /\ m.t = 0)
                              \o SelectSeq(full, LAMBDA m : IsRec(m) /\ m.t # 0 /\ m.t <= w))

(* recvL / recvR: messages consumed so far per side; outsBefore \o stepOut: messages emitted; done: both inputs ended *)
JFail(cfg, recvL, recvR, outsBefore, stepOut, done, Chk(_)) ==
  LET outs == outsBefore \o stepOut
      n0   == Len(outsBefore)
  IN
  IF Chk("C15") /\ ~ValidFrom(ConsRaw(outsBefore), stepOut) THEN "C15: join output retracts a row that is not present"
  ELSE IF Chk("C18") /\ ~MonotoneWm(outs) THEN "C18: join watermark went backwards"
  ELSE IF Chk("C18") /\ ~NoLate(outs) THEN "C18: join emitted a record at or below a watermark already forwarded"
  ELSE IF Chk("C19") /\ \E j \in 1..Len(stepOut) : IsWm(stepOut[j]) /\
            Consol(SubSeq(outs, 1, n0 + j)) # JoinBag(cfg, ConsUpTo(recvL, stepOut[j].w), ConsUpTo(recvR, stepOut[j].w))
       THEN "C19: at a forwarded watermark the consolidated output differs from the join of the inputs at or below it"
  ELSE IF (Chk("C19") \/ Chk("C15") \/ Chk("C02")) /\ done /\ Consol(outs) # JoinBag(cfg, Consol(recvL), Consol(recvR))
       THEN "C19: at end of stream the consolidated output differs from the join of the complete inputs"
  ELSE ""

(* the same watermark clause against the complete inputs; snaps = <<[j |-> position of the watermark in outs,
   nL, nR |-> how many messages of each input had been consumed]>> *)
JRetroFail(cfg, fullL, fullR, outs, snaps, Chk(_)) ==
  IF Chk("C19") /\ \E k \in 1..Len(snaps) :
        Consol(SubSeq(outs, 1, snaps[k].j)) # JoinBag(cfg, PartBag(fullL, snaps[k].nL, outs[snaps[k].j].w), PartBag(fullR, snaps[k].nR, outs[snaps[k].j].w))
  THEN "C19: a forwarded watermark was premature: an input record at or below it (delivered later) is missing from the output at that point"
  ELSE ""
SnapsOf(n0, stepOut, nL, nR) == LET W == {j \in 1..Len(stepOut) : IsWm(stepOut[j])} IN
  [i \in 1..Cardinality(W) |-> [j |-> n0 + (CHOOSE x \in W : Cardinality({y \in W : y <= x}) = i), nL |-> nL, nR |-> nR]]
=============================================================================
