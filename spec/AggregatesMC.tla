---------------------------- MODULE AggregatesMC ----------------------------
(* model check of Aggregates + export of the replay cases in one TLC run *)
EXTENDS Aggregates
ASSUME ExportCases("agg_cases.ndjson", MaxLen)
=============================================================================
