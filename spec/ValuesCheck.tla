------------------------------ MODULE ValuesCheck ------------------------------
(***************************************************************************)
(* C09: laws evaluated on what the real code returned.                     *)
(* "export": writes the universe (id -> abstract value) for the harness.   *)
(* "check":  reads the observations                                        *)
(*     {"k":"cmp","a":i,"b":j,"c":-1|0|1}    Value.Compare                 *)
(*     {"k":"hash","a":i,"h":class}          Value.Hash (class = dense id) *)
(*     {"k":"eq","a":i,"b":j,"e":BOOLEAN}    Value.Equal                   *)
(*     {"k":"op","op":name,"ids":[..],"classes":n}  number of groups /     *)
(*         distinct rows / distinct counts an operator produced            *)
(*   and writes every violated law instance to c09_viol.ndjson.            *)
(***************************************************************************)
EXTENDS Values, Json, SequencesExt

CONSTANT Mode
USeq == SetToSeq(U)
N == Len(USeq)

Obs  == IF Mode = "check" THEN ndJsonDeserialize("c09_obs.ndjson") ELSE <<>>
(* the first N observations are the matrix rows in id order: {"k":"row","a":i,"c":[Compare(i,1..N)],"e":[Equal(i,1..N)],"h":hash class} *)
RowsOk == \A i \in 1..N : Obs[i].k = "row" /\ Obs[i].a = i /\ Len(Obs[i].c) = N
M(a, b) == Obs[a].c[b]
E(a, b) == Obs[a].e[b]
H(a)    == Obs[a].h
OpObs   == {k \in (N + 1)..Len(Obs) : Obs[k].k = "op"}

V(law, ids) == [law |-> law, ids |-> ids, vals |-> [i \in 1..Len(ids) |-> USeq[ids[i]]]]

(* number of equivalence classes of the observed "compares equal" relation among ids (meaningful when it is an equivalence) *)
Classes(ids) == Cardinality({ {j \in ids : M(i, j) = 0} : i \in ids })

(* COUNT(DISTINCT x) ignores NULL inputs (aggregates range over the non-NULL inputs), the other operators treat NULL as a value *)
OpIds(k) == LET all == {Obs[k].ids[j] : j \in 1..Len(Obs[k].ids)} IN
            IF Obs[k].op = "count_distinct" THEN {i \in all : USeq[i].t # "null"} ELSE all
OpClasses(k) == Classes(OpIds(k))

Violations ==
     {V("reflexive: a.Compare(a) = 0", <<a>>) : a \in {x \in 1..N : M(x, x) # 0}}
\cup {V("antisymmetric: a.Compare(b) = -b.Compare(a)", <<p[1], p[2]>>) : p \in {q \in (1..N) \X (1..N) : q[1] < q[2] /\ M(q[1], q[2]) # -M(q[2], q[1])}}
\cup {V("transitive: a<=b and b<=c imply a<=c", <<t[1], t[2], t[3]>>) :
        t \in {u \in (1..N) \X (1..N) \X (1..N) : M(u[1], u[2]) <= 0 /\ M(u[2], u[3]) <= 0 /\ M(u[1], u[3]) > 0}}
\cup {V("equal values hash equally", <<p[1], p[2]>>) : p \in {q \in (1..N) \X (1..N) : q[1] < q[2] /\ M(q[1], q[2]) = 0 /\ H(q[1]) # H(q[2])}}
\cup {V("documented order (NULL first, type order, numeric, bytewise strings, lexicographic composites)", <<p[1], p[2]>>) :
        p \in {q \in (1..N) \X (1..N) : Pinned(USeq[q[1]], USeq[q[2]]) /\ M(q[1], q[2]) # SpecCmp(USeq[q[1]], USeq[q[2]])}}
\cup {V("Equal(a, b) = (a.Compare(b) = 0) except that NULL never equals NULL", <<p[1], p[2]>>) :
        p \in {q \in (1..N) \X (1..N) : E(q[1], q[2]) # (M(q[1], q[2]) = 0 /\ ~(USeq[q[1]].t = "null" /\ USeq[q[2]].t = "null"))}}
\cup {[law |-> "operator agrees with Compare on the number of equal-value classes: " \o Obs[i].op, ids |-> Obs[i].ids,
       vals |-> <<Obs[i].classes, OpClasses(i)>>] : i \in {k \in OpObs : Obs[k].classes # OpClasses(k)}}

ASSUME Mode = "export" => ndJsonSerialize("c09_universe.ndjson", [i \in 1..N |-> [id |-> i, v |-> USeq[i], rank |-> IF USeq[i].t = "str" THEN StrRank(USeq[i].s) ELSE 0]])
ASSUME Mode = "export" => SpecLaws
ASSUME Mode = "check" => RowsOk
ASSUME Mode = "check" => ndJsonSerialize("c09_viol.ndjson", SetToSeq(Violations))
ASSUME Mode = "check" => PrintT(<<"VP:obs", Len(Obs), "N", N>>)

VARIABLE x
Init == x = 0
Next == x' = x
=============================================================================
