------------------------------ MODULE Operators ------------------------------
(***************************************************************************)
(* C15 / C18 for the single-input operators: filter, map, distinct and the *)
(* event-time buffer (execution/nodes/{filter,map,distinct,                *)
(* event_time_buffer}.go, execution/record_event_time_buffer.go).          *)
(*   filter:   cfg = [op |-> "filter", col |-> c, eq |-> value]  keeps the *)
(*             rows whose predicate row[c] = value is TRUE (NULL is not)   *)
(*   map:      cfg = [op |-> "map", cols |-> <<c1, ...>>]                  *)
(*   distinct: cfg = [op |-> "distinct"]                                   *)
(*   etbuf:    cfg = [op |-> "etbuf"]                                      *)
(* Layer I: XStep / XEos; Layer P: XBatch on the consolidated input.       *)
(***************************************************************************)
EXTENDS Changelog

ProjCols(row, cols) == [i \in 1..Len(cols) |-> row[cols[i]]]

(* ---- filter ---- *)
FilterKeeps(cfg, row) == ~IsNullV(row[cfg.col]) /\ row[cfg.col] = cfg.eq
FilterStep(cfg, st, msg) == [st |-> st, out |-> IF IsWm(msg) \/ FilterKeeps(cfg, msg.v) THEN <<msg>> ELSE <<>>]
FilterBatch(cfg, inBag) == [row \in {r \in DOMAIN inBag : FilterKeeps(cfg, r)} |-> inBag[row]]

(* ---- map ---- *)
MapStep(cfg, st, msg) == [st |-> st, out |-> IF IsWm(msg) THEN <<msg>> ELSE <<Rec(ProjCols(msg.v, cfg.cols), msg.r, msg.t)>>]
MapBatch(cfg, inBag) ==
  LET img == {ProjCols(r, cfg.cols) : r \in DOMAIN inBag} IN
  Norm([x \in img |-> LET RECURSIVE S(_) S(R) == IF R = {} THEN 0 ELSE LET r == CHOOSE y \in R : TRUE IN inBag[r] + S(R \ {r})
                      IN S({r \in DOMAIN inBag : ProjCols(r, cfg.cols) = x})])

(* ---- distinct: per-row counts; emits on 0 -> 1 and on 1 -> 0; watermarks are not forwarded ---- *)
DistinctStep(cfg, st, msg) ==
  IF IsWm(msg) THEN [st |-> st, out |-> <<>>]
  ELSE LET c2 == BagGet(st, msg.v) + Sgn(msg) IN
       [st  |-> IF c2 <= 0 THEN FnRemove(st, msg.v) ELSE FnPut(st, msg.v, c2),
        out |-> IF (c2 = 1 /\ ~msg.r) \/ c2 <= 0 THEN <<msg>> ELSE <<>>]
DistinctBatch(cfg, inBag) == [row \in {r \in DOMAIN inBag : inBag[r] > 0} |-> 1]

(* ---- event-time buffer ---- *)
EtbufStep(cfg, st, msg) ==
  IF IsRec(msg) THEN (IF msg.t = 0 THEN [st |-> st, out |-> <<msg>>] ELSE [st |-> Append(st, msg), out |-> <<>>])
  ELSE [st |-> KeepAbove(st, msg.w), out |-> ReleaseUpTo(st, msg.w) \o <<msg>>]
EtbufEos(cfg, st) == [st |-> <<>>, out |-> ReleaseUpTo(st, MaxTs)]

(* C18, third sentence: every buffered record is released unchanged, in event-time order, before the first
   watermark at or above its event time; the rest at end of stream.  ins/outs are the message sequences so far. *)
RecsOnly(s) == SelectSeq(s, IsRec)
CountIn(s, m) == Cardinality({i \in 1..Len(s) : s[i] = m})
BufferReleased(ins, outs, done) ==
  /\ \A i \in 1..Len(outs) : IsRec(outs[i]) => CountIn(RecsOnly(SubSeq(outs, 1, i)), outs[i]) <= CountIn(RecsOnly(ins), outs[i])   \* unchanged, nothing invented
  /\ \A j \in 1..Len(outs) : IsWm(outs[j]) =>
        \A m \in {ins[i] : i \in {k \in 1..Len(ins) : IsRec(ins[k]) /\ ins[k].t # 0 /\ ins[k].t <= outs[j].w}} :
            \* all copies of m received before this watermark have been released before it
            LET inBefore == Cardinality({i \in 1..Len(ins) : ins[i] = m /\
                                 Cardinality({k \in 1..i : IsWm(ins[k])}) < Cardinality({k \in 1..j : IsWm(outs[k])})})
            IN CountIn(SubSeq(outs, 1, j), m) >= inBefore
  /\ \A i, j \in 1..Len(outs) : (i < j /\ IsRec(outs[i]) /\ IsRec(outs[j]) /\ outs[i].t # 0 /\ outs[j].t # 0
                                  /\ ~\E k \in i..j : IsWm(outs[k])) => outs[i].t <= outs[j].t   \* event-time order within a release
  /\ done => \A m \in {ins[i] : i \in {k \in 1..Len(ins) : IsRec(ins[k])}} : CountIn(outs, m) = CountIn(ins, m)
=============================================================================
