------------------------------ MODULE Operators ------------------------------
(***************************************************************************)
(* C15 / C18 for the single-input operators: filter, map, distinct and the *)
(* event-time buffer (execution/nodes/{filter,map,distinct,                *)
(* event_time_buffer}.go, execution/record_event_time_buffer.go).          *)
(*   filter:   cfg = [op |-> "filter", col |-> c, eq |-> value]  keeps the *)
(*             rows whose predicate row[c] = value is TRUE (NULL is not)   *)
(*   map:      cfg = [op |-> "map", cols |-> <<c1, ...>>]                  *)
(*   distinct: cfg = [op |-> "distinct"]                                   *)
(*   etbuf:    cfg = [op |-> "etbuf"]                                      *)
(*   orderby:  cfg = [op |-> "orderby", keys |-> <<c..>>, dirs |-> <<1|-1..>>,*)
(*             limit |-> n | -1]  (order_sensitive_transform.go): buffers  *)
(*             the changelog, drops watermarks, emits the rows sorted by   *)
(*             key (then by all values) at end of stream, at most n        *)
(*   limit:    cfg = [op |-> "limit", n |-> n]  (limit.go): forwards the   *)
(*             first n records and stops its source                       *)
(*   lookup:   cfg = [op |-> "lookup", col |-> c, table |-> <<rows>>,      *)
(*             jcol |-> j]  (lookup_join.go): for every source record the  *)
(*             joined side is re-run with the record in scope; here the    *)
(*             joined side is the rows of a table whose column j equals    *)
(*             the record's column c                                      *)
(*   unnest:   cfg = [op |-> "unnest", col |-> c]  (unnest.go): one output *)
(*             row per element of the list in column c                    *)
(* Layer I: XStep / XEos; Layer P: XBatch on the consolidated input.       *)
(***************************************************************************)
EXTENDS Changelog

ProjCols(row, cols) == [i \in 1..Len(cols) |-> row[cols[i]]]

(* ---- filter ---- *)
FilterKeeps(cfg, row) == ~IsNullV(row[cfg.col]) /\ row[cfg.col] = cfg.eq
FilterStep(cfg, st, msg) == [st |-> st, out |-> IF IsWm(msg) \/ FilterKeeps(cfg, msg.v) THEN <<msg>> ELSE <<>>]
FilterBatch(cfg, inBag) == [row \in {r \in DOMAIN inBag : FilterKeeps(cfg, r)} |-> inBag[row]]

(* ---- map ---- *)
MapStep(cfg, st, msg) == [st |-> st, out |-> IF IsWm(msg) THEN <<msg>> ELSE <<Rec(ProjCols(msg.v, cfg.cols), msg.r, msg.t)>>]
MapBatch(cfg, inBag) ==
  LET img == {ProjCols(r, cfg.cols) : r \in DOMAIN inBag} IN
  Norm([x \in img |-> LET RECURSIVE S(_) S(R) == IF R = {} THEN 0 ELSE LET r == CHOOSE y \in R : TRUE IN inBag[r] + S(R \ {r})
                      IN S({r \in DOMAIN inBag : ProjCols(r, cfg.cols) = x})])

(* ---- distinct: per-row counts; emits on 0 -> 1 and on 1 -> 0; watermarks are not forwarded ---- *)
DistinctStep(cfg, st, msg) ==
  IF IsWm(msg) THEN [st |-> st, out |-> <<>>]
  ELSE LET c2 == BagGet(st, msg.v) + Sgn(msg) IN
       [st  |-> IF c2 <= 0 THEN FnRemove(st, msg.v) ELSE FnPut(st, msg.v, c2),
        out |-> IF (c2 = 1 /\ ~msg.r) \/ c2 <= 0 THEN <<msg>> ELSE <<>>]
DistinctBatch(cfg, inBag) == [row \in {r \in DOMAIN inBag : inBag[r] > 0} |-> 1]

(* ---- event-time buffer ---- *)
EtbufStep(cfg, st, msg) ==
  IF IsRec(msg) THEN (IF msg.t = 0 THEN [st |-> st, out |-> <<msg>>] ELSE [st |-> Append(st, msg), out |-> <<>>])
  ELSE [st |-> KeepAbove(st, msg.w), out |-> ReleaseUpTo(st, msg.w) \o <<msg>>]
EtbufEos(cfg, st) == [st |-> <<>>, out |-> ReleaseUpTo(st, MaxTs)]

(* C18, third sentence: every buffered record is released unchanged, in event-time order, before the first
   watermark at or above its event time; the rest at end of stream.  ins/outs are the message sequences so far. *)
RecsOnly(s) == SelectSeq(s, IsRec)
CountIn(s, m) == Cardinality({i \in 1..Len(s) : s[i] = m})
BufferReleased(ins, outs, done) ==
  /\ \A i \in 1..Len(outs) : IsRec(outs[i]) => CountIn(RecsOnly(SubSeq(outs, 1, i)), outs[i]) <= CountIn(RecsOnly(ins), outs[i])   \* unchanged, nothing invented
  /\ \A j \in 1..Len(outs) : IsWm(outs[j]) =>
        \A m \in {ins[i] : i \in {k \in 1..Len(ins) : IsRec(ins[k]) /\ ins[k].t # 0 /\ ins[k].t <= outs[j].w}} :
            \* all copies of m received before this watermark have been released before it
            LET inBefore == Cardinality({i \in 1..Len(ins) : ins[i] = m /\
                                 Cardinality({k \in 1..i : IsWm(ins[k])}) < Cardinality({k \in 1..j : IsWm(outs[k])})})
            IN CountIn(SubSeq(outs, 1, j), m) >= inBefore
  /\ \A i, j \in 1..Len(outs) : (i < j /\ IsRec(outs[i]) /\ IsRec(outs[j]) /\ outs[i].t # 0 /\ outs[j].t # 0
                                  /\ ~\E k \in i..j : IsWm(outs[k])) => outs[i].t <= outs[j].t   \* event-time order within a release
  /\ done => \A m \in {ins[i] : i \in {k \in 1..Len(ins) : IsRec(ins[k])}} : CountIn(outs, m) = CountIn(ins, m)

(* ---------------------------------------------------------------- order by ---------------------------------------------------------------- *)
Sign3(n) == IF n < 0 THEN -1 ELSE IF n > 0 THEN 1 ELSE 0
VRank(v) == CASE v.t = "null" -> 0 [] v.t = "int" -> 1 [] v.t = "bool" -> 3 [] v.t = "str" -> 4 [] v.t = "time" -> 5 [] v.t = "list" -> 7
StrOrd(x) == CASE x = "a" -> 1 [] x = "b" -> 2 [] x = "c" -> 3 [] OTHER -> 9
RECURSIVE VCmp(_, _)
VCmp(a, b) == IF VRank(a) # VRank(b) THEN Sign3(VRank(a) - VRank(b))
              ELSE CASE a.t = "null" -> 0 [] a.t = "int" -> Sign3(a.i - b.i) [] a.t = "str" -> Sign3(StrOrd(a.s) - StrOrd(b.s)) [] a.t = "time" -> Sign3(a.ts - b.ts)
                     [] a.t = "bool" -> Sign3((IF a.b THEN 1 ELSE 0) - (IF b.b THEN 1 ELSE 0))
                     [] a.t = "list" -> LET n == Min2(Len(a.l), Len(b.l))
                                            D == {i \in 1..n : VCmp(a.l[i], b.l[i]) # 0} IN
                                        IF D = {} THEN Sign3(Len(a.l) - Len(b.l)) ELSE VCmp(a.l[CHOOSE i \in D : \A j \in D : i <= j], b.l[CHOOSE i \in D : \A j \in D : i <= j])
(* the total order order_sensitive_transform.go sorts by: the keys with their directions, then all values ascending *)
RowCmp(cfg, x, y) ==
  LET K == {i \in 1..Len(cfg.keys) : VCmp(x[cfg.keys[i]], y[cfg.keys[i]]) # 0}
      V == {i \in 1..Len(x) : VCmp(x[i], y[i]) # 0} IN
  IF K # {} THEN LET i == CHOOSE k \in K : \A j \in K : k <= j IN VCmp(x[cfg.keys[i]], y[cfg.keys[i]]) * cfg.dirs[i]
  ELSE IF V # {} THEN LET i == CHOOSE k \in V : \A j \in V : k <= j IN VCmp(x[i], y[i])
  ELSE 0
RECURSIVE SortedRows(_, _)
SortedRows(cfg, bag) ==      \* the rows of a bag with positive multiplicities, in order, each repeated by its multiplicity
  LET D == {r \in DOMAIN bag : bag[r] > 0} IN
  IF D = {} THEN <<>>
  ELSE LET m == CHOOSE r \in D : \A q \in D : RowCmp(cfg, r, q) <= 0 IN
       [i \in 1..bag[m] |-> m] \o SortedRows(cfg, [r \in D \ {m} |-> bag[r]])
TakeN(s, n) == IF n < 0 \/ Len(s) <= n THEN s ELSE SubSeq(s, 1, n)
OrderByRows(cfg, bag) == TakeN(SortedRows(cfg, bag), cfg.limit)
OrderByStep(cfg, st, msg) == [st |-> IF IsRec(msg) THEN BagPut(st, msg.v, Sgn(msg)) ELSE st, out |-> <<>>]
OrderByEos(cfg, st) == [st |-> st, out |-> [i \in 1..Len(OrderByRows(cfg, st)) |-> Rec(OrderByRows(cfg, st)[i], FALSE, 0)]]
RECURSIVE BagOfRows(_)
BagOfRows(s) == IF s = <<>> THEN <<>> ELSE BagPut(BagOfRows(Tail(s)), Head(s), 1)
OrderByBatch(cfg, inBag) == BagOfRows(OrderByRows(cfg, inBag))
(* the emitted sequence itself is in order (a statement about the sequence, not only about the bag) *)
InOrder(cfg, outs) == \A i, j \in 1..Len(outs) : (i < j /\ IsRec(outs[i]) /\ IsRec(outs[j])) => RowCmp(cfg, outs[i].v, outs[j].v) <= 0

(* ---------------------------------------------------------------- limit ------------------------------------------------------------------- *)
(* state = number of records forwarded; once n have been forwarded the source is stopped: nothing more comes out (n = 0: nothing at all) *)
LimitStep(cfg, st, msg) ==
  IF st >= cfg.n THEN [st |-> st, out |-> <<>>]
  ELSE IF IsWm(msg) THEN [st |-> st, out |-> <<msg>>]
  ELSE [st |-> st + 1, out |-> <<msg>>]
(* Layer P for limit: the output is the input cut after its n-th record (and empty for n = 0) *)
RECURSIVE CutAfter(_, _)
CutAfter(s, n) == IF n <= 0 \/ s = <<>> THEN <<>> ELSE IF IsRec(Head(s)) THEN <<Head(s)>> \o CutAfter(Tail(s), n - 1) ELSE <<Head(s)>> \o CutAfter(Tail(s), n)
LimitOk(cfg, ins, outs) == outs = CutAfter(ins, cfg.n)

(* ---------------------------------------------------------------- lookup join ------------------------------------------------------------- *)
(* cfg.tflags[i] = TRUE: the i-th record the joined side emits is a retraction (a joined side with a trigger can retract) *)
MatchIdx(cfg, row) == SelectSeq([i \in 1..Len(cfg.table) |-> i], LAMBDA i : ~IsNullV(row[cfg.col]) /\ ~IsNullV(cfg.table[i][cfg.jcol]) /\ cfg.table[i][cfg.jcol] = row[cfg.col])
LookupStep(cfg, st, msg) ==
  IF IsWm(msg) THEN [st |-> st, out |-> <<msg>>]
  ELSE LET I == MatchIdx(cfg, msg.v) IN
       [st |-> st, out |-> [k \in 1..Len(I) |-> Rec(msg.v \o cfg.table[I[k]], (msg.r /\ ~cfg.tflags[I[k]]) \/ (~msg.r /\ cfg.tflags[I[k]]), msg.t)]]
RECURSIVE LookupBag(_, _, _)
LookupBag(cfg, inBag, D) ==
  IF D = {} THEN <<>>
  ELSE LET r == CHOOSE x \in D : TRUE
           rest == LookupBag(cfg, inBag, D \ {r})
           RECURSIVE Add(_, _)
           Add(b, is) == IF is = <<>> THEN b ELSE Add(BagPut(b, r \o cfg.table[Head(is)], IF cfg.tflags[Head(is)] THEN -inBag[r] ELSE inBag[r]), Tail(is))
       IN Add(rest, MatchIdx(cfg, r))
LookupBatch(cfg, inBag) == LookupBag(cfg, inBag, DOMAIN inBag)

(* ---------------------------------------------------------------- unnest ------------------------------------------------------------------ *)
UnnestRows(cfg, row) == [i \in 1..Len(row[cfg.col].l) |-> [row EXCEPT ![cfg.col] = row[cfg.col].l[i]]]
UnnestStep(cfg, st, msg) ==
  IF IsWm(msg) THEN [st |-> st, out |-> <<msg>>]
  ELSE [st |-> st, out |-> [i \in 1..Len(UnnestRows(cfg, msg.v)) |-> Rec(UnnestRows(cfg, msg.v)[i], msg.r, msg.t)]]
RECURSIVE UnnestBag(_, _, _)
UnnestBag(cfg, inBag, D) ==
  IF D = {} THEN <<>>
  ELSE LET r == CHOOSE x \in D : TRUE
           RECURSIVE Add(_, _)
           Add(b, rs) == IF rs = <<>> THEN b ELSE Add(BagPut(b, Head(rs), inBag[r]), Tail(rs))
       IN Add(UnnestBag(cfg, inBag, D \ {r}), UnnestRows(cfg, r))
UnnestBatch(cfg, inBag) == UnnestBag(cfg, inBag, DOMAIN inBag)
=============================================================================
