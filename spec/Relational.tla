------------------------------- MODULE Relational -------------------------------
(***************************************************************************)
(* C01 - C05: batch SQL meaning over small tables.                         *)
(*                                                                         *)
(* A row is a record column -> abstract value (Values.tla); a table is a   *)
(* sequence of rows.  A query term is                                      *)
(*   [k |-> "select", from, where, proj, distinct, order, limit]           *)
(*   from  : [k |-> "table", name, as] | [k |-> "sub", q, as] |            *)
(*           [k |-> "with", q, as]  (WITH as AS (q) SELECT ... FROM as) |  *)
(*           [k |-> "join", kind, l, r, on] |                              *)
(*           [k |-> "dstar", name, as]  ((SELECT DISTINCT * FROM name) as)  *)
(*           [k |-> "star", name, as]   ((SELECT * FROM name) as)           *)
(*   where : expression or None;  proj : <<[e, as]>>;  order : <<[e, dir]>>*)
(*   limit : -1 or n                                                       *)
(* Expressions: [e |-> "col", q (qualifier or ""), c] | "int" | "str" |    *)
(* "null" | unary "not" "isnull" "isnotnull" "neg" | binary "and" "or"     *)
(* "=" "<" "<=" ">" "+" "*".                                               *)
(* Sem(q, DB) is the list of result rows in table order where the order is *)
(* determined, otherwise any order (Bag).  Render(q) is the SQL text.      *)
(* NULL sorts first, strings compare bytewise, = is never TRUE on NULL.    *)
(***************************************************************************)
EXTENDS Values, Json

None == [none |-> TRUE]
IsNone(x) == "none" \in DOMAIN x

(* ---------------- expressions ---------------- *)
Col(q, c)   == [e |-> "col", q |-> q, c |-> c]
IntE(n)     == [e |-> "int", n |-> n]
StrE(s)     == [e |-> "str", s |-> s]
NullE       == [e |-> "null"]
Un(op, x)   == [e |-> op, x |-> x]
Bin(op, x, y) == [e |-> op, x |-> x, y |-> y]

T3(b) == IF b THEN BoolV(TRUE) ELSE BoolV(FALSE)
IsNullV(v) == v.t = "null"
IsTrue(v) == v.t = "bool" /\ v.b
IsFalse(v) == v.t = "bool" /\ ~v.b

(* a row environment: function from <<qualifier, column>> to value; Lookup resolves an unqualified name uniquely *)
Lookup(env, q, c) == IF q # "" THEN env[<<q, c>>]
                     ELSE env[CHOOSE k \in DOMAIN env : k[2] = c]

RECURSIVE EvalE(_, _)
EvalE(x, env) ==
  CASE x.e = "col"  -> Lookup(env, x.q, x.c)
    [] x.e = "int"  -> IntV(x.n)
    [] x.e = "str"  -> StrV(x.s)
    [] x.e = "null" -> NullV
    [] x.e = "not"  -> LET v == EvalE(x.x, env) IN IF IsNullV(v) THEN NullV ELSE T3(~v.b)
    [] x.e = "isnull"    -> T3(IsNullV(EvalE(x.x, env)))
    [] x.e = "isnotnull" -> T3(~IsNullV(EvalE(x.x, env)))
    [] x.e = "neg"  -> LET v == EvalE(x.x, env) IN IF IsNullV(v) THEN NullV ELSE IntV(-v.i)
    [] x.e = "and"  -> LET a == EvalE(x.x, env) b == EvalE(x.y, env) IN
                       IF IsFalse(a) \/ IsFalse(b) THEN BoolV(FALSE) ELSE IF IsNullV(a) \/ IsNullV(b) THEN NullV ELSE BoolV(TRUE)
    [] x.e = "or"   -> LET a == EvalE(x.x, env) b == EvalE(x.y, env) IN
                       IF IsTrue(a) \/ IsTrue(b) THEN BoolV(TRUE) ELSE IF IsNullV(a) \/ IsNullV(b) THEN NullV ELSE BoolV(FALSE)
    [] x.e \in {"=", "<", "<=", ">"} ->
                       LET a == EvalE(x.x, env) b == EvalE(x.y, env) c == SpecCmp(a, b) IN
                       IF IsNullV(a) \/ IsNullV(b) THEN NullV
                       ELSE T3(CASE x.e = "=" -> c = 0 [] x.e = "<" -> c < 0 [] x.e = "<=" -> c <= 0 [] x.e = ">" -> c > 0)
    [] x.e = "+"    -> LET a == EvalE(x.x, env) b == EvalE(x.y, env) IN IF IsNullV(a) \/ IsNullV(b) THEN NullV ELSE IntV(a.i + b.i)
    [] x.e = "*"    -> LET a == EvalE(x.x, env) b == EvalE(x.y, env) IN IF IsNullV(a) \/ IsNullV(b) THEN NullV ELSE IntV(a.i * b.i)

RECURSIVE RenderE(_)
RenderE(x) ==
  CASE x.e = "col"  -> (IF x.q = "" THEN x.c ELSE x.q \o "." \o x.c)
    [] x.e = "int"  -> (IF x.n < 0 THEN "(0 - " \o ToString(-x.n) \o ")" ELSE ToString(x.n))
    [] x.e = "str"  -> "'" \o x.s \o "'"
    [] x.e = "null" -> "NULL"
    [] x.e = "not"  -> "(NOT " \o RenderE(x.x) \o ")"
    [] x.e = "isnull" -> "(" \o RenderE(x.x) \o " IS NULL)"
    [] x.e = "isnotnull" -> "(" \o RenderE(x.x) \o " IS NOT NULL)"
    [] x.e = "neg"  -> "(0 - " \o RenderE(x.x) \o ")"
    [] x.e = "and"  -> "(" \o RenderE(x.x) \o " AND " \o RenderE(x.y) \o ")"
    [] x.e = "or"   -> "(" \o RenderE(x.x) \o " OR " \o RenderE(x.y) \o ")"
    [] OTHER        -> "(" \o RenderE(x.x) \o " " \o x.e \o " " \o RenderE(x.y) \o ")"

(* ---------------- queries ---------------- *)
(* An intermediate relation: [cols |-> <<<<qualifier, name>>, ...>>, rows |-> <<env, ...>>]  (env: <<q, c>> -> value) *)
RowTuple(cols, env) == [i \in 1..Len(cols) |-> env[cols[i]]]
Requal(rel, as) ==     \* rename the qualifier of every column to `as`
  LET cols2 == [i \in 1..Len(rel.cols) |-> <<as, rel.cols[i][2]>>] IN
  [cols |-> cols2, rows |-> [r \in 1..Len(rel.rows) |-> [k \in {cols2[i] : i \in 1..Len(cols2)} |->
                               rel.rows[r][rel.cols[CHOOSE i \in 1..Len(cols2) : cols2[i] = k]]]]]

(* sort a sequence of envs by order keys (stable on the input order for full ties) *)
KeyOf(order, env) == [i \in 1..Len(order) |-> EvalE(order[i].e, env)]
RECURSIVE CmpKeys(_, _, _, _)
CmpKeys(order, ka, kb, i) == IF i > Len(order) THEN 0
                             ELSE LET c == SpecCmp(ka[i], kb[i]) * (IF order[i].dir = "desc" THEN -1 ELSE 1) IN
                                  IF c # 0 THEN c ELSE CmpKeys(order, ka, kb, i + 1)
RECURSIVE InsertSorted(_, _, _)
InsertSorted(order, s, env) ==
  IF s = <<>> THEN <<env>>
  ELSE IF CmpKeys(order, KeyOf(order, env), KeyOf(order, Head(s)), 1) < 0 THEN <<env>> \o s
  ELSE <<Head(s)>> \o InsertSorted(order, Tail(s), env)
RECURSIVE SortEnvs(_, _)
SortEnvs(order, s) == IF s = <<>> THEN <<>> ELSE InsertSorted(order, SortEnvs(order, SubSeq(s, 1, Len(s) - 1)), s[Len(s)])

RECURSIVE DedupSeq(_)
DedupSeq(s) == IF s = <<>> THEN <<>>
               ELSE LET rest == DedupSeq(SubSeq(s, 1, Len(s) - 1)) IN
                    IF \E i \in 1..Len(rest) : rest[i] = s[Len(s)] THEN rest ELSE Append(rest, s[Len(s)])

JoinEnv(a, b) == a @@ b
NullEnv(cols) == [k \in {cols[i] : i \in 1..Len(cols)} |-> NullV]

RECURSIVE EvalFrom(_, _)
RECURSIVE EvalQuery(_, _)
EvalFrom(f, DB) ==
  CASE f.k = "table" -> LET t == DB[f.name] IN
                        [cols |-> [i \in 1..Len(t.cols) |-> <<f.as, t.cols[i]>>],
                         rows |-> [r \in 1..Len(t.rows) |-> [k \in {<<f.as, t.cols[i]>> : i \in 1..Len(t.cols)} |-> t.rows[r][k[2]]]]]
    [] f.k \in {"sub", "with"} -> Requal(EvalQuery(f.q, DB).rel, f.as)
    [] f.k = "star" -> EvalFrom([k |-> "table", name |-> f.name, as |-> f.as], DB)                    \* (SELECT * FROM mem.name x) as
    [] f.k = "dstar" -> LET base == EvalFrom([k |-> "table", name |-> f.name, as |-> f.as], DB) IN    \* (SELECT DISTINCT * FROM mem.name x) as
                        [cols |-> base.cols, rows |-> DedupSeq(base.rows)]
    [] f.k = "join" ->
         LET L == EvalFrom(f.l, DB) R == EvalFrom(f.r, DB)
             match(a, b) == IsTrue(EvalE(f.on, JoinEnv(a, b)))
             pairs == [i \in 1..Len(L.rows) |-> SelectSeq([j \in 1..Len(R.rows) |-> JoinEnv(L.rows[i], R.rows[j])],
                                                          LAMBDA e : IsTrue(EvalE(f.on, e)))]
             RECURSIVE Flat(_)
             Flat(ss) == IF ss = <<>> THEN <<>> ELSE Head(ss) \o Flat(Tail(ss))
             inner == Flat(pairs)
             lonelyL == SelectSeq(L.rows, LAMBDA a : ~\E j \in 1..Len(R.rows) : match(a, R.rows[j]))
             lonelyR == SelectSeq(R.rows, LAMBDA b : ~\E i \in 1..Len(L.rows) : match(L.rows[i], b))
             padL == [i \in 1..Len(lonelyL) |-> JoinEnv(lonelyL[i], NullEnv(R.cols))]
             padR == [i \in 1..Len(lonelyR) |-> JoinEnv(NullEnv(L.cols), lonelyR[i])]
         IN [cols |-> L.cols \o R.cols,
             rows |-> inner \o (IF f.kind \in {"left", "outer"} THEN padL ELSE <<>>) \o (IF f.kind \in {"right", "outer"} THEN padR ELSE <<>>)]

(* ---------------- aggregates (C03) ---------------- *)
RECURSIVE SumVals(_)
SumVals(s) == IF s = <<>> THEN 0 ELSE Head(s).i + SumVals(Tail(s))
TruncDivI(a, b) == IF (a >= 0) = (b > 0) THEN (IF a >= 0 THEN a \div b ELSE (-a) \div (-b)) ELSE -((IF a >= 0 THEN a ELSE -a) \div (IF b >= 0 THEN b ELSE -b))
RECURSIVE InsertVal(_, _)
InsertVal(s, v) == IF s = <<>> THEN <<v>> ELSE IF SpecCmp(v, Head(s)) < 0 THEN <<v>> \o s ELSE <<Head(s)>> \o InsertVal(Tail(s), v)
RECURSIVE SortVals(_)
SortVals(s) == IF s = <<>> THEN <<>> ELSE InsertVal(SortVals(Tail(s)), Head(s))
(* vals: the non-NULL inputs of the group, in any order.  Every aggregate of a group without non-NULL input is NULL. *)
AggValue(fn, distinct, vals0) ==
  LET vals == IF distinct THEN DedupSeq(vals0) ELSE vals0 IN
  IF vals = <<>> THEN NullV
  ELSE CASE fn = "count" -> IntV(Len(vals))
         [] fn = "sum"   -> IntV(SumVals(vals))
         [] fn = "avg"   -> IntV(TruncDivI(SumVals(vals), Len(vals)))          \* AVG over Int truncates toward zero
         [] fn = "min"   -> SortVals(vals)[1]
         [] fn = "max"   -> SortVals(vals)[Len(vals)]
         [] fn = "array_agg" -> ListV(SortVals(vals))                          \* ascending

(* result: [rel |-> relation of the output columns (rows in result order), all |-> the rows before LIMIT] *)
EvalQuery(q, DB) ==
  LET src   == EvalFrom(q.from, DB)
      kept  == IF IsNone(q.where) THEN src.rows ELSE SelectSeq(src.rows, LAMBDA env : IsTrue(EvalE(q.where, env)))
      ocols == IF q.k = "group" THEN [i \in 1..(Len(q.keys) + Len(q.aggs)) |-> <<"", IF i <= Len(q.keys) THEN q.keys[i].as ELSE q.aggs[i - Len(q.keys)].as>>]
               ELSE [i \in 1..Len(q.proj) |-> <<"", q.proj[i].as>>]
      mkenv(tuple) == [k \in {ocols[i] : i \in 1..Len(ocols)} |-> tuple[CHOOSE i \in 1..Len(ocols) : ocols[i] = k]]
      (* plain SELECT *)
      projRows == [r \in 1..Len(kept) |-> mkenv([i \in 1..Len(q.proj) |-> EvalE(q.proj[i].e, kept[r])])]
      (* GROUP BY: one row per distinct key tuple present (NULL is a key), in order of first appearance *)
      keyT(env) == [i \in 1..Len(q.keys) |-> EvalE(q.keys[i].e, env)]
      gkeys == DedupSeq([r \in 1..Len(kept) |-> keyT(kept[r])])
      inputs(key, a) == LET rows == SelectSeq(kept, LAMBDA env : keyT(env) = key)
                            vs == [r \in 1..Len(rows) |-> IF q.aggs[a].star THEN IntV(1) ELSE EvalE(q.aggs[a].e, rows[r])]
                        IN SelectSeq(vs, LAMBDA v : ~IsNullV(v))
      groupRows == [g \in 1..Len(gkeys) |-> mkenv(gkeys[g] \o [a \in 1..Len(q.aggs) |-> AggValue(q.aggs[a].fn, q.aggs[a].distinct, inputs(gkeys[g], a))])]
      outRows == IF q.k = "group" THEN groupRows ELSE projRows
      dd    == IF q.distinct THEN DedupSeq(outRows) ELSE outRows
      (* ORDER BY refers to the output columns *)
      sorted == IF q.order = <<>> THEN dd ELSE SortEnvs(q.order, dd)
      lim   == IF q.limit < 0 \/ q.limit >= Len(sorted) THEN sorted ELSE SubSeq(sorted, 1, q.limit)
  IN [rel |-> [cols |-> ocols, rows |-> lim], all |-> [cols |-> ocols, rows |-> sorted]]

(* Is the prefix selected by LIMIT determined?  Yes iff there is no effective limit, or an ORDER BY separates the n-th and (n+1)-th row,
   or every row that ties with the n-th row on the ORDER BY keys is identical to it (then any choice inside the tie gives the same rows). *)
LimitDetermined(q, DB) ==
  LET r == EvalQuery(q, DB) n == q.limit IN
  n < 0 \/ n >= Len(r.all.rows) \/ n = 0 \/
  (q.order # <<>> /\ (CmpKeys(q.order, KeyOf(q.order, r.all.rows[n]), KeyOf(q.order, r.all.rows[n + 1]), 1) # 0
                      \/ \A i \in 1..Len(r.all.rows) : CmpKeys(q.order, KeyOf(q.order, r.all.rows[i]), KeyOf(q.order, r.all.rows[n]), 1) = 0 => r.all.rows[i] = r.all.rows[n]))
Ordered(q) == q.order # <<>>

(* ---------------- rendering ---------------- *)
RECURSIVE JoinStr(_, _)
JoinStr(ss, sep) == IF ss = <<>> THEN "" ELSE IF Len(ss) = 1 THEN ss[1] ELSE ss[1] \o sep \o JoinStr(Tail(ss), sep)
RECURSIVE RenderFrom(_), RenderQ(_)
RenderFrom(f) ==
  CASE f.k = "table" -> "mem." \o f.name \o " " \o f.as
    [] f.k = "sub"   -> "(" \o RenderQ(f.q) \o ") " \o f.as
    [] f.k = "star"  -> "(SELECT * FROM mem." \o f.name \o " x) " \o f.as
    [] f.k = "dstar" -> "(SELECT DISTINCT * FROM mem." \o f.name \o " x) " \o f.as
    [] f.k = "with"  -> f.as \o " " \o f.as
    [] f.k = "join"  -> RenderFrom(f.l) \o (CASE f.kind = "inner" -> " JOIN " [] f.kind = "left" -> " LEFT JOIN " [] f.kind = "right" -> " RIGHT JOIN "
                                              [] f.kind = "outer" -> " OUTER JOIN " [] f.kind = "lookup" -> " LOOKUP JOIN ")
                        \o RenderFrom(f.r) \o " ON " \o RenderE(f.on)
RenderAgg(a) == (IF a.fn = "array_agg" THEN "array_agg" ELSE a.fn) \o "(" \o (IF a.distinct THEN "DISTINCT " ELSE "") \o (IF a.star THEN "*" ELSE RenderE(a.e)) \o ") AS " \o a.as
RenderQ(q) ==
  (IF q.from.k = "with" THEN "WITH " \o q.from.as \o " AS (" \o RenderQ(q.from.q) \o ") " ELSE "")
  \o "SELECT " \o (IF q.distinct THEN "DISTINCT " ELSE "")
  \o (IF q.k = "group"
      THEN JoinStr([i \in 1..Len(q.keys) |-> RenderE(q.keys[i].e) \o " AS " \o q.keys[i].as] \o [i \in 1..Len(q.aggs) |-> RenderAgg(q.aggs[i])], ", ")
      ELSE JoinStr([i \in 1..Len(q.proj) |-> RenderE(q.proj[i].e) \o " AS " \o q.proj[i].as], ", "))
  \o " FROM " \o RenderFrom(q.from)
  \o (IF IsNone(q.where) THEN "" ELSE " WHERE " \o RenderE(q.where))
  \o (IF q.k = "group" /\ q.keys # <<>> THEN " GROUP BY " \o JoinStr([i \in 1..Len(q.keys) |-> RenderE(q.keys[i].e)], ", ") ELSE "")
  \o (IF q.k = "group" /\ q.trig # "" THEN " TRIGGER " \o q.trig ELSE "")      \* triggers change when results appear, not what they are (C16)
  \o (IF q.order = <<>> THEN "" ELSE " ORDER BY " \o JoinStr([i \in 1..Len(q.order) |-> RenderE(q.order[i].e) \o (IF q.order[i].dir = "desc" THEN " DESC" ELSE " ASC")], ", "))
  \o (IF q.limit < 0 THEN "" ELSE " LIMIT " \o ToString(q.limit))

(* the result as a sequence of tie groups: within a group (equal ORDER BY keys, or the whole result without ORDER BY) any order is right *)
RECURSIVE GroupTies(_, _)
GroupTies(order, envs) ==
  IF envs = <<>> THEN <<>>
  ELSE LET k1 == KeyOf(order, envs[1])
           n  == IF order = <<>> THEN Len(envs)
                 ELSE LET I == {i \in 1..Len(envs) : \A j \in 1..i : CmpKeys(order, KeyOf(order, envs[j]), k1, 1) = 0} IN
                      CHOOSE i \in I : \A j \in I : j <= i
       IN <<SubSeq(envs, 1, n)>> \o GroupTies(order, SubSeq(envs, n + 1, Len(envs)))
ResultGroups(q, DB) == LET r == EvalQuery(q, DB) g == GroupTies(q.order, r.rel.rows) IN
                       [i \in 1..Len(g) |-> [j \in 1..Len(g[i]) |-> RowTuple(r.rel.cols, g[i][j])]]
ResultRows(q, DB) == LET r == EvalQuery(q, DB) IN [i \in 1..Len(r.rel.rows) |-> RowTuple(r.rel.cols, r.rel.rows[i])]
AllRows(q, DB)    == LET r == EvalQuery(q, DB) IN [i \in 1..Len(r.all.rows) |-> RowTuple(r.all.cols, r.all.rows[i])]
=============================================================================
