-------------------------------- MODULE OpTrace --------------------------------
(***************************************************************************)
(* Trace validation for the single-input streaming operators.  Events      *)
(* recorded by the harness from the real node driven by a scripted source: *)
(*   {"ev":"new","cfg":cfg}                                                *)
(*   {"ev":"in","msg":m,"out":[messages emitted while m was processed]}    *)
(*   {"ev":"eos","out":[messages emitted after the source returned]}       *)
(* Layer P (verdict): PFail of Ops.tla evaluated after every event.        *)
(* Layer I (drift only): the step output equals OpStep / OpEos as a bag of *)
(* messages; after the first mismatch the model state is no longer used.   *)
(***************************************************************************)
EXTENDS Ops, Json

Trace == ndJsonDeserialize("op_trace.ndjson")

VARIABLES l, cfg, ins, outs, st, done, bad, why, driftAt
tvars == <<l, cfg, ins, outs, st, done, bad, why, driftAt>>

Dummy == [op |-> "distinct"]
TInit == l = 1 /\ cfg = Dummy /\ ins = <<>> /\ outs = <<>> /\ st = <<>> /\ done = FALSE /\ bad = 0 /\ why = "" /\ driftAt = 0


TNew == /\ l <= Len(Trace) /\ Trace[l].ev = "new"
        /\ cfg' = Trace[l].cfg /\ ins' = <<>> /\ outs' = <<>> /\ st' = OpInit(Trace[l].cfg) /\ done' = FALSE
        /\ driftAt' = 0
        /\ l' = l + 1 /\ UNCHANGED <<bad, why>>

Observe(ins2, stepOut, isEos, pred) ==
  LET f == PFail(cfg, ins2, outs, stepOut, isEos) IN
  /\ outs' = outs \o stepOut
  /\ bad' = IF bad = 0 /\ f # "" THEN l ELSE bad
  /\ why' = IF bad = 0 /\ f # "" THEN f ELSE why
  /\ LET drift == driftAt = 0 /\ MsgBag(pred.out) # MsgBag(stepOut) IN
     /\ driftAt' = IF drift THEN l ELSE driftAt
     /\ drift => PrintT(<<"VP:drift", l>>)
  /\ st' = pred.st

TIn == /\ l <= Len(Trace) /\ Trace[l].ev = "in" /\ ~done
       /\ LET m == Trace[l].msg IN
          /\ ins' = Append(ins, m)
          /\ Observe(Append(ins, m), Trace[l].out, FALSE, IF driftAt = 0 THEN OpStep(cfg, st, m) ELSE [st |-> st, out |-> Trace[l].out])
       /\ l' = l + 1 /\ UNCHANGED <<cfg, done>>

TEos == /\ l <= Len(Trace) /\ Trace[l].ev = "eos" /\ ~done
        /\ Observe(ins, Trace[l].out, TRUE, IF driftAt = 0 THEN OpEos(cfg, st) ELSE [st |-> st, out |-> Trace[l].out])
        /\ done' = TRUE
        /\ l' = l + 1 /\ UNCHANGED <<cfg, ins>>

TNext == TNew \/ TIn \/ TEos
TSpec == TInit /\ [][TNext]_tvars
LayerP == bad = 0
InputOk == OkScript(ins)       \* the driver must feed valid, non-late input (else: machinery problem, not a verdict)
TraceAccepted == TLCGet("stats").diameter - 1 = Len(Trace)
=============================================================================
