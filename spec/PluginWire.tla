----------------------------- MODULE PluginWire -----------------------------
(***************************************************************************)
(* C26 — what crosses the plugin boundary (plugins/internal/plugins,       *)
(* plugins/executor, plugins/plugins.go).                                  *)
(*                                                                         *)
(* (i)  Messages.  The things sent are values (U of Values.tla), types (TU *)
(*      of Types.tla), schemas (fields, time field index -1..n-1,          *)
(*      no-retractions flag), records (values, retraction flag, event      *)
(*      time), watermark messages, and physical / execution variable       *)
(*      contexts (a stack of frames).  Layer P: Decode(Encode(x)) = x for  *)
(*      every x of these universes, where a time is equal to the same      *)
(*      instant in another zone.                                           *)
(* (ii) Predicates.  For every function overload f and every argument      *)
(*      tuple of the C11/C12/C13 universes: evaluating f on the receiving  *)
(*      side of the transport gives what it gives on the sending side      *)
(*      (same value, or an error on both) - decided on the real functions. *)
(* (iii) The Run stream: the server sends the messages its node produces,  *)
(*      in order, over a FIFO channel; the client hands them to its        *)
(*      callbacks, in order; a server error ends the stream after what was *)
(*      sent; the client may stop early (LIMIT).  The state machine below  *)
(*      (PluginStream.tla) is model-checked: what the client delivered is  *)
(*      always a prefix of                                                 *)
(*      the script, all of it when the stream ends normally, and exactly   *)
(*      the part before the failure when the server fails.                 *)
(***************************************************************************)
EXTENDS Types, SequencesExt

(* ------------------------------------------------------------------ (i) message universes *)
Pick(seq) == seq[RandomElement(1..Len(seq))]
(* times outside 1677-09-21 .. 2262-04-11 (the range of a 64-bit nanosecond count) are ordinary Time values and must cross the wire unchanged:
   abstract -3, -2, -1 = the years 1066, 1500 and the last second before the lower end; 1000001.. = the first day after the upper end, 2300, 9999 *)
FarTimes == {-3, -2, -1, 1000001, 1000002, 1000003}
USeq == SetToSeq(U \cup {TimeV(n) : n \in FarTimes} \cup {ListV(<<TimeV(-2), TimeV(1)>>), TupV(<<TimeV(1000003)>>)})
TSeq == SetToSeq(TU)
Names == <<"a", "b", "t.x", "time", "", "é?", "a b">>
Times == <<0, 1, 2, 86400, 1000000, -3, -1, 1000001, 1000003>>      \* abstract event times; 0 = the zero time (no event time)
RECURSIVE ValSeq(_), FieldSeq(_), FrameSeq(_, _)
ValSeq(n) == IF n = 0 THEN <<>> ELSE Append(ValSeq(n - 1), Pick(USeq))
FieldSeq(n) == IF n = 0 THEN <<>> ELSE Append(FieldSeq(n - 1), <<Pick(Names), Pick(TSeq)>>)
MkSchema(i) == LET n == RandomElement(0..3) IN [fields |-> FieldSeq(n), time_field |-> RandomElement(-1..(n - 1)), no_retractions |-> RandomElement(BOOLEAN)]
MkRecord(i) == [values |-> ValSeq(RandomElement(0..3)), retraction |-> RandomElement(BOOLEAN), time |-> Pick(Times)]
FrameSeq(n, phys) == IF n = 0 THEN <<>> ELSE Append(FrameSeq(n - 1, phys), IF phys THEN FieldSeq(RandomElement(0..2)) ELSE ValSeq(RandomElement(0..2)))
MkCtx(phys) == FrameSeq(RandomElement(0..3), phys)          \* innermost frame first; the empty stack is the nil context

(* (iii) the Run stream state machine is in PluginStream.tla *)
=============================================================================
