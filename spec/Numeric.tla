-------------------------------- MODULE Numeric --------------------------------
(***************************************************************************)
(* C13 — numeric, time and conversion functions (functions/functions.go,   *)
(* execution/expressions.go Coalesce).                                     *)
(*                                                                         *)
(* Ints are small integers plus the symbolic extremes min64 / max64 (TLC   *)
(* integers are 32 bit; wrap-around is specified on the extremes).  Floats *)
(* are exact fractions n/d and the IEEE specials; a result that is not     *)
(* exactly representable is given as Approx(n, d) (compared within 1e-9).  *)
(* Durations are integers of nanoseconds (DurV) or whole seconds (DurS,    *)
(* used with times, which are whole seconds from the harness base).        *)
(* Whatever the definitions leave open is Unpinned (only "no panic").      *)
(***************************************************************************)
EXTENDS Values

DurS(s) == [t |-> "durs", sec |-> s]
Unpinned == [unpinned |-> TRUE]
Approx(n, d) == [approx |-> TRUE, n |-> n, d |-> d]
IsBig(v) == "big" \in DOMAIN v
Abs(x) == IF x < 0 THEN -x ELSE x
TruncDiv(a, b) == IF (a >= 0) = (b > 0) THEN Abs(a) \div Abs(b) ELSE -(Abs(a) \div Abs(b))     \* b # 0

(* ---------- Int ---------- *)
IntAdd(a, b) ==
  IF ~IsBig(a) /\ ~IsBig(b) THEN IntV(a.i + b.i)
  ELSE IF IsBig(a) /\ ~IsBig(b) THEN
         (IF b.i = 0 THEN a
          ELSE IF a.big = "max64" /\ b.i = 1 THEN BigInt("min64")        \* ints wrap
          ELSE IF a.big = "min64" /\ b.i = -1 THEN BigInt("max64")
          ELSE Unpinned)
  ELSE IF ~IsBig(a) /\ IsBig(b) THEN
         (IF a.i = 0 THEN b
          ELSE IF b.big = "max64" /\ a.i = 1 THEN BigInt("min64")
          ELSE IF b.big = "min64" /\ a.i = -1 THEN BigInt("max64")
          ELSE Unpinned)
  ELSE IF a.big # b.big THEN IntV(-1)                                    \* max64 + min64 = -1
  ELSE IF a.big = "max64" THEN IntV(-2) ELSE IntV(0)                     \* 2*max64 wraps to -2, 2*min64 wraps to 0
IntNeg(a) == IF ~IsBig(a) THEN IntV(-a.i) ELSE IF a.big = "min64" THEN a ELSE Unpinned          \* -min64 = min64 (wraps)
IntSub(a, b) ==
  IF ~IsBig(b) THEN IntAdd(a, IntV(-b.i))
  ELSE IF IsBig(a) /\ a.big = b.big THEN IntV(0)
  ELSE IF ~IsBig(a) /\ a.i = -1 /\ b.big = "max64" THEN BigInt("min64")  \* -1 - max64 = min64
  ELSE IF ~IsBig(a) /\ a.i = 0 /\ b.big = "min64" THEN BigInt("min64")   \* 0 - min64 wraps to min64
  ELSE IF ~IsBig(a) /\ a.i = -1 /\ b.big = "min64" THEN BigInt("max64")
  ELSE Unpinned
IntMul(a, b) ==
  IF ~IsBig(a) /\ ~IsBig(b) THEN IntV(a.i * b.i)
  ELSE LET big == IF IsBig(a) THEN a ELSE b
           sm  == IF IsBig(a) THEN b ELSE a IN
       IF IsBig(sm) THEN Unpinned
       ELSE IF sm.i = 0 THEN IntV(0) ELSE IF sm.i = 1 THEN big
       ELSE IF sm.i = -1 THEN IntNeg(big)
       ELSE IF sm.i = 2 THEN (IF big.big = "max64" THEN IntV(-2) ELSE IntV(0))
       ELSE Unpinned
IntDiv(a, b) ==
  IF ~IsBig(b) /\ b.i = 0 THEN Unpinned                                  \* division by zero: an error, never a panic (C07)
  ELSE IF ~IsBig(a) /\ ~IsBig(b) THEN IntV(TruncDiv(a.i, b.i))           \* truncates toward zero
  ELSE IF ~IsBig(b) /\ b.i = 1 THEN a
  ELSE IF IsBig(a) /\ IsBig(b) /\ a.big = b.big THEN IntV(1)
  ELSE IF ~IsBig(a) /\ IsBig(b) THEN IntV(0)
  ELSE Unpinned
IntAbs(a) == IF ~IsBig(a) THEN IntV(Abs(a.i)) ELSE IF a.big = "max64" THEN a ELSE Unpinned

(* ---------- Float: F(n, d) with d > 0, specials as FSp ---------- *)
F(n, d) == FloatV(n, d)
IsSp(v) == v.t = "fsp"
IsZeroF(v) == (IsSp(v) /\ v.s \in {"-0", "+0"}) \/ (~IsSp(v) /\ v.n = 0)
SignF(v) == IF IsSp(v) THEN (CASE v.s = "+inf" -> 1 [] v.s = "-inf" -> -1 [] v.s = "-0" -> -1 [] v.s = "+0" -> 1 [] OTHER -> 0)
            ELSE IF v.n = 0 THEN 1 ELSE Sign(v.n)          \* a zero written as 0/d is +0
IsInf(v) == IsSp(v) /\ v.s \in {"+inf", "-inf"}
Inf(s) == IF s >= 0 THEN FSp("+inf") ELSE FSp("-inf")
Fin(v) == ~IsSp(v) \/ (IsSp(v) /\ v.s \in {"-0", "+0"})
Num(v) == IF IsSp(v) THEN 0 ELSE v.n
Den(v) == IF IsSp(v) THEN 1 ELSE v.d
FloatAdd(a, b) ==
  IF IsNaN(a) \/ IsNaN(b) THEN FSp("nan")
  ELSE IF IsInf(a) /\ IsInf(b) THEN (IF a.s = b.s THEN a ELSE FSp("nan"))
  ELSE IF IsInf(a) THEN a ELSE IF IsInf(b) THEN b
  ELSE IF IsZeroF(a) /\ IsZeroF(b) THEN Unpinned                          \* sign of zero sums: left open
  ELSE Approx(Num(a) * Den(b) + Num(b) * Den(a), Den(a) * Den(b))
FloatNeg(a) == IF IsNaN(a) THEN a ELSE IF IsInf(a) THEN Inf(-SignF(a)) ELSE IF IsZeroF(a) THEN Unpinned ELSE F(-a.n, a.d)
FloatSub(a, b) == IF IsNaN(b) THEN FSp("nan") ELSE IF IsInf(b) THEN FloatAdd(a, Inf(-SignF(b)))
                  ELSE IF IsZeroF(b) THEN (IF IsZeroF(a) THEN Unpinned ELSE a)
                  ELSE FloatAdd(a, F(-b.n, b.d))
FloatMul(a, b) ==
  IF IsNaN(a) \/ IsNaN(b) THEN FSp("nan")
  ELSE IF (IsInf(a) /\ IsZeroF(b)) \/ (IsZeroF(a) /\ IsInf(b)) THEN FSp("nan")
  ELSE IF IsInf(a) \/ IsInf(b) THEN Inf(SignF(a) * SignF(b))
  ELSE IF IsZeroF(a) \/ IsZeroF(b) THEN Unpinned
  ELSE Approx(Num(a) * Num(b), Den(a) * Den(b))
FloatDiv(a, b) ==
  IF IsNaN(a) \/ IsNaN(b) THEN FSp("nan")
  ELSE IF IsInf(a) /\ IsInf(b) THEN FSp("nan")
  ELSE IF IsZeroF(a) /\ IsZeroF(b) THEN FSp("nan")
  ELSE IF IsInf(a) THEN Inf(SignF(a) * SignF(b))
  ELSE IF IsInf(b) THEN Unpinned                                          \* a signed zero
  ELSE IF IsZeroF(b) THEN Inf(SignF(a) * SignF(b))                        \* x / 0.0 = +-Inf, not an error
  ELSE IF IsZeroF(a) THEN Unpinned
  ELSE IF Num(b) > 0 THEN Approx(Num(a) * Den(b), Den(a) * Num(b)) ELSE Approx(-Num(a) * Den(b), Den(a) * (-Num(b)))
FloorDiv(n, d) == n \div d           \* d > 0: floor
FloatFloor(a) == IF IsSp(a) THEN (IF IsZeroF(a) THEN Unpinned ELSE a) ELSE F(FloorDiv(a.n, a.d), 1)
FloatCeil(a)  == IF IsSp(a) THEN (IF IsZeroF(a) THEN Unpinned ELSE a)
                 ELSE LET c == -FloorDiv(-a.n, a.d) IN IF c = 0 /\ a.n < 0 THEN Unpinned ELSE F(c, 1)   \* ceil(-0.5) is -0
FloatAbs(a) == IF IsNaN(a) THEN a ELSE IF IsInf(a) THEN FSp("+inf") ELSE IF IsZeroF(a) THEN Unpinned ELSE F(Abs(a.n), a.d)
IsSquare(n) == \E k \in 0..n : k * k = n
Root(n) == CHOOSE k \in 0..n : k * k = n
FloatSqrt(a) == IF IsNaN(a) THEN a ELSE IF IsSp(a) THEN (IF a.s = "+inf" THEN a ELSE IF a.s = "-inf" THEN FSp("nan") ELSE Unpinned)
                ELSE IF a.n < 0 THEN FSp("nan")
                ELSE IF IsSquare(a.n) /\ IsSquare(a.d) THEN Approx(Root(a.n), Root(a.d)) ELSE Unpinned
RECURSIVE IPow(_, _)
IPow(b, e) == IF e = 0 THEN 1 ELSE b * IPow(b, e - 1)
FloatPow(a, b) ==    \* only exact cases: finite base, small non-negative whole exponent
  IF ~IsSp(a) /\ ~IsSp(b) /\ b.d = 1 /\ b.n >= 0 /\ b.n <= 4 /\ Abs(a.n) <= 6 /\ a.d <= 4
  THEN (IF b.n = 0 THEN Approx(1, 1) ELSE IF a.n = 0 THEN Unpinned ELSE Approx(IPow(a.n, b.n), IPow(a.d, b.n)))
  ELSE Unpinned
Log2Exact(a) == IF ~IsSp(a) /\ a.d = 1 /\ a.n \in {1, 2, 4, 8, 1024} THEN Approx(CHOOSE k \in 0..10 : IPow(2, k) = a.n, 1)
                ELSE IF ~IsSp(a) /\ a.n = 1 /\ a.d \in {2, 4} THEN Approx(-(CHOOSE k \in 0..3 : IPow(2, k) = a.d), 1)
                ELSE IF ~IsSp(a) /\ a.n < 0 THEN FSp("nan")
                ELSE IF ~IsSp(a) /\ a.n = 0 THEN FSp("-inf") ELSE Unpinned
Log10Exact(a) == IF ~IsSp(a) /\ a.d = 1 /\ a.n \in {1, 10, 100, 1000} THEN Approx(CHOOSE k \in 0..3 : IPow(10, k) = a.n, 1)
                 ELSE IF ~IsSp(a) /\ a.n < 0 THEN FSp("nan") ELSE IF ~IsSp(a) /\ a.n = 0 THEN FSp("-inf") ELSE Unpinned
LogExact(a)   == IF ~IsSp(a) /\ a.n = a.d THEN Approx(0, 1)
                 ELSE IF ~IsSp(a) /\ a.n < 0 THEN FSp("nan") ELSE IF ~IsSp(a) /\ a.n = 0 THEN FSp("-inf") ELSE Unpinned

(* ---------- conversions ---------- *)
IntOfFloat(a) == IF IsSp(a) THEN (IF IsZeroF(a) THEN IntV(0) ELSE Unpinned) ELSE IntV(TruncDiv(a.n, a.d))     \* truncation toward zero
FloatOfInt(a) == IF IsBig(a) THEN Unpinned ELSE F(a.i, 1)
IntOfBool(b)  == IntV(IF b.b THEN 1 ELSE 0)
(* string -> number: only the clear cases are pinned: [-]digits parses, clearly non-numeric text yields NULL *)
DecStrings == <<[s |-> "0", v |-> 0], [s |-> "12", v |-> 12], [s |-> "-7", v |-> -7], [s |-> "007", v |-> 7]>>
BadStrings == {"", "abc", "1.2.3", "12abc", "--1", "1 2"}
OpenStrings == {"+5", " 1", "1 ", "0x10", "1e3", "1.5", "1_0", "9223372036854775808", "NaN", "Inf", ".5", "-"}      \* left open

(* ---------- IN / list index / COALESCE ---------- *)
EqV(a, b) == a.t # "null" /\ b.t # "null" /\ SpecCmp(a, b) = 0
InSpec(x, xs) == IF \E i \in 1..Len(xs) : EqV(x, xs[i]) THEN BoolV(TRUE)
                 ELSE IF \E i \in 1..Len(xs) : xs[i].t = "null" THEN Unpinned ELSE BoolV(FALSE)
NotInSpec(x, xs) == LET r == InSpec(x, xs) IN IF r = Unpinned THEN r ELSE BoolV(~r.b)
IndexSpec(xs, i) == IF i < 0 THEN Unpinned ELSE IF i >= Len(xs) THEN NullV ELSE xs[i + 1]        \* out of range yields NULL
CoalesceSpec(xs) == LET I == {i \in 1..Len(xs) : xs[i].t # "null"} IN IF I = {} THEN NullV ELSE xs[CHOOSE i \in I : \A j \in I : i <= j]
=============================================================================
