----------------------------- MODULE SchemaCases -----------------------------
(* exports the C24 files under the TLC seed: per column the cells A cycled through the inference preview and the cells B of the rows after it *)
EXTENDS Schema, Json, SequencesExt
CONSTANTS N        \* cases per kind

CsvSeq == SetToSeq(CsvCells)
JScalarSeq == SetToSeq(JScalars)
PickCsv(i) == CsvSeq[RandomElement(1..Len(CsvSeq))]     \* parametrised: a zero-arity definition would be evaluated once
PickJScalar(i) == JScalarSeq[RandomElement(1..Len(JScalarSeq))]

RECURSIVE JDoc(_), JDocs(_, _)
JDocs(n, d) == IF n = 0 THEN <<>> ELSE Append(JDocs(n - 1, d), JDoc(d))
Names == <<"a", "b", "z">>
RECURSIVE SomeNames(_)
SomeNames(i) == IF i > Len(Names) THEN <<>> ELSE (IF RandomElement(1..3) = 1 THEN <<>> ELSE <<Names[i]>>) \o SomeNames(i + 1)
JDoc(d) ==
  LET kind == IF d = 0 THEN "scalar" ELSE <<"scalar", "scalar", "scalar", "arr", "obj", "missing">>[RandomElement(1..6)] IN
  CASE kind = "scalar"  -> PickJScalar(d)
    [] kind = "missing" -> JMissing
    [] kind = "arr"     -> JArr(SelectSeq(JDocs(RandomElement(0..3), d - 1), LAMBDA x : x.j # "missing"))
    [] kind = "obj"     -> LET ns == SomeNames(1)
                               ds == JDocs(Len(ns), d - 1)
                           IN JObj(ns, [i \in 1..Len(ns) |-> IF ds[i].j = "missing" THEN JNull ELSE ds[i]])

RECURSIVE CsvSeqOf(_)
CsvSeqOf(n) == IF n = 0 THEN <<>> ELSE Append(CsvSeqOf(n - 1), PickCsv(n))
MkCsvCol(i) == [A |-> CsvSeqOf(RandomElement(1..3)), B |-> CsvSeqOf(RandomElement(1..2))]
MkJsonCol(i) == [A |-> JDocs(RandomElement(1..3), 2), B |-> JDocs(RandomElement(1..2), 2)]
(* object columns whose preview rows all carry the same keys while later rows carry a subset / other keys (a key that is missing from a nested
   object after the preview is a NULL the inferred field type may not admit); also inside a list *)
ObjOver(ns) == JObj(ns, JDocs(Len(ns), 0))
MkObjCol(i) == LET full == IF RandomElement(1..2) = 1 THEN <<"a", "b">> ELSE <<"a", "b", "z">>
                   inList == RandomElement(1..4) = 1
                   wrap(o) == IF inList THEN JArr(<<o>>) ELSE o IN
               [A |-> IF RandomElement(1..2) = 1 THEN <<wrap(ObjOver(full))>> ELSE <<wrap(ObjOver(full)), wrap(ObjOver(full))>>,
                B |-> IF RandomElement(1..2) = 1 THEN <<wrap(ObjOver(SomeNames(1)))>> ELSE <<wrap(ObjOver(full)), wrap(ObjOver(SomeNames(1)))>>]
RECURSIVE Cols(_, _)
Cols(n, kind) == IF n = 0 THEN <<>> ELSE Append(Cols(n - 1, kind), IF kind = "csv" THEN MkCsvCol(n) ELSE IF RandomElement(1..3) = 1 THEN MkObjCol(n) ELSE MkJsonCol(n))
MkCase(i, kind) == [id |-> i, kind |-> kind, cols |-> Cols(RandomElement(1..3), kind), n |-> <<3, 7, 100, 102, 104, 104, 165>>[RandomElement(1..7)]]
RECURSIVE CasesFrom(_, _, _)
CasesFrom(lo, hi, kind) == IF lo > hi THEN <<>> ELSE IF lo = hi THEN <<MkCase(lo, kind)>> ELSE LET mid == (lo + hi) \div 2 IN CasesFrom(lo, mid, kind) \o CasesFrom(mid + 1, hi, kind)
Cases(n, kind) == CasesFrom(1, n, kind)

ASSUME SchemaLaws
ASSUME ndJsonSerialize("c24_cases.ndjson", Cases(N, "csv") \o Cases(N, "json"))
VARIABLE x
Init == x = 0
Next == x' = x
=============================================================================
