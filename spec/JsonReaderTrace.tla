--------------------------- MODULE JsonReaderTrace ---------------------------
(***************************************************************************)
(* Trace validation for the JSON datasource (C23 / C29) at the granularity *)
(* of batches: executions of the real reader / worker pool / consumer,     *)
(* recorded at the observation points JSONReader, JSONWorker, JSONConsumer *)
(* (build tag verif) and at the final produce callback, are checked        *)
(* against the protocol JsonReader.tla describes line by line:             *)
(*   read(b)    the line reader took a token and handed batch b to the pool*)
(*   parsed(b)  a worker finished batch b (and will put it on outChan)     *)
(*   take(b)    the consumer took batch b from outChan and released a token*)
(*   row(i)     the consumer produced the record of line i                 *)
(* Events carry a sequence number taken under one lock.                    *)
(*                                                                         *)
(* Layer P (verdict, C23): rows are produced in file order, each exactly   *)
(* once, and all of them when the query reads the whole file.              *)
(* Layer I (drift only): batches are read in file order, at most CapTok    *)
(* tokens are out, a batch is parsed only after it was read and taken only *)
(* after it was parsed, a row is produced only from a taken batch.         *)
(***************************************************************************)
EXTENDS Integers, Sequences, FiniteSets, TLC, Json

CONSTANTS B,        \* lines per batch (64)
          CapTok    \* capacity of the token channel (128)

Trace == ndJsonDeserialize("json_trace.ndjson")

VARIABLES l, nlines, limit, nread, inflight, ready, taken, tokens, produced, bad, why, driftAt
tvars == <<l, nlines, limit, nread, inflight, ready, taken, tokens, produced, bad, why, driftAt>>

TInit == l = 1 /\ nlines = 0 /\ limit = -1 /\ nread = 0 /\ inflight = {} /\ ready = {} /\ taken = {} /\ tokens = 0 /\ produced = 0 /\ bad = 0 /\ why = "" /\ driftAt = 0

BatchOf(line) == line \div B
Drift(cond) == IF driftAt = 0 /\ ~cond THEN l ELSE driftAt
Note(cond) == (driftAt = 0 /\ ~cond) => PrintT(<<"VP:drift", l>>)

TNew == /\ l <= Len(Trace) /\ Trace[l].e = "new"
        /\ nlines' = Trace[l].lines /\ limit' = Trace[l].limit
        /\ nread' = 0 /\ inflight' = {} /\ ready' = {} /\ taken' = {} /\ tokens' = 0 /\ produced' = 0
        /\ l' = l + 1 /\ UNCHANGED <<bad, why, driftAt>>
TRead == /\ l <= Len(Trace) /\ Trace[l].e = "read"
         /\ LET b == BatchOf(Trace[l].first) ok == b = nread /\ tokens < CapTok /\ Trace[l].first % B = 0 IN
            /\ nread' = nread + 1 /\ inflight' = inflight \cup {b} /\ tokens' = tokens + 1
            /\ driftAt' = Drift(ok) /\ Note(ok)
         /\ l' = l + 1 /\ UNCHANGED <<nlines, limit, ready, taken, produced, bad, why>>
TParsed == /\ l <= Len(Trace) /\ Trace[l].e = "parsed"
           /\ LET b == BatchOf(Trace[l].first) ok == b \in inflight IN
              /\ inflight' = inflight \ {b} /\ ready' = ready \cup {b}
              /\ driftAt' = Drift(ok) /\ Note(ok)
           /\ l' = l + 1 /\ UNCHANGED <<nlines, limit, nread, taken, tokens, produced, bad, why>>
TTake == /\ l <= Len(Trace) /\ Trace[l].e = "take"
         /\ LET b == BatchOf(Trace[l].first) ok == b \in ready /\ tokens > 0 IN
            /\ ready' = ready \ {b} /\ taken' = taken \cup {b} /\ tokens' = tokens - 1
            /\ driftAt' = Drift(ok) /\ Note(ok)
         /\ l' = l + 1 /\ UNCHANGED <<nlines, limit, nread, inflight, produced, bad, why>>
TRow == /\ l <= Len(Trace) /\ Trace[l].e = "row"
        /\ LET i == Trace[l].i IN
           /\ bad' = IF bad = 0 /\ i # produced THEN l ELSE bad
           /\ why' = IF bad = 0 /\ i # produced THEN "a row was produced out of file order (or twice, or one was skipped)" ELSE why
           /\ produced' = produced + 1
           /\ driftAt' = Drift(BatchOf(i) \in taken) /\ Note(BatchOf(i) \in taken)
        /\ l' = l + 1 /\ UNCHANGED <<nlines, limit, nread, inflight, ready, taken, tokens>>
TEnd == /\ l <= Len(Trace) /\ Trace[l].e = "end"
        /\ LET want == IF limit >= 0 /\ limit < nlines THEN limit ELSE nlines
               fail == Trace[l].ok /\ produced # want IN
           /\ bad' = IF bad = 0 /\ fail THEN l ELSE bad
           /\ why' = IF bad = 0 /\ fail THEN "the run ended without having produced every row of the file" ELSE why
        /\ l' = l + 1 /\ UNCHANGED <<nlines, limit, nread, inflight, ready, taken, tokens, produced, driftAt>>

TNext == TNew \/ TRead \/ TParsed \/ TTake \/ TRow \/ TEnd
TSpec == TInit /\ [][TNext]_tvars
LayerP == bad = 0
TraceAccepted == TLCGet("stats").diameter - 1 = Len(Trace)
=============================================================================
